#!/usr/bin/env python3
"""Append (or replace, by id+property) entries of known_findings.json atomically.
usage: addfinding.py '<json object or list>'"""
import json, sys, os, fcntl
p = os.path.join(os.path.dirname(os.path.abspath(__file__)), "known_findings.json")
new = json.loads(sys.argv[1])
if isinstance(new, dict):
    new = [new]
with open(p, "r+") as f:
    fcntl.flock(f, fcntl.LOCK_EX)
    d = json.load(f)
    for n in new:
        d["findings"] = [x for x in d["findings"] if not (x["id"] == n["id"] and x["property"] == n["property"])]
        d["findings"].append(n)
    f.seek(0); f.truncate()
    json.dump(d, f, indent=1)
print("ok", len(new))
