"""Per-property configuration for ./check (levels, theorem modules, trusted base)."""

KERNEL = "Lean 4.33 kernel; axioms allowed in property theorems: propext, Classical.choice, Quot.sound (audited with #print axioms on every run)"
MODEL = "hand-written Lean model (lean/TrustfallModel/Model/*.lean) of the Rust algorithms; tied to /repo's working tree by the differential correspondence run of this check (sampled, generator-bounded)"
HARNESS = "Rust harness (generators, canonicalisation, finite-f64 -> order-preserving integer key map, oracles); s-expression line protocol; Lean driver compiled from the same model definitions"

PROPS = {
    "C08": {
        "props_module": "TrustfallModel.Props.C08",
        "level": "proof",
        "trusted_base": [KERNEL, MODEL, HARNESS,
                         "floats: the model carries the order-preserving integer key of a finite f64 (±0 identified); non-finite floats are outside the model (the Rust code asserts finiteness)",
                         "i64/u64 `cmp` and lossless `try_from` conversions are modelled as numeric comparison of `Int64.toInt` / `UInt64.toNat`"],
        "assumptions": ["rustc's derived/primitive comparisons for i64, u64, f64 (finite), str, bool, slices behave as documented"],
        "technique": "Lean 4 proof (order/equality laws by induction over nested values) + differential correspondence",
        "level_text": "Machine-checked proof in Lean 4 that the model of FieldValue's PartialEq/PartialOrd is an equivalence and a total preorder agreeing with it and with numeric order across Int64/Uint64, for all values of any nesting; the model is tied to the current source by running every ordered pair of a boundary value set through the real `==`/`partial_cmp` and the compiled Lean definitions and diffing; the laws are also evaluated on the implementation's own answers over all triples to find a concrete failing input.",
        "level_note": "Trusted: Lean kernel (axioms propext, Classical.choice, Quot.sound only), the hand-written model of value.rs, the harness and its float-key map. The model is validated against the code by sampling, not verified. Non-finite floats are outside the model.",
    },
}

HOOK_COMMITS = ["00c370b"]

# properties not yet claimed (work in progress; every one has a design in DESIGN.md §3)
NOT_APPLICABLE = {
    "C01": "not claimed yet: machinery for this property is still being built (design in DESIGN.md §3)",
    "C02": "not claimed yet: machinery for this property is still being built (design in DESIGN.md §3)",
    "C03": "not claimed yet: machinery for this property is still being built (design in DESIGN.md §3)",
    "C04": "not claimed yet: machinery for this property is still being built (design in DESIGN.md §3)",
    "C05": "not claimed yet: machinery for this property is still being built (design in DESIGN.md §3)",
    "C06": "not claimed yet: machinery for this property is still being built (design in DESIGN.md §3)",
    "C07": "not claimed yet: machinery for this property is still being built (design in DESIGN.md §3)",
    "C09": "not claimed yet: machinery for this property is still being built (design in DESIGN.md §3)",
    "C10": "not claimed yet: machinery for this property is still being built (design in DESIGN.md §3)",
    "C11": "not claimed yet: machinery for this property is still being built (design in DESIGN.md §3)",
    "C12": "not claimed yet: machinery for this property is still being built (design in DESIGN.md §3)",
    "C13": "not claimed yet: machinery for this property is still being built (design in DESIGN.md §3)",
    "C14": "not claimed yet: machinery for this property is still being built (design in DESIGN.md §3)",
    "C15": "not claimed yet: machinery for this property is still being built (design in DESIGN.md §3)",
    "C16": "not claimed yet: machinery for this property is still being built (design in DESIGN.md §3)",
    "C17": "not claimed yet: machinery for this property is still being built (design in DESIGN.md §3)",
    "C18": "not claimed yet: machinery for this property is still being built (design in DESIGN.md §3)",
    "C19": "not claimed yet: machinery for this property is still being built (design in DESIGN.md §3)",
    "C20": "not claimed yet: machinery for this property is still being built (design in DESIGN.md §3)",
    "C21": "not claimed yet: machinery for this property is still being built (design in DESIGN.md §3)",
    "C22": "not claimed yet: machinery for this property is still being built (design in DESIGN.md §3)",
    "C23": "not claimed yet: machinery for this property is still being built (design in DESIGN.md §3)",
    "C24": "not claimed yet: machinery for this property is still being built (design in DESIGN.md §3)",
    "C25": "not claimed yet: machinery for this property is still being built (design in DESIGN.md §3)",
    "C26": "not claimed yet: machinery for this property is still being built (design in DESIGN.md §3)",
    "C27": "not claimed yet: machinery for this property is still being built (design in DESIGN.md §3)",
}

