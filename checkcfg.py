"""Per-property configuration for ./check: one JSON file per claimed property in cfg/ (so that
properties can be worked on independently).  Keys: props_module, harness_bin, driver, level,
level_text, level_note, technique, trusted_base, assumptions, partial (theorems proved in _partial
form with their guards), lean_pre (optional command run before the Lean build), explanation."""
import json, os, glob

HERE = os.path.dirname(os.path.abspath(__file__))
KERNEL = "Lean 4.33 kernel; axioms allowed in property theorems: propext, Classical.choice, Quot.sound (audited with #print axioms on every run)"
MODEL = "hand-written Lean model (lean/TrustfallModel/Model/*.lean) of the Rust algorithms; tied to /repo's working tree by the differential correspondence run of this check (sampled, generator-bounded)"
HARNESS = "Rust harness (generators, canonicalisation, finite-f64 -> order-preserving integer key map, oracles); s-expression line protocol; Lean driver compiled from the same model definitions"

PROPS = {}
for p in sorted(glob.glob(os.path.join(HERE, "cfg", "C*.json"))):
    c = json.load(open(p))
    PROPS[os.path.basename(p)[:-5]] = c

HOOK_COMMITS = [l.split()[0] for l in open(os.path.join(HERE, "cfg", "hook_commits.txt")) if l.strip()]

ALL_IDS = [json.loads(l)["id"] for l in open(os.path.join(HERE, "properties.jsonl"))]
_reasons = json.load(open(os.path.join(HERE, "cfg", "not_claimed.json")))
NOT_APPLICABLE = {
    pid: _reasons.get(pid, "not claimed yet: machinery for this property is still being built (design in DESIGN.md §3)")
    for pid in ALL_IDS if pid not in PROPS
}
