#!/bin/sh
# confirm_seed.sh <worktree> <PROP> <n> [extra cargo test args for the demo, e.g. "--features __private"]
# Re-confirms a seeded change in its scratch worktree: applies cleanly, compiles, the crate's own
# test-suite passes with it, the demonstration fails with it and passes without it.
# Writes /verif/seeded/<PROP>-<n>/{patch.diff,demo.rs,meta.json (partial: confirmation part)}.
WT="$1"; P="$2"; N="$3"; EXTRA="$4"
CR="${SEED_CRATE:-trustfall_core}"; SUITE_ARGS="${SEED_SUITE_ARGS:---lib}"; export CARGO_NET_OFFLINE=true
export CARGO_TARGET_DIR="$WT/target"
D=/verif/seeded/$P-$N; mkdir -p "$D"
cp "$WT/seed_${P}_$N.diff" "$D/patch.diff"; cp "$WT/demo_${P}_$N.rs" "$D/demo.rs"
cd "$WT" && git checkout -q -- . && mkdir -p $CR/tests && cp "$D/demo.rs" $CR/tests/demo_${P}_$N.rs
git apply "$D/patch.diff" || { echo "patch does not apply"; exit 2; }
cargo test -p $CR --offline $EXTRA --test demo_${P}_$N > "$D/demo_with.log" 2>&1; RW=$?
mv $CR/tests/demo_${P}_$N.rs /tmp/.demo_${P}_$N.rs; cargo test -p $CR --offline $SUITE_ARGS > "$D/suite_with.log" 2>&1; RS=$?; mv /tmp/.demo_${P}_$N.rs $CR/tests/demo_${P}_$N.rs
git apply -R "$D/patch.diff"
cargo test -p $CR --offline $EXTRA --test demo_${P}_$N > "$D/demo_without.log" 2>&1; RO=$?
rm -f $CR/tests/demo_${P}_$N.rs; rmdir $CR/tests 2>/dev/null
SUITE=$(grep -E "^test result" "$D/suite_with.log" | head -1)
echo "{\"demo_fails_with_change\": $([ $RW -ne 0 ] && echo true || echo false), \"suite_passes_with_change\": $([ $RS -eq 0 ] && echo true || echo false), \"demo_passes_without_change\": $([ $RO -eq 0 ] && echo true || echo false), \"suite_line\": \"$SUITE\"}" > "$D/confirm.json"
cat "$D/confirm.json"
