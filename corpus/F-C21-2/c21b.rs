//! F-C21-2 probe: an implementer widens an inherited edge parameter's type; @recurse continues on the
//! interface type with the parameter completed from the implementer's declaration.
use std::{cell::RefCell, collections::BTreeMap, rc::Rc, sync::Arc};

use trustfall_core::{
    frontend::parse,
    interpreter::{
        execution::interpret_ir, Adapter, AsVertex, ContextIterator, ContextOutcomeIterator,
        ResolveEdgeInfo, ResolveInfo, VertexIterator,
    },
    ir::{EdgeParameters, FieldValue},
    schema::Schema,
};

const SCHEMA: &str = r#"
schema { query: RootSchemaQuery }
directive @filter(op: String!, value: [String!]) repeatable on FIELD | INLINE_FRAGMENT
directive @tag(name: String) on FIELD
directive @output(name: String) on FIELD
directive @optional on FIELD
directive @recurse(depth: Int!) on FIELD
directive @fold on FIELD
directive @transform(op: String!) on FIELD

type RootSchemaQuery { b: [B] }
interface A { id: Int  e(x: Int!): [A] }
type B implements A { id: Int  e(x: Int): [A] }
"#;

#[derive(Clone, Debug)]
struct V(u32);

#[derive(Clone, Default)]
struct Rec {
    calls: Rc<RefCell<Vec<String>>>,
}

// 0 -e-> 1 -e-> 2 ; all of concrete type B
fn nbrs(v: u32) -> Vec<u32> {
    match v {
        0 => vec![1],
        1 => vec![2],
        _ => vec![],
    }
}

impl<'a> Adapter<'a> for Rec {
    type Vertex = V;

    fn resolve_starting_vertices(
        &self,
        edge_name: &Arc<str>,
        parameters: &EdgeParameters,
        _info: &ResolveInfo,
    ) -> VertexIterator<'a, Self::Vertex> {
        self.calls.borrow_mut().push(format!("start {edge_name} {parameters:?}"));
        Box::new(std::iter::once(V(0)))
    }

    fn resolve_property<X: AsVertex<Self::Vertex> + 'a>(
        &self,
        contexts: ContextIterator<'a, X>,
        type_name: &Arc<str>,
        property_name: &Arc<str>,
        _info: &ResolveInfo,
    ) -> ContextOutcomeIterator<'a, X, FieldValue> {
        self.calls.borrow_mut().push(format!("prop {type_name}.{property_name}"));
        let p = property_name.clone();
        Box::new(contexts.map(move |ctx| {
            let v = match ctx.active_vertex::<V>() {
                None => FieldValue::Null,
                Some(v) => {
                    if p.as_ref() == "__typename" {
                        FieldValue::String("B".into())
                    } else {
                        FieldValue::Int64(v.0 as i64)
                    }
                }
            };
            (ctx, v)
        }))
    }

    fn resolve_neighbors<X: AsVertex<Self::Vertex> + 'a>(
        &self,
        contexts: ContextIterator<'a, X>,
        type_name: &Arc<str>,
        edge_name: &Arc<str>,
        parameters: &EdgeParameters,
        _info: &ResolveEdgeInfo,
    ) -> ContextOutcomeIterator<'a, X, VertexIterator<'a, Self::Vertex>> {
        let ps: Vec<String> = parameters.iter().map(|(k, v)| format!("{k}: {v:?}")).collect();
        self.calls
            .borrow_mut()
            .push(format!("resolve_neighbors(type_name = {type_name:?}, edge = {edge_name:?}, {{{}}})", ps.join(", ")));
        Box::new(contexts.map(move |ctx| {
            let ns: Vec<u32> = match ctx.active_vertex::<V>() {
                None => vec![],
                Some(v) => nbrs(v.0),
            };
            let it: VertexIterator<'a, V> = Box::new(ns.into_iter().map(V));
            (ctx, it)
        }))
    }

    fn resolve_coercion<X: AsVertex<Self::Vertex> + 'a>(
        &self,
        contexts: ContextIterator<'a, X>,
        type_name: &Arc<str>,
        coerce_to_type: &Arc<str>,
        _info: &ResolveInfo,
    ) -> ContextOutcomeIterator<'a, X, bool> {
        self.calls.borrow_mut().push(format!("coerce {type_name} -> {coerce_to_type}"));
        Box::new(contexts.map(move |ctx| {
            let b = ctx.active_vertex::<V>().is_some();
            (ctx, b)
        }))
    }
}

#[test]
fn widened_param() {
    let schema = Schema::parse(SCHEMA).expect("schema accepted");
    let query = r#"{ b { e @recurse(depth: 2) { __typename @output(name: "t") } } }"#;
    let indexed = parse(&schema, query).expect("query accepted");
    println!("IR edges: {:#?}", indexed.ir_query.root_component.edges);
    let adapter = Arc::new(Rec::default());
    let args: Arc<BTreeMap<Arc<str>, FieldValue>> = Arc::new(BTreeMap::new());
    let rows: Vec<_> = interpret_ir(adapter.clone(), indexed, args).expect("args ok").collect();
    println!("rows: {rows:?}");
    for c in adapter.calls.borrow().iter() {
        println!("CALL {c}");
    }
}
