#!/bin/sh
# Build the Python extension from <repo>/pytrustfall's *current working tree* into a scratch
# directory outside /repo and /verif, and lay out an importable package copy:
#   <scratch>/target            cargo target dir (cargo's own fingerprints decide what is rebuilt,
#                               so a changed value.rs / trustfall_core source rebuilds, an unchanged
#                               tree costs < 1 s)
#   <scratch>/pkg/trustfall/    copy of <repo>/pytrustfall/trustfall + trustfall.so
# usage: build_ext.sh [repo] [scratch]
set -e
REPO=${1:-/repo}
SCRATCH=${2:-/tmp/verif-c27-ext}
mkdir -p "$SCRATCH"
(cd "$REPO" && CARGO_TARGET_DIR="$SCRATCH/target" CARGO_NET_OFFLINE=true cargo build --offline --quiet -p pytrustfall)
rm -rf "$SCRATCH/pkg"
mkdir -p "$SCRATCH/pkg"
cp -r "$REPO/pytrustfall/trustfall" "$SCRATCH/pkg/trustfall"
find "$SCRATCH/pkg" -name __pycache__ -type d -prune -exec rm -rf {} +
cp "$SCRATCH/target/debug/libtrustfall.so" "$SCRATCH/pkg/trustfall/trustfall.so"
echo "$SCRATCH/pkg"
