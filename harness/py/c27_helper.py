#!/usr/bin/env python3
"""
C27 helper: drives the real `trustfall` Python extension (built from /repo/pytrustfall's working
tree by build_ext.sh) for the Rust harness `harness/src/bin/pyvalue.rs`.

Line protocol on stdin/stdout, one JSON object per line.  Python objects and Rust values travel as
the s-expression texts of BUILDING.md / Driver/Pyvalue.lean:

  Py:    none | (pb 0|1) | (pi <int>) | (pf <key>) | pnan | pinf | pninf | (ps <hex>|-) | (pl …)
         | other | (other tuple|dict|bytes|set|object)
         | (sub <how> <py>)   an instance of a SUBCLASS of the built-in type of <py>, same value:
                              strsub `class Tag(str)`, strmixin member of `class E(str, Enum)`,
                              strenum member of an `enum.StrEnum`, intsub `class N(int)`, intenum
                              member of an `enum.IntEnum`, floatsub `class F(float)`, listsub
                              `class L(list)`; and `tuple` = the tuple with the elements of a (pl …)
  Value: n | (i <int>) | (u <nat>) | (f <key>) | (s <hex>|-) | (b 0|1) | (e <hex>) | (l …)

Operations:
  {"op":"from","py":P}        P is passed as a *query argument*; the exact Rust value it was
                              converted to is read from the Debug text in the engine's
                              ArgumentTypeError  ->  {"ok":V} | {"err":kind,"msg":…}
  {"op":"rt","py":P}          P is returned as a *property value* by a Python adapter and read
                              back as a query output (Py -> Rust -> Py through the real shim)
                              ->  {"ok":P'} | {"panic":kind,"msg":…}
  {"op":"to","query":Q}       Q has a literal edge parameter `x`; the Python adapter reports the
                              object it received (Rust -> Py)  ->  {"ok":P} | {"err":…}
  {"op":"query","schema":"numbers"|"kinds","query":Q,"args":{name:P},"items":[{field:V}],
   "limit":N,"wrap_subclasses":bool}                 execute_query over the Python mirror adapter
                              ->  {"rows":[row text]} | {"err":class,"kind":kind,"msg":…}
"""
import json
import os
import struct
import sys

sys.path.insert(0, os.environ["C27_PKG_DIR"])

import trustfall  # noqa: E402
from trustfall import Adapter, Schema, execute_query  # noqa: E402

MASK63 = 0x7FFF_FFFF_FFFF_FFFF


# ---------------------------------------------------------------------------------------------
# s-expressions
# ---------------------------------------------------------------------------------------------
def parse_sexp(text):
    stack, top, cur = [], [], []

    def flush():
        if cur:
            top.append("".join(cur))
            cur.clear()

    for c in text:
        if c == "(":
            flush()
            stack.append(top)
            top = []
        elif c == ")":
            flush()
            parent = stack.pop()
            parent.append(top)
            top = parent
        elif c in " \t\r\n":
            flush()
        else:
            cur.append(c)
    flush()
    assert not stack and len(top) == 1, text
    return top[0]


def hex_of(b):
    return b.hex() if b else "-"


def unhex(s):
    return b"" if s == "-" else bytes.fromhex(s)


def float_key(x):
    bits = struct.unpack("<Q", struct.pack("<d", x))[0]
    return -(bits & MASK63) if bits >> 63 else bits


def float_from_key(k):
    bits = ((-k) | (1 << 63)) if k < 0 else k
    return struct.unpack("<d", struct.pack("<Q", bits))[0]


import enum  # noqa: E402


class Tag(str):
    pass


class N(int):
    pass


class F(float):
    pass


class L(list):
    pass


def make_sub(how, base):
    """an instance of a subclass of type(base) carrying the same value"""
    if how == "strsub":
        assert type(base) is str
        return Tag(base)
    if how == "strmixin":
        assert type(base) is str
        return enum.Enum("StrMixin", {"MEMBER": base}, type=str).MEMBER
    if how == "strenum":
        assert type(base) is str
        if hasattr(enum, "StrEnum"):
            return enum.StrEnum("StrE", {"MEMBER": base}).MEMBER
        return Tag(base)
    if how == "intsub":
        assert type(base) is int
        return N(base)
    if how == "intenum":
        assert type(base) is int
        return enum.IntEnum("IntE", {"MEMBER": base}).MEMBER
    if how == "floatsub":
        assert type(base) is float
        return F(base)
    if how == "listsub":
        assert type(base) is list
        return L(base)
    if how == "tuple":
        assert type(base) is list
        return tuple(base)
    raise ValueError(f"bad subclass kind {how}")


def wrap_subclasses(o):
    """the same data with every str/int/float/list replaced by a subclass instance (bool, None kept)"""
    t = type(o)
    if t is str:
        return Tag(o)
    if t is int:
        return N(o)
    if t is float:
        return F(o)
    if t is list:
        return L([wrap_subclasses(x) for x in o])
    return o


class Unsupported:
    """an object with none of __index__/__float__ (model: `Py.other`)"""

    def __repr__(self):
        return "<Unsupported>"


def py_of_sexp(s):
    """protocol text -> Python object"""
    if s == "none":
        return None
    if s == "pnan":
        return float("nan")
    if s == "pinf":
        return float("inf")
    if s == "pninf":
        return float("-inf")
    if s == "other":
        return (1, 2)
    h = s[0]
    if h == "pb":
        return s[1] == "1"
    if h == "pi":
        return int(s[1])
    if h == "pf":
        return float_from_key(int(s[1]))
    if h == "ps":
        return unhex(s[1]).decode("utf-8")
    if h == "pl":
        return [py_of_sexp(x) for x in s[1:]]
    if h == "sub":
        return make_sub(s[1], py_of_sexp(s[2]))
    if h == "other":
        return {"tuple": (1, 2), "dict": {"a": 1}, "bytes": b"ab", "set": {1}, "object": Unsupported()}[s[1]]
    raise ValueError(f"bad py sexp {s}")


def sexp_of_py(o):
    """Python object -> protocol text (exact types: bool before int)"""
    if o is None:
        return "none"
    t = type(o)
    if t is bool:
        return "(pb 1)" if o else "(pb 0)"
    if t is int:
        return f"(pi {o})"
    if t is float:
        if o != o:
            return "pnan"
        if o in (float("inf"), float("-inf")):
            return "pinf" if o > 0 else "pninf"
        return f"(pf {float_key(o)})"
    if t is str:
        return f"(ps {hex_of(o.encode('utf-8'))})"
    if t is list:
        return "(pl" + "".join(" " + sexp_of_py(x) for x in o) + ")"
    return "other"


def py_of_value_sexp(s):
    """Value text -> the Python object a faithful conversion hands to Python (used for adapter data)"""
    if s == "n":
        return None
    h = s[0]
    if h in ("i", "u"):
        return int(s[1])
    if h == "f":
        return float_from_key(int(s[1]))
    if h == "s":
        return unhex(s[1]).decode("utf-8")
    if h == "b":
        return s[1] == "1"
    if h == "l":
        return [py_of_value_sexp(x) for x in s[1:]]
    raise ValueError(f"bad value sexp {s}")


# ---------------------------------------------------------------------------------------------
# Rust `{:?}` of trustfall_core::ir::FieldValue  ->  Value text
# ---------------------------------------------------------------------------------------------
class DebugParser:
    def __init__(self, text):
        self.t = text
        self.i = 0

    def eat(self, lit):
        assert self.t.startswith(lit, self.i), (self.t, self.i, lit)
        self.i += len(lit)

    def peek(self, lit):
        return self.t.startswith(lit, self.i)

    def until(self, ch):
        j = self.t.index(ch, self.i)
        out = self.t[self.i : j]
        self.i = j
        return out

    def string(self):
        self.eat('"')
        out = []
        while True:
            c = self.t[self.i]
            self.i += 1
            if c == '"':
                break
            if c != "\\":
                out.append(c)
                continue
            e = self.t[self.i]
            self.i += 1
            if e == "u":
                self.eat("{")
                hx = self.until("}")
                self.eat("}")
                out.append(chr(int(hx, 16)))
            else:
                out.append({"n": "\n", "r": "\r", "t": "\t", "0": "\0", "\\": "\\", '"': '"', "'": "'"}[e])
        return "".join(out)

    def value(self):
        if self.peek("Null"):
            self.eat("Null")
            return "n"
        for name, tag in (("Int64", "i"), ("Uint64", "u")):
            if self.peek(name + "("):
                self.eat(name + "(")
                n = self.until(")")
                self.eat(")")
                return f"({tag} {int(n)})"
        if self.peek("Float64("):
            self.eat("Float64(")
            x = float(self.until(")"))
            self.eat(")")
            return f"(f {float_key(x)})"
        if self.peek("Boolean("):
            self.eat("Boolean(")
            b = self.until(")")
            self.eat(")")
            return "(b 1)" if b == "true" else "(b 0)"
        for name, tag in (("String", "s"), ("Enum", "e")):
            if self.peek(name + "("):
                self.eat(name + "(")
                s = self.string()
                self.eat(")")
                return f"({tag} {hex_of(s.encode('utf-8'))})"
        if self.peek("List(["):
            self.eat("List([")
            items = []
            while not self.peek("]"):
                items.append(self.value())
                if self.peek(", "):
                    self.eat(", ")
            self.eat("])")
            return "(l" + "".join(" " + x for x in items) + ")"
        raise ValueError(f"cannot parse Debug text at {self.i}: {self.t[self.i:self.i+40]!r}")


def classify_value_error(msg):
    if "may not be NaN or infinity" in msg:
        return "nonfinite"
    if "different (non-null) types in the same list" in msg:
        return "mixed"
    if "is not supported by Trustfall" in msg:
        return "unsupported"
    return "other"


# ---------------------------------------------------------------------------------------------
# schemas
# ---------------------------------------------------------------------------------------------
DIRECTIVES = """
schema { query: RootSchemaQuery }
directive @filter(op: String!, value: [String!]) repeatable on FIELD | INLINE_FRAGMENT
directive @tag(name: String) repeatable on FIELD
directive @output(name: String) repeatable on FIELD
directive @optional on FIELD
directive @recurse(depth: Int!) on FIELD
directive @fold on FIELD
directive @transform(op: String!) repeatable on FIELD
"""

SCHEMAS = {}


def schema(name):
    if name not in SCHEMAS:
        path = os.environ["C27_SCHEMA_" + name.upper()]
        SCHEMAS[name] = Schema(open(path).read())
    return SCHEMAS[name]


# ---------------------------------------------------------------------------------------------
# Python mirror of trustfall_core::numbers_interpreter::NumbersAdapter (line by line, including the
# shared `primes` scratch set and the `("Number"|"Named", "Neither") => Composite` coercion arm)
# ---------------------------------------------------------------------------------------------
_NUMBER_NAMES = [
    "zero", "one", "two", "three", "four", "five", "six", "seven", "eight", "nine", "ten",
    "eleven", "twelve", "thirteen", "fourteen", "fifteen", "sixteen", "seventeen", "eighteen",
    "nineteen", "twenty",
]


def number_name(n):
    return _NUMBER_NAMES[n] if 0 <= n <= 20 else None


def generate_primes_up_to(primes, max_bound):
    if max_bound < 2:
        return
    primes.add(2)
    primes.add(3)
    current_max = max(primes)
    while current_max < max_bound:
        current_max += 2
        if all(current_max % p != 0 for p in sorted(primes)):
            primes.add(current_max)


def rust_rem(a, b):
    """Rust `%` truncates toward zero"""
    r = abs(a) % abs(b)
    return -r if a < 0 else r


def get_factors(primes, num):
    if num in (0, 1):
        return set()
    if num < 0:
        f = get_factors(primes, -num)
        f.add(-1)
        return f
    return {p for p in primes if rust_rem(num, p) == 0}


def make_number_vertex(primes, num):
    if num >= 2:
        generate_primes_up_to(primes, num)
    factors = get_factors(primes, num)
    if len(factors) == 0:
        return ("Neither", num, None)
    if len(factors) == 1 and num in factors:
        return ("Prime", num, None)
    return ("Composite", num, sorted(factors))


def as_i64(v):
    return v if (type(v) is int and -(2**63) <= v < 2**63) else None


class NumbersMirror(Adapter):
    SUBTYPED = {"Number", "Named"}

    def resolve_starting_vertices(self, edge_name, parameters, /, *a, **k):
        primes = {2, 3}
        if edge_name == "Zero":
            return iter([make_number_vertex(primes, 0)])
        if edge_name == "One":
            return iter([make_number_vertex(primes, 1)])
        if edge_name == "Two":
            return iter([make_number_vertex(primes, 2)])
        if edge_name == "Four":
            return iter([make_number_vertex(primes, 4)])
        if edge_name in ("Number", "NumberImplicitNullDefault"):
            mn = as_i64(parameters["min"])
            min_value = 0 if mn is None else mn
            max_value = as_i64(parameters["max"])
            assert max_value is not None
            if min_value > max_value:
                return iter([])
            return iter([make_number_vertex(primes, n) for n in range(min_value, max_value + 1)])
        raise NotImplementedError(edge_name)

    def resolve_property(self, contexts, type_name, property_name, /, *a, **k):
        for ctx in contexts:
            v = ctx.active_vertex
            if v is None:
                yield ctx, None
            elif property_name == "__typename":
                yield ctx, (v[0] if type_name in self.SUBTYPED else type_name)
            elif property_name == "value":
                yield ctx, v[1]
            elif property_name == "name":
                yield ctx, (v[1] if v[0] == "Letter" else number_name(v[1]))
            elif property_name == "vowelsInName":
                nm = number_name(v[1])
                yield ctx, (None if nm is None else [c for c in nm if c in "aeiou"])
            else:
                raise NotImplementedError(property_name)

    def resolve_neighbors(self, contexts, type_name, edge_name, parameters, /, *a, **k):
        primes = {2, 3}
        for ctx in contexts:
            v = ctx.active_vertex
            if v is None:
                yield ctx, []
                continue
            kind, value, factors = v
            if edge_name == "predecessor":
                yield ctx, ([make_number_vertex(primes, value - 1)] if value > 0 else [])
            elif edge_name == "successor":
                yield ctx, [make_number_vertex(primes, value + 1)]
            elif edge_name == "multiple":
                if kind == "Neither":
                    yield ctx, []
                else:
                    start = 2 if kind == "Prime" else 1
                    max_multiple = as_i64(parameters["max"])

                    def gen(value=value, start=start, max_multiple=max_multiple, local=set(primes)):
                        for mult in range(start, max_multiple + 1):
                            yield make_number_vertex(local, value * mult)

                    yield ctx, gen()
            elif edge_name == "primeFactor":
                assert kind == "Composite"
                yield ctx, [make_number_vertex(primes, n) for n in factors]
            elif edge_name == "divisor":
                assert kind == "Composite"
                if value <= 0:
                    yield ctx, []
                else:
                    yield ctx, [make_number_vertex(primes, d) for d in range(1, value) if value % d == 0]
            else:
                raise NotImplementedError(edge_name)

    def resolve_coercion(self, contexts, type_name, coerce_to_type, /, *a, **k):
        for ctx in contexts:
            v = ctx.active_vertex
            if v is None:
                yield ctx, False
            elif coerce_to_type == "Prime":
                yield ctx, v[0] == "Prime"
            elif coerce_to_type in ("Composite", "Neither"):
                yield ctx, v[0] == "Composite"
            elif coerce_to_type == "Letter":
                yield ctx, v[0] == "Letter"
            elif coerce_to_type == "Number":
                yield ctx, v[0] in ("Prime", "Composite", "Neither")
            else:
                raise NotImplementedError(coerce_to_type)


# ---------------------------------------------------------------------------------------------
# "kinds" adapter: a table of items with one property per value kind; mirrored by KindsAdapter in
# pyvalue.rs.  Also serves the probe edges used by op "to" and the echo used by op "rt".
# ---------------------------------------------------------------------------------------------
class KindsMirror(Adapter):
    def __init__(self, items):
        self.items = items
        self.seen_x = []

    def resolve_starting_vertices(self, edge_name, parameters, /, *a, **k):
        if edge_name == "Item":
            return list(range(len(self.items)))
        if edge_name.startswith("Probe"):
            self.seen_x.append(parameters["x"])
            return []
        raise NotImplementedError(edge_name)

    def resolve_property(self, contexts, type_name, property_name, /, *a, **k):
        for ctx in contexts:
            v = ctx.active_vertex
            if v is None:
                yield ctx, None
            elif property_name == "idx":
                yield ctx, v
            else:
                yield ctx, self.items[v].get(property_name)

    def resolve_neighbors(self, contexts, type_name, edge_name, parameters, /, *a, **k):
        for ctx in contexts:
            v = ctx.active_vertex
            if v is None:
                yield ctx, []
            elif edge_name == "next":
                yield ctx, ([v + 1] if v + 1 < len(self.items) else [])
            else:
                raise NotImplementedError(edge_name)

    def resolve_coercion(self, contexts, type_name, coerce_to_type, /, *a, **k):
        raise NotImplementedError()


Q_ARG_STRING = '{ Item { idx @output s @filter(op: "has_substring", value: ["$x"]) } }'
Q_ARG_INT = '{ Item { idx @output i @filter(op: "=", value: ["$x"]) } }'
Q_ECHO = "{ Item { val: any @output } }"


def exc_class(e):
    return type(e).__name__


def op_from(req):
    obj = py_of_sexp(parse_sexp(req["py"]))
    last = None
    for q in (Q_ARG_STRING, Q_ARG_INT):
        try:
            rows = list(execute_query(KindsMirror([]), schema("kinds"), q, {"x": obj}))
            last = ("ran", rows)
        except trustfall.QueryArgumentsError as e:
            msg = str(e)
            marker = "cannot be converted to that type: "
            assert marker in msg, msg
            return {"ok": DebugParser(msg.split(marker, 1)[1]).value()}
        except ValueError as e:
            return {"err": classify_value_error(str(e)), "msg": str(e)[:300]}
        except BaseException as e:  # noqa: BLE001
            return {"err": "other", "msg": f"{exc_class(e)}: {e}"[:300]}
    # accepted by both a String! and an Int variable: only null can do that … but String! refuses
    # null, so this is unreachable on the unchanged code
    return {"err": "other", "msg": f"value accepted by both probe queries: {last}"}


def op_rt(req):
    obj = py_of_sexp(parse_sexp(req["py"]))
    try:
        rows = list(execute_query(KindsMirror([{"any": obj}]), schema("kinds"), Q_ECHO, {}))
    except BaseException as e:  # noqa: BLE001  (pyo3 PanicException derives from BaseException)
        msg = str(e)
        return {"panic": classify_value_error(msg), "class": exc_class(e), "msg": msg[:300]}
    assert len(rows) == 1 and list(rows[0].keys()) == ["val"], rows
    return {"ok": sexp_of_py(rows[0]["val"])}


def op_to(req):
    ad = KindsMirror([])
    try:
        rows = list(execute_query(ad, schema("kinds"), req["query"], {}))
    except BaseException as e:  # noqa: BLE001
        return {"err": exc_class(e), "msg": str(e)[:300]}
    assert rows == [] and len(ad.seen_x) == 1, (rows, ad.seen_x)
    return {"ok": sexp_of_py(ad.seen_x[0])}


def render_row(row):
    return "(row" + "".join(f" ({k} {sexp_of_py(row[k])})" for k in sorted(row)) + ")"


def op_query(req):
    args = {k: py_of_sexp(parse_sexp(v)) for k, v in req.get("args", {}).items()}
    if req["schema"] == "numbers":
        ad = NumbersMirror()
    else:
        items = [{f: py_of_value_sexp(parse_sexp(v)) for f, v in it.items()} for it in req.get("items", [])]
        if req.get("wrap_subclasses"):
            # the adapter hands out subclass instances (str/int/float/list subclasses) as property values
            items = [{f: wrap_subclasses(v) for f, v in it.items()} for it in items]
        ad = KindsMirror(items)
    limit = req.get("limit", 5000)
    rows = []
    try:
        for row in execute_query(ad, schema(req["schema"]), req["query"], args):
            rows.append(render_row(row))
            if len(rows) >= limit:
                break
    except BaseException as e:  # noqa: BLE001
        msg = str(e)
        return {"err": exc_class(e), "kind": classify_value_error(msg), "msg": msg[:300], "rows_before": len(rows)}
    return {"rows": rows}


OPS = {"from": op_from, "rt": op_rt, "to": op_to, "query": op_query}


def main():
    # Rust panics inside the extension print to fd 2; keep our protocol on a private copy of fd 1
    out = os.fdopen(os.dup(1), "w")
    devnull = os.open(os.devnull, os.O_WRONLY)
    os.dup2(devnull, 1)
    if os.environ.get("C27_QUIET", "1") == "1":
        os.dup2(devnull, 2)
    out.write(json.dumps({"ready": True, "module": trustfall.__file__}) + "\n")
    out.flush()
    for line in sys.stdin:
        line = line.strip()
        if not line:
            continue
        try:
            req = json.loads(line)
            resp = OPS[req["op"]](req)
        except BaseException as e:  # noqa: BLE001
            resp = {"helper_error": f"{type(e).__name__}: {e}"[:500]}
        out.write(json.dumps(resp) + "\n")
        out.flush()


if __name__ == "__main__":
    main()
