#!/bin/sh
# ./runmut.sh <patch file> <harness bin> <PROP> [--tier quick] [--seed N]
# Harness-only variant of /verif/mutcheck (for properties whose cfg / Lean side does not exist yet):
# private worktree of /repo with the patch applied + private copy of the harness pointing at it;
# runs `<bin> run <PROP>` and prints the oracle-failure keys. Never touches /repo or /verif/harness/target.
set -e
PATCH=$(readlink -f "$1"); BIN="$2"; PROP="$3"; shift 3
W=/tmp/verif-runmut-$$
trap 'git -C /repo worktree remove --force "$W/repo" >/dev/null 2>&1 || true; rm -rf "$W"' EXIT
mkdir -p "$W"
git -C /repo worktree add --detach "$W/repo" HEAD >/dev/null 2>&1
git -C /repo diff > "$W/wt.diff" || true
if [ -s "$W/wt.diff" ]; then git -C "$W/repo" apply "$W/wt.diff" 2>/dev/null || true; fi
git -C "$W/repo" apply "$PATCH"
mkdir -p "$W/harness"
rsync -a --exclude target --exclude sensitivity /verif/harness/ "$W/harness/"
find "$W/harness" -name Cargo.toml -exec sed -i "s#/repo/#$W/repo/#g" {} +
grep -rl '"/repo/' "$W/harness/src" 2>/dev/null | xargs -r sed -i "s#\"/repo/#\"$W/repo/#g"
export CARGO_TARGET_DIR=/tmp/verif-mut-target
(cd "$W/harness" && cargo build --offline --quiet --bin "$BIN")
set +e
"$CARGO_TARGET_DIR/debug/$BIN" run "$PROP" --out "$W/out" "$@"
echo "runmut: harness exit $?"
python3 - "$W/out/$PROP" <<'PY'
import json,sys,collections
base=sys.argv[1]
st=json.load(open(base+'.stats.json'))
print('evaluations',st['evaluations'],'oracle_failures',st['oracle_failures'],'panics',st['panics'])
c=collections.Counter(json.loads(l)['key'] for l in open(base+'.oracle'))
for k,v in c.most_common(): print(' ',v,k)
PY
