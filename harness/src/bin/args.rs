//! Group `args`: C12 — argument validation (`InterpretedQuery::from_query_and_arguments`).
//!
//! Requests are self-contained: `(validate-args (vars (<hex name> <ty>)…) (args (<hex name> <value>)…))`
//! builds a synthetic `IRQuery` with exactly these variables (one root vertex whose filters use
//! them), runs `IndexedQuery::try_from` and `from_query_and_arguments`; with a trailing
//! `(file <hex>)` the implementation side instead compiles that repo query with the real frontend
//! and checks that its variables are the listed ones.  Types travel as `(T <hex base> n0 … nk)`.
use std::cell::RefCell;
use std::collections::{BTreeMap, BTreeSet};
use std::num::NonZeroUsize;
use std::sync::Arc;

use trustfall_core::interpreter::InterpretedQuery;
use trustfall_core::interpreter::error::QueryArgumentsError;
use trustfall_core::ir::{
    Argument, EdgeParameters, FieldValue, IRQuery, IRQueryComponent, IRVertex, IndexedQuery, LocalField, Operation,
    Type, VariableRef, Vid,
};
use trustfall_core::schema::Schema;
use trustfall_core::test_types::TestGraphQLQuery;

use tfharness::framework::*;
use tfharness::rng::Rng;
use tfharness::sexp::{Sexp, hex, unhex};
use tfharness::values::*;

const QUERY_DIR: &str = "/repo/trustfall_core/test_data/tests/valid_queries";
const SCHEMA_DIR: &str = "/repo/trustfall_core/test_data/schemas";

// ------------------------------------------------------------------------------------------------
// types on the wire
// ------------------------------------------------------------------------------------------------

#[derive(Clone, Debug, PartialEq, Eq, PartialOrd, Ord)]
struct TyDesc {
    base: String,
    /// nullability flags, outermost level first, last = the base's own
    flags: Vec<bool>,
}

impl TyDesc {
    fn depth(&self) -> usize {
        self.flags.len() - 1
    }
    fn to_sexp(&self) -> Sexp {
        let mut v = vec![Sexp::atom("T"), Sexp::atom(hex(self.base.as_bytes()))];
        v.extend(self.flags.iter().map(|n| Sexp::atom(if *n { "1" } else { "0" })));
        Sexp::List(v)
    }
    fn from_sexp(s: &Sexp) -> Option<TyDesc> {
        let (h, args) = s.as_call()?;
        if h != "T" || args.len() < 2 {
            return None;
        }
        let base = String::from_utf8(unhex(args[0].as_atom()?)?).ok()?;
        let mut flags = vec![];
        for a in &args[1..] {
            flags.push(match a.as_atom()? {
                "1" => true,
                "0" => false,
                _ => return None,
            });
        }
        Some(TyDesc { base, flags })
    }
    fn build(&self) -> Type {
        let mut t = Type::new_named_type(&self.base, *self.flags.last().unwrap());
        for n in self.flags[..self.flags.len() - 1].iter().rev() {
            t = Type::new_list_type(t, *n);
        }
        t
    }
    fn of(t: &Type) -> TyDesc {
        let mut flags = vec![t.nullable()];
        let mut cur = t.clone();
        while let Some(inner) = cur.as_list() {
            flags.push(inner.nullable());
            cur = inner;
        }
        TyDesc { base: t.base_type().to_string(), flags }
    }
    /// GraphQL text computed by the harness, independently of the implementation's `Display`.
    fn text(&self) -> String {
        fn go(base: &str, flags: &[bool]) -> String {
            let bang = if flags[0] { "" } else { "!" };
            if flags.len() == 1 { format!("{base}{bang}") } else { format!("[{}]{bang}", go(base, &flags[1..])) }
        }
        go(&self.base, &self.flags)
    }
}

fn name_atom(s: &str) -> Sexp {
    Sexp::atom(hex(s.as_bytes()))
}

fn atom_name(s: &Sexp) -> Option<String> {
    String::from_utf8(unhex(s.as_atom()?)?).ok()
}

// ------------------------------------------------------------------------------------------------
// the harness's own notion of validity (independent of the model and of the implementation)
// ------------------------------------------------------------------------------------------------

/// Is `v` a well-typed value for the type `flags[level..]` over `base`?  Enum values are
/// well-typed for nothing.
fn conforms(base: &str, flags: &[bool], v: &FieldValue) -> bool {
    let is_list_type = flags.len() > 1;
    match v {
        FieldValue::Null => flags[0],
        FieldValue::Int64(_) | FieldValue::Uint64(_) => !is_list_type && base == "Int",
        FieldValue::Float64(_) => !is_list_type && base == "Float",
        FieldValue::String(_) => !is_list_type && base == "String",
        FieldValue::Boolean(_) => !is_list_type && base == "Boolean",
        FieldValue::List(items) => is_list_type && items.iter().all(|x| conforms(base, &flags[1..], x)),
        _ => false,
    }
}

/// Would a left-to-right check that stops at the first ill-typed element look at an enum leaf?
/// (Exactly the inputs on which `is_valid_value` hit `unimplemented!` before the repair of F-14; used
/// to name the failure should that panic ever come back.)
fn reaches_enum(base: &str, flags: &[bool], v: &FieldValue) -> bool {
    match v {
        FieldValue::Enum(_) => true,
        FieldValue::List(items) if flags.len() > 1 => {
            for x in items.iter() {
                if reaches_enum(base, &flags[1..], x) {
                    return true;
                }
                if !conforms(base, &flags[1..], x) {
                    return false;
                }
            }
            false
        }
        _ => false,
    }
}

fn has_enum(v: &FieldValue) -> bool {
    match v {
        FieldValue::Enum(_) => true,
        FieldValue::List(items) => items.iter().any(has_enum),
        _ => false,
    }
}

// ------------------------------------------------------------------------------------------------
// queries
// ------------------------------------------------------------------------------------------------

/// A compiled query with exactly these variables: one root vertex whose filters use each variable
/// at its own type.
fn synthetic_query(vars: &[(String, TyDesc)]) -> Result<Arc<IndexedQuery>, String> {
    let vid = Vid::new(NonZeroUsize::new(1).unwrap());
    let mut variables: BTreeMap<Arc<str>, Type> = BTreeMap::new();
    let mut filters = vec![];
    for (i, (name, t)) in vars.iter().enumerate() {
        let ty = t.build();
        variables.insert(Arc::from(name.as_str()), ty.clone());
        let left = LocalField { field_name: Arc::from(format!("f{i}")), field_type: ty.clone() };
        let right = Argument::Variable(VariableRef { variable_name: Arc::from(name.as_str()), variable_type: ty });
        filters.push(if i % 2 == 0 { Operation::Equals(left, right) } else { Operation::NotEquals(left, right) });
    }
    if variables.len() != vars.len() {
        return Err("duplicate-variable-names".into());
    }
    let vertex = IRVertex { vid, type_name: Arc::from("Number"), coerced_from_type: None, filters };
    let component = IRQueryComponent {
        root: vid,
        vertices: [(vid, vertex)].into_iter().collect(),
        edges: Default::default(),
        folds: Default::default(),
        outputs: Default::default(),
    };
    let ir = IRQuery {
        root_name: Arc::from("Number"),
        root_parameters: EdgeParameters::default(),
        root_component: Arc::new(component),
        variables,
    };
    IndexedQuery::try_from(ir).map(Arc::new).map_err(|e| format!("{e:?}"))
}

struct RepoQuery {
    file: String,
    query: Arc<IndexedQuery>,
    arguments: BTreeMap<String, FieldValue>,
}

thread_local! {
    static SCHEMAS: RefCell<BTreeMap<String, Option<Arc<Schema>>>> = const { RefCell::new(BTreeMap::new()) };
    static COMPILED: RefCell<BTreeMap<String, Option<Arc<RepoQuery>>>> = const { RefCell::new(BTreeMap::new()) };
}

fn schema(name: &str) -> Option<Arc<Schema>> {
    SCHEMAS.with(|m| {
        m.borrow_mut()
            .entry(name.to_string())
            .or_insert_with(|| {
                let text = std::fs::read_to_string(format!("{SCHEMA_DIR}/{name}.graphql")).ok()?;
                Schema::parse(text).ok().map(Arc::new)
            })
            .clone()
    })
}

/// Compile `<file>` (a `*.graphql.ron` test input) with the real frontend.
fn repo_query(file: &str) -> Option<Arc<RepoQuery>> {
    COMPILED.with(|m| {
        m.borrow_mut()
            .entry(file.to_string())
            .or_insert_with(|| {
                let text = std::fs::read_to_string(format!("{QUERY_DIR}/{file}")).ok()?;
                let input: TestGraphQLQuery = ron::from_str(&text).ok()?;
                let schema = schema(&input.schema_name)?;
                let query = trustfall_core::frontend::parse(&schema, &input.query).ok()?;
                Some(Arc::new(RepoQuery { file: file.to_string(), query, arguments: input.arguments }))
            })
            .clone()
    })
}

fn repo_files() -> Vec<String> {
    let mut files: Vec<String> = std::fs::read_dir(QUERY_DIR)
        .map(|d| d.filter_map(|e| e.ok()).map(|e| e.file_name().to_string_lossy().to_string()).filter(|n| n.ends_with(".graphql.ron")).collect())
        .unwrap_or_default();
    files.sort();
    files
}

/// The `variable_type`s recorded at the uses of each variable, in the order
/// `fill_in_query_variables` visits them.
fn variable_uses(component: &IRQueryComponent, out: &mut BTreeMap<String, Vec<Type>>) {
    fn right<L: std::fmt::Debug + Clone + PartialEq + Eq>(op: &Operation<L, Argument>) -> Option<&Argument> {
        use Operation::*;
        match op {
            IsNull(_) | IsNotNull(_) => None,
            Equals(_, r) | NotEquals(_, r) | LessThan(_, r) | LessThanOrEqual(_, r) | GreaterThan(_, r)
            | GreaterThanOrEqual(_, r) | Contains(_, r) | NotContains(_, r) | OneOf(_, r) | NotOneOf(_, r)
            | HasPrefix(_, r) | NotHasPrefix(_, r) | HasSuffix(_, r) | NotHasSuffix(_, r) | HasSubstring(_, r)
            | NotHasSubstring(_, r) | RegexMatches(_, r) | NotRegexMatches(_, r) => Some(r),
            _ => None,
        }
    }
    let mut push = |a: Option<&Argument>| {
        if let Some(Argument::Variable(v)) = a {
            out.entry(v.variable_name.to_string()).or_default().push(v.variable_type.clone());
        }
    };
    for vertex in component.vertices.values() {
        for f in &vertex.filters {
            push(right(f));
        }
    }
    for fold in component.folds.values() {
        for f in &fold.post_filters {
            push(right(f));
        }
    }
    for fold in component.folds.values() {
        variable_uses(&fold.component, out);
    }
}

// ------------------------------------------------------------------------------------------------
// rendering the implementation's answer
// ------------------------------------------------------------------------------------------------

fn render_one(e: &QueryArgumentsError) -> String {
    match e {
        QueryArgumentsError::MissingArguments(names) => {
            Sexp::call("MissingArguments", names.iter().map(|n| name_atom(n)).collect()).to_string()
        }
        QueryArgumentsError::UnusedArguments(names) => {
            Sexp::call("UnusedArguments", names.iter().map(|n| name_atom(n)).collect()).to_string()
        }
        QueryArgumentsError::ArgumentTypeError(name, ty_text, _value) => {
            Sexp::call("ArgumentTypeError", vec![name_atom(name), name_atom(ty_text)]).to_string()
        }
        QueryArgumentsError::MultipleErrors(v) => {
            format!("(errs {})", v.0.iter().map(render_one).collect::<Vec<_>>().join(" "))
        }
    }
}

fn render_result(r: &Result<InterpretedQuery, QueryArgumentsError>) -> String {
    match r {
        Ok(_) => "ok".to_string(),
        Err(QueryArgumentsError::MultipleErrors(v)) => {
            format!("(errs {})", v.0.iter().map(render_one).collect::<Vec<_>>().join(" "))
        }
        Err(e) => format!("(err {})", render_one(e)),
    }
}

// ------------------------------------------------------------------------------------------------
// request parsing
// ------------------------------------------------------------------------------------------------

struct Request {
    vars: Vec<(String, TyDesc)>,
    args: Vec<(String, FieldValue)>,
    file: Option<String>,
}

fn parse_request(args: &[Sexp]) -> Option<Request> {
    let (vs, as_, file) = match args {
        [v, a] => (v, a, None),
        [v, a, f] => {
            let (h, x) = f.as_call()?;
            if h != "file" || x.len() != 1 {
                return None;
            }
            (v, a, Some(atom_name(&x[0])?))
        }
        _ => return None,
    };
    let (h, vlist) = vs.as_call()?;
    if h != "vars" {
        return None;
    }
    let (h, alist) = as_.as_call()?;
    if h != "args" {
        return None;
    }
    let mut vars = vec![];
    for v in vlist {
        let l = v.as_list()?;
        if l.len() != 2 {
            return None;
        }
        vars.push((atom_name(&l[0])?, TyDesc::from_sexp(&l[1])?));
    }
    let mut arguments = vec![];
    for a in alist {
        let l = a.as_list()?;
        if l.len() != 2 {
            return None;
        }
        arguments.push((atom_name(&l[0])?, sexp_to_value(&l[1])?));
    }
    Some(Request { vars, args: arguments, file })
}

fn make_request(vars: &[(String, TyDesc)], args: &BTreeMap<String, FieldValue>, file: Option<&str>) -> Sexp {
    let mut sorted: Vec<&(String, TyDesc)> = vars.iter().collect();
    sorted.sort_by(|a, b| a.0.as_bytes().cmp(b.0.as_bytes()));
    let vs = Sexp::call("vars", sorted.iter().map(|(n, t)| Sexp::List(vec![name_atom(n), t.to_sexp()])).collect());
    // BTreeMap<String, _> iterates in byte order, as BTreeMap<Arc<str>, _> does
    let as_ = Sexp::call("args", args.iter().map(|(n, v)| Sexp::List(vec![name_atom(n), value_to_sexp(v)])).collect());
    let mut all = vec![vs, as_];
    if let Some(f) = file {
        all.push(Sexp::call("file", vec![name_atom(f)]));
    }
    Sexp::call("validate-args", all)
}

// ------------------------------------------------------------------------------------------------
// generators
// ------------------------------------------------------------------------------------------------

const BASES: [&str; 5] = ["Int", "String", "Float", "Boolean", "Vertex"];

fn all_shapes(max_depth: usize) -> Vec<Vec<bool>> {
    let mut out = vec![];
    for d in 0..=max_depth {
        for bits in 0..(1u32 << (d + 1)) {
            out.push((0..=d).map(|i| bits >> i & 1 == 1).collect());
        }
    }
    out
}

fn l(v: Vec<FieldValue>) -> FieldValue {
    FieldValue::List(v.into())
}

/// A value that conforms to `t` (nulls only where allowed).
fn conforming(rng: &mut Rng, t: &TyDesc, level: usize) -> FieldValue {
    if t.flags[level] && rng.chance(1, 5) {
        return FieldValue::Null;
    }
    if level + 1 < t.flags.len() {
        let n = if level >= 3 { 1 } else { rng.below(4) };
        l((0..n).map(|_| conforming(rng, t, level + 1)).collect())
    } else {
        match t.base.as_str() {
            "Int" => random_int(rng),
            "Float" => rng.pick(&boundary_floats()).clone(),
            "String" => rng.pick(&boundary_strings()).clone(),
            "Boolean" => FieldValue::Boolean(rng.chance(1, 2)),
            // no value but null conforms to a non-scalar base
            _ => if t.flags[level] { FieldValue::Null } else { FieldValue::Int64(0) },
        }
    }
}

fn scalar_of_other_kind(rng: &mut Rng, base: &str) -> FieldValue {
    loop {
        let v = match rng.below(6) {
            0 => FieldValue::Int64(rng.below(5) as i64 - 2),
            1 => FieldValue::Uint64(u64::MAX - rng.below(2) as u64),
            2 => rng.pick(&boundary_floats()).clone(),
            3 => rng.pick(&boundary_strings()).clone(),
            4 => FieldValue::Boolean(rng.chance(1, 2)),
            _ => FieldValue::Float64(1.0),
        };
        let kind = match v {
            FieldValue::Int64(_) | FieldValue::Uint64(_) => "Int",
            FieldValue::Float64(_) => "Float",
            FieldValue::String(_) => "String",
            _ => "Boolean",
        };
        if kind != base {
            return v;
        }
    }
}

/// Replace the sub-value at a random position reachable by walking `steps` list levels.
fn replace_at(rng: &mut Rng, v: &FieldValue, steps: usize, with: &FieldValue) -> FieldValue {
    if steps > 0 {
        if let FieldValue::List(items) = v {
            if !items.is_empty() {
                let i = rng.below(items.len());
                let mut items: Vec<FieldValue> = items.iter().cloned().collect();
                items[i] = replace_at(rng, &items[i], steps - 1, with);
                return l(items);
            }
        }
    }
    with.clone()
}

/// Argument-map variants for one variable set; each is (stream tag, map).
fn arg_maps(rng: &mut Rng, vars: &[(String, TyDesc)], tier: Tier) -> Vec<(String, BTreeMap<String, FieldValue>)> {
    let mut out: Vec<(String, BTreeMap<String, FieldValue>)> = vec![];
    let valid = |rng: &mut Rng| -> BTreeMap<String, FieldValue> {
        vars.iter().map(|(n, t)| (n.clone(), conforming(rng, t, 0))).collect()
    };
    let extra_names = ["zz_extra", "", "A", "é"];
    let fresh_name = |rng: &mut Rng| -> String {
        loop {
            let n = rng.pick(&extra_names).to_string();
            if !vars.iter().any(|(v, _)| *v == n) {
                return n;
            }
        }
    };
    out.push(("valid".into(), valid(rng)));
    out.push(("valid".into(), valid(rng)));
    out.push(("empty-map".into(), BTreeMap::new()));
    if !vars.is_empty() {
        // missing one / missing all but one
        let mut m = valid(rng);
        let drop = &vars[rng.below(vars.len())].0;
        m.remove(drop);
        out.push(("missing-one".into(), m));
        // extra one
        let mut m = valid(rng);
        m.insert(fresh_name(rng), random_value(rng, 2));
        out.push(("extra-one".into(), m));
        // only extras
        let mut m = BTreeMap::new();
        m.insert(fresh_name(rng), FieldValue::Int64(1));
        out.push(("extra-only".into(), m));
        let reps = if tier == Tier::Quick { 1 } else { 3 };
        for _ in 0..reps {
            let (name, t) = &vars[rng.below(vars.len())];
            let good = conforming(rng, t, 0);
            let steps = rng.below(t.depth() + 1);
            // wrong kind at some level
            let mut m = valid(rng);
            let other = scalar_of_other_kind(rng, &t.base);
            m.insert(name.clone(), replace_at(rng, &good, steps, &other));
            out.push(("wrong-kind".into(), m));
            // wrong nesting: one level too many / too few
            let mut m = valid(rng);
            m.insert(name.clone(), l(vec![good.clone()]));
            out.push(("wrong-nesting-deeper".into(), m));
            let mut m = valid(rng);
            let shallower = match &good {
                FieldValue::List(items) if !items.is_empty() => items[0].clone(),
                _ => l(vec![]),
            };
            m.insert(name.clone(), shallower);
            out.push(("wrong-nesting-shallower".into(), m));
            // null at some level (valid iff that level is nullable)
            let mut m = valid(rng);
            m.insert(name.clone(), replace_at(rng, &good, steps, &FieldValue::Null));
            out.push(("null-somewhere".into(), m));
            // integer representations and floats for Int / ints for Float
            let mut m = valid(rng);
            let num = match rng.below(4) {
                0 => FieldValue::Uint64(u64::MAX),
                1 => FieldValue::Int64(i64::MIN),
                2 => FieldValue::Float64(1.0),
                _ => FieldValue::Uint64(1 << 63),
            };
            m.insert(name.clone(), replace_at(rng, &good, t.depth(), &num));
            out.push(("numeric-representation".into(), m));
            // enum somewhere
            let mut m = valid(rng);
            m.insert(name.clone(), replace_at(rng, &good, steps, &FieldValue::Enum(Arc::from("a"))));
            out.push(("enum-value".into(), m));
            // enum only under a name that is not a variable
            let mut m = valid(rng);
            m.insert(fresh_name(rng), l(vec![FieldValue::Enum(Arc::from("a"))]));
            out.push(("enum-in-unused".into(), m));
            // all three kinds of error at once (needs ≥ 2 variables for type error + missing)
            if vars.len() >= 2 {
                let mut m = valid(rng);
                let i = rng.below(vars.len());
                let j = (i + 1 + rng.below(vars.len() - 1)) % vars.len();
                m.remove(&vars[i].0);
                let other = scalar_of_other_kind(rng, &vars[j].1.base);
                m.insert(vars[j].0.clone(), l(vec![l(vec![l(vec![l(vec![other])])])]));
                m.insert(fresh_name(rng), FieldValue::Null);
                out.push(("all-three".into(), m));
            }
            // arbitrary values
            let mut m = BTreeMap::new();
            for (n, _) in vars {
                if rng.chance(5, 6) {
                    m.insert(n.clone(), random_value(rng, 3));
                }
            }
            out.push(("random".into(), m));
        }
    }
    out
}

fn directed_cases() -> Vec<(Vec<(String, TyDesc)>, BTreeMap<String, FieldValue>, &'static str)> {
    let t = |base: &str, flags: &[bool]| TyDesc { base: base.into(), flags: flags.to_vec() };
    let e = || FieldValue::Enum(Arc::from("a"));
    let m = |kv: Vec<(&str, FieldValue)>| kv.into_iter().map(|(k, v)| (k.to_string(), v)).collect::<BTreeMap<_, _>>();
    let v1 = |n: &str, ty: TyDesc| vec![(n.to_string(), ty)];
    vec![
        // regression streams of F-14 (repaired): enum values where the traversal reaches them
        // (`enum-value`: panicked, now an ArgumentTypeError) and where it does not
        (v1("x", t("Int", &[true])), m(vec![("x", e())]), "enum-value"),
        (v1("x", t("Int", &[true, false])), m(vec![("x", l(vec![FieldValue::Null, e()]))]), "enum-not-reached"),
        (v1("x", t("Int", &[true, true])), m(vec![("x", l(vec![FieldValue::Null, e()]))]), "enum-value"),
        (v1("x", t("Int", &[true])), m(vec![("x", l(vec![e()]))]), "enum-not-reached"),
        (v1("x", t("Int", &[true])), m(vec![("x", FieldValue::Int64(1)), ("y", e())]), "enum-in-unused"),
        (v1("x", t("Int", &[true, true])), m(vec![("x", l(vec![FieldValue::from("s"), e()]))]), "enum-not-reached"),
        (
            vec![("a".into(), t("Int", &[false])), ("b".into(), t("Int", &[true]))],
            m(vec![("a", FieldValue::Null), ("b", e())]),
            "enum-value",
        ),
        // empty everything
        (vec![], BTreeMap::new(), "empty-map"),
        (vec![], m(vec![("x", FieldValue::Null)]), "extra-only"),
        // ordering of names: byte order, not insertion order
        (
            vec![("b".into(), t("Int", &[false])), ("a".into(), t("Int", &[false])), ("B".into(), t("Int", &[false]))],
            BTreeMap::new(),
            "missing-all",
        ),
        (
            vec![("b".into(), t("Int", &[false])), ("a".into(), t("String", &[false])), ("é".into(), t("Float", &[false]))],
            m(vec![("b", FieldValue::Null), ("a", FieldValue::Int64(1)), ("é", FieldValue::Int64(1)), ("z", FieldValue::Null), ("Z", FieldValue::Null)]),
            "all-three",
        ),
        // mixed integer representations in a list; float for Int
        (v1("x", t("Int", &[false, false])), m(vec![("x", l(vec![FieldValue::Int64(-1), FieldValue::Uint64(u64::MAX)]))]), "valid"),
        (v1("x", t("Int", &[false])), m(vec![("x", FieldValue::Float64(1.0))]), "numeric-representation"),
        (v1("x", t("Float", &[false])), m(vec![("x", FieldValue::Int64(1))]), "numeric-representation"),
        // a non-scalar base accepts only null
        (v1("x", t("Vertex", &[true])), m(vec![("x", FieldValue::Null)]), "valid"),
        (v1("x", t("Vertex", &[true])), m(vec![("x", FieldValue::from("v"))]), "wrong-kind"),
    ]
}

// ------------------------------------------------------------------------------------------------
// the property
// ------------------------------------------------------------------------------------------------

pub struct C12;

fn run_request(req: &Request) -> Result<String, String> {
    let query = match &req.file {
        Some(f) => {
            let Some(rq) = repo_query(f) else { return Err("cannot-compile-repo-query".into()) };
            let listed: Vec<(String, TyDesc)> = req.vars.clone();
            let actual: Vec<(String, TyDesc)> =
                rq.query.ir_query.variables.iter().map(|(n, t)| (n.to_string(), TyDesc::of(t))).collect();
            if listed != actual {
                return Err("vars-mismatch".into());
            }
            rq.query.clone()
        }
        None => synthetic_query(&req.vars)?,
    };
    let arguments: BTreeMap<Arc<str>, FieldValue> = req.args.iter().map(|(n, v)| (Arc::from(n.as_str()), v.clone())).collect();
    if arguments.len() != req.args.len() {
        return Err("duplicate-argument-names".into());
    }
    Ok(render_result(&InterpretedQuery::from_query_and_arguments(query, Arc::new(arguments))))
}

impl Prop for C12 {
    fn id(&self) -> &'static str {
        "C12"
    }
    fn rule(&self) -> &'static str {
        "Queries: (1) every /repo/trustfall_core/test_data/tests/valid_queries/*.graphql.ron compiled afresh with the real frontend against its schema (numbers, filesystem, nullables, …); those with variables are paired with their own recorded arguments and with generated argument maps; (2) synthetic compiled queries built directly as IRQuery values (one root vertex whose filters use each variable at its type; accepted by IndexedQuery::try_from) with 1..4 variables whose types range over every nullability combination of Int, String, Float, Boolean, Vertex for 0..3 list levels (0..4 thorough) and sparse 28-30 levels, with names incl. empty, non-ASCII and upper/lower-case order traps. Argument-map streams per query: valid, empty map, missing one, extra one, extras only, wrong scalar kind at some nesting level, one list level too many / too few, null at some level, Int64/Uint64 boundaries and floats for Int / ints for Float, enum at some position, enum only under an unused name, all three error kinds at once, and seeded random values to nesting 3. A case is non-trivial (nt:…) when its stream is anything but `valid`/`empty-map` on a query without variables, i.e. when at least one of the three refusal causes or a supplied value's typing decides. Additionally (infer-type (uses t…)): the use types of every variable of every compiled repo query and synthetic same-base/mismatching combinations, answered by the running Type::intersect loop of fill_in_query_variables. ORACLE (independent of the Lean model; its own recursive well-typedness check): accepted ⇔ every variable has a value ∧ no supplied name is unused ∧ every value is well-typed; on refusal the error lists exactly the ill-typed variables (in variable order, with the type's text), then MissingArguments with exactly the missing names, then UnusedArguments with exactly the unused names, a single error as itself and several as MultipleErrors; a panic is a failure (keyed `enum-argument-panics` when an enum value of a variable is reached: the repaired F-14 — an enum value is an ordinary ArgumentTypeError). For repo queries the variables map recorded by the frontend must equal the running intersection of the recorded use types, and the inferred type must accept a value iff every use type does."
    }

    fn generate(&self, tier: Tier, rng: &mut Rng) -> Vec<Case> {
        let mut out = vec![];
        let push = |out: &mut Vec<Case>, vars: &[(String, TyDesc)], m: &BTreeMap<String, FieldValue>, stream: &str, src: &str, file: Option<&str>| {
            let trivial = matches!(stream, "valid" | "empty-map") && vars.is_empty();
            let nv = format!("vars{}", vars.len().min(5));
            let mut tags = vec![src.to_string(), format!("stream:{stream}"), nv];
            if !trivial {
                tags.push(format!("nt:{stream}"));
            }
            let tags: Vec<&str> = tags.iter().map(|s| s.as_str()).collect();
            out.push(Case::new(make_request(vars, m, file), &tags));
        };
        // ---- directed
        for (vars, m, stream) in directed_cases() {
            push(&mut out, &vars, &m, stream, "directed", None);
        }
        // ---- repo queries, compiled afresh
        for f in repo_files() {
            let Some(rq) = repo_query(&f) else { continue };
            let vars: Vec<(String, TyDesc)> =
                rq.query.ir_query.variables.iter().map(|(n, t)| (n.to_string(), TyDesc::of(t))).collect();
            push(&mut out, &vars, &rq.arguments, "valid", "repo", Some(&rq.file));
            if vars.is_empty() {
                let mut m = BTreeMap::new();
                m.insert("unused".to_string(), FieldValue::Int64(1));
                push(&mut out, &vars, &m, "extra-only", "repo", Some(&rq.file));
                continue;
            }
            for (stream, m) in arg_maps(rng, &vars, tier) {
                push(&mut out, &vars, &m, &stream, "repo", Some(&rq.file));
            }
            // inferred types
            let mut uses = BTreeMap::new();
            variable_uses(&rq.query.ir_query.root_component, &mut uses);
            for (name, tys) in uses {
                let req = Sexp::call(
                    "infer-type",
                    vec![
                        Sexp::call("uses", tys.iter().map(|t| TyDesc::of(t).to_sexp()).collect()),
                        Sexp::call("from", vec![name_atom(&rq.file), name_atom(&name)]),
                    ],
                );
                let mut tags = vec!["repo", "infer"];
                if tys.len() > 1 {
                    tags.push("nt:several-uses");
                }
                out.push(Case::new(req, &tags));
            }
        }
        // ---- synthetic queries
        let max_depth = if tier == Tier::Quick { 3 } else { 4 };
        let mut types: Vec<TyDesc> = vec![];
        for b in BASES {
            for flags in all_shapes(max_depth) {
                types.push(TyDesc { base: b.to_string(), flags });
            }
        }
        for d in [28usize, 29, 30] {
            types.push(TyDesc { base: "Int".into(), flags: (0..=d).map(|_| rng.chance(1, 2)).collect() });
            types.push(TyDesc { base: "String".into(), flags: vec![false; d + 1] });
        }
        // every type as a single variable
        for t in &types {
            let vars = vec![("x".to_string(), t.clone())];
            for (stream, m) in arg_maps(rng, &vars, tier) {
                push(&mut out, &vars, &m, &stream, "synthetic", None);
            }
        }
        // several variables with awkward names
        let names = ["a", "B", "b", "_1", "é", "", "zz", "x y", "A"];
        let n_multi = if tier == Tier::Quick { 150 } else { 1200 };
        for _ in 0..n_multi {
            let k = 2 + rng.below(3);
            let mut vars: Vec<(String, TyDesc)> = vec![];
            while vars.len() < k {
                let n = rng.pick(&names).to_string();
                if n != "zz_extra" && !vars.iter().any(|(v, _)| *v == n) {
                    vars.push((n, types[rng.below(types.len())].clone()));
                }
            }
            for (stream, m) in arg_maps(rng, &vars, tier) {
                push(&mut out, &vars, &m, &stream, "synthetic", None);
            }
        }
        // ---- synthetic inferred types
        let n_infer = if tier == Tier::Quick { 300 } else { 3000 };
        for _ in 0..n_infer {
            let first = &types[rng.below(types.len())];
            let k = 1 + rng.below(4);
            let mut uses = vec![first.clone()];
            for _ in 1..k {
                let mut u = first.clone();
                match rng.below(8) {
                    0 => u = types[rng.below(types.len())].clone(), // usually incompatible
                    1 => u.flags.push(rng.chance(1, 2)),            // one level deeper
                    _ => {
                        for f in u.flags.iter_mut() {
                            if rng.chance(1, 3) {
                                *f = !*f;
                            }
                        }
                    }
                }
                if u.depth() <= 30 {
                    uses.push(u);
                }
            }
            let compatible = uses.iter().all(|u| u.base == first.base && u.depth() == first.depth());
            let mut tags = vec!["synthetic", "infer"];
            if uses.len() > 1 {
                tags.push(if compatible { "nt:several-uses" } else { "nt:incompatible-uses" });
            }
            out.push(Case::new(Sexp::call("infer-type", vec![Sexp::call("uses", uses.iter().map(|t| t.to_sexp()).collect())]), &tags));
        }
        out
    }

    fn eval(&self, request: &Sexp) -> Option<String> {
        let (h, args) = request.as_call()?;
        match h {
            "validate-args" => {
                let req = parse_request(args)?;
                Some(match run_request(&req) {
                    Ok(a) => a,
                    Err(e) => format!("harness-error:{e}"),
                })
            }
            "infer-type" => {
                let (h, uses) = args.first()?.as_call()?;
                if h != "uses" {
                    return None;
                }
                let descs: Vec<TyDesc> = uses.iter().map(TyDesc::from_sexp).collect::<Option<Vec<_>>>()?;
                let tys: Vec<Type> = descs.iter().map(|d| d.build()).collect();
                Some(match infer(&tys) {
                    Some(t) => TyDesc::of(&t).to_sexp().to_string(),
                    None => "none".into(),
                })
            }
            _ => None,
        }
    }

    fn post_tags(&self, e: &Evaluated) -> Vec<String> {
        let class = if e.answer == "ok" || e.answer == "panic" || e.answer == "none" {
            e.answer.clone()
        } else if e.answer.starts_with("(errs") {
            "refused-multiple".into()
        } else if e.answer.starts_with("(err") {
            "refused-single".into()
        } else if e.answer.starts_with("(T") {
            "some".into()
        } else {
            "other".into()
        };
        vec![format!("answer:{class}")]
    }

    fn oracle(&self, evaluated: &[Evaluated]) -> Vec<OracleFailure> {
        let sink = FailSink::default();
        let probe_values = probe_values();
        for e in evaluated {
            let Some((h, args)) = e.request.as_call() else { continue };
            match h {
                "validate-args" => {
                    let Some(req) = parse_request(args) else { continue };
                    if req.vars.iter().any(|(_, t)| t.depth() > 30) {
                        continue;
                    }
                    check_validate(&sink, &req, e);
                }
                "infer-type" => check_infer(&sink, args, e, &probe_values),
                _ => {}
            }
        }
        sink.take()
    }

    fn extra_stats(&self, evaluated: &[Evaluated]) -> serde_json::Value {
        let count = |p: &str| evaluated.iter().filter(|e| e.tags.iter().any(|t| t == p)).count();
        let files: BTreeSet<&str> = evaluated
            .iter()
            .filter_map(|e| e.line.split_once("(file ").map(|x| x.1.trim_end_matches(')')))
            .collect();
        serde_json::json!({
            "repo_query_cases": count("repo"),
            "repo_queries_compiled": files.len(),
            "synthetic_query_cases": count("synthetic"),
            "infer_type_cases": count("infer"),
            "accepted": count("answer:ok"),
            "refused_single": count("answer:refused-single"),
            "refused_multiple": count("answer:refused-multiple"),
            "panicked": count("answer:panic"),
        })
    }
}

/// `fill_in_query_variables` for one variable, on the real `Type::intersect`.
fn infer(uses: &[Type]) -> Option<Type> {
    let mut existing = uses.first()?.clone();
    let mut bad = false;
    for u in uses {
        match existing.intersect(u) {
            Some(t) => existing = t,
            None => bad = true,
        }
    }
    if bad { None } else { Some(existing) }
}

fn probe_values() -> Vec<FieldValue> {
    let i = |x: i64| FieldValue::Int64(x);
    vec![
        FieldValue::Null,
        i(1),
        FieldValue::Uint64(u64::MAX),
        FieldValue::Float64(0.5),
        FieldValue::from("a"),
        FieldValue::Boolean(true),
        l(vec![]),
        l(vec![FieldValue::Null]),
        l(vec![i(1)]),
        l(vec![i(1), FieldValue::Null]),
        l(vec![FieldValue::from("a")]),
        l(vec![FieldValue::from("a"), FieldValue::Null]),
        l(vec![l(vec![])]),
        l(vec![l(vec![FieldValue::Null]), FieldValue::Null]),
        l(vec![l(vec![i(1)])]),
        l(vec![l(vec![FieldValue::from("a")]), l(vec![])]),
    ]
}

fn check_infer(sink: &FailSink, args: &[Sexp], e: &Evaluated, probes: &[FieldValue]) {
    let Some((_, uses)) = args.first().and_then(|a| a.as_call()) else { return };
    let Some(descs) = uses.iter().map(TyDesc::from_sexp).collect::<Option<Vec<_>>>() else { return };
    if descs.is_empty() {
        return;
    }
    let line = e.line.clone();
    let r = guarded(|| {
        let tys: Vec<Type> = descs.iter().map(|d| d.build()).collect();
        let inferred = infer(&tys);
        // expectation computed on descriptions only
        let first = &descs[0];
        let compatible = descs.iter().all(|u| u.base == first.base && u.depth() == first.depth());
        let expected = if compatible {
            let flags = (0..first.flags.len()).map(|i| descs.iter().all(|u| u.flags[i])).collect();
            Some(TyDesc { base: first.base.clone(), flags })
        } else {
            None
        };
        if inferred.as_ref().map(TyDesc::of) != expected {
            sink.fail("inferred-type-not-levelwise-and", format!("{:?}", descs.iter().map(|d| d.text()).collect::<Vec<_>>()), vec![line.clone()]);
        }
        if let Some(t) = &inferred {
            for v in probes {
                let all = tys.iter().all(|u| u.is_valid_value(v));
                if t.is_valid_value(v) != all {
                    sink.fail("inferred-type-not-glb", format!("{} value {}", TyDesc::of(t).text(), render_value(v)), vec![line.clone()]);
                }
            }
        }
        // the frontend's own record for repo queries
        if let Some((h, from)) = args.get(1).and_then(|a| a.as_call()) {
            if h == "from" && from.len() == 2 {
                if let (Some(file), Some(var)) = (atom_name(&from[0]), atom_name(&from[1])) {
                    if let Some(rq) = repo_query(&file) {
                        let recorded = rq.query.ir_query.variables.get(var.as_str()).cloned();
                        if recorded != inferred {
                            sink.fail("frontend-variable-type-differs-from-running-intersection", format!("{file} ${var}"), vec![line.clone()]);
                        }
                    }
                }
            }
        }
    });
    if let Err(info) = r {
        sink.fail(&panic_key(&info), info, vec![line]);
    }
}

fn check_validate(sink: &FailSink, req: &Request, e: &Evaluated) {
    let line = e.line.clone();
    // expectation from the harness's own definitions (variables in byte order of their names)
    let mut vars: Vec<&(String, TyDesc)> = req.vars.iter().collect();
    vars.sort_by(|a, b| a.0.as_bytes().cmp(b.0.as_bytes()));
    let args: BTreeMap<&str, &FieldValue> = req.args.iter().map(|(n, v)| (n.as_str(), v)).collect();
    let mut ill: Vec<(String, String)> = vec![];
    let mut missing: Vec<String> = vec![];
    let mut enum_reached = false;
    for (n, t) in &vars {
        match args.get(n.as_str()) {
            None => missing.push(n.clone()),
            Some(v) => {
                if !conforms(&t.base, &t.flags, v) {
                    ill.push((n.clone(), t.text()));
                }
                if reaches_enum(&t.base, &t.flags, v) {
                    enum_reached = true;
                }
            }
        }
    }
    let mut arg_names: Vec<&str> = args.keys().copied().collect();
    arg_names.sort_by(|a, b| a.as_bytes().cmp(b.as_bytes()));
    let unused: Vec<String> = arg_names.iter().filter(|k| !vars.iter().any(|(n, _)| n == *k)).map(|s| s.to_string()).collect();

    // what the implementation did (recomputed here, not read from the answer text)
    let outcome = guarded(|| {
        let query = match &req.file {
            Some(f) => repo_query(f).map(|rq| rq.query.clone()).ok_or_else(|| "cannot-compile".to_string()),
            None => synthetic_query(&req.vars),
        }?;
        let arguments: BTreeMap<Arc<str>, FieldValue> = req.args.iter().map(|(n, v)| (Arc::from(n.as_str()), v.clone())).collect();
        Ok::<_, String>(InterpretedQuery::from_query_and_arguments(query, Arc::new(arguments)).map(|_| ()))
    });
    let result = match outcome {
        Err(info) => {
            if enum_reached {
                sink.fail("enum-argument-panics", info, vec![line]);
            } else {
                sink.fail(&format!("unexpected-{}", panic_key(&info)), info, vec![line]);
            }
            return;
        }
        Ok(Err(msg)) => {
            sink.fail("query-not-constructible", msg, vec![line]);
            return;
        }
        Ok(Ok(r)) => r,
    };
    let should_accept = ill.is_empty() && missing.is_empty() && unused.is_empty();
    match result {
        Ok(()) => {
            if !should_accept {
                let why = if !ill.is_empty() { "ill-typed-value" } else if !missing.is_empty() { "missing-variable" } else { "unused-argument" };
                sink.fail(&format!("accepted-despite-{why}"), format!("ill={ill:?} missing={missing:?} unused={unused:?}"), vec![line]);
            }
        }
        Err(err) => {
            if should_accept {
                sink.fail("refused-valid-arguments", format!("{err}"), vec![line]);
                return;
            }
            let flat: Vec<QueryArgumentsError> = match &err {
                QueryArgumentsError::MultipleErrors(v) => v.0.clone(),
                other => vec![other.clone()],
            };
            let mut got_ill = vec![];
            let mut got_missing: Option<Vec<String>> = None;
            let mut got_unused: Option<Vec<String>> = None;
            let mut order = vec![];
            for x in &flat {
                match x {
                    QueryArgumentsError::ArgumentTypeError(n, t, v) => {
                        order.push(0);
                        got_ill.push((n.clone(), t.clone()));
                        if args.get(n.as_str()).map(|a| *a == v && render_value(a) == render_value(v)) != Some(true) {
                            sink.fail("type-error-carries-wrong-value", n.clone(), vec![line.clone()]);
                        }
                    }
                    QueryArgumentsError::MissingArguments(ns) => {
                        order.push(1);
                        if got_missing.replace(ns.clone()).is_some() {
                            sink.fail("error-variant-repeated", "MissingArguments".into(), vec![line.clone()]);
                        }
                    }
                    QueryArgumentsError::UnusedArguments(ns) => {
                        order.push(2);
                        if got_unused.replace(ns.clone()).is_some() {
                            sink.fail("error-variant-repeated", "UnusedArguments".into(), vec![line.clone()]);
                        }
                    }
                    QueryArgumentsError::MultipleErrors(_) => {
                        order.push(3);
                        sink.fail("nested-multiple-errors", String::new(), vec![line.clone()]);
                    }
                }
            }
            if got_ill != ill {
                sink.fail("type-errors-do-not-name-exactly-the-ill-typed-variables", format!("expected {ill:?} got {got_ill:?}"), vec![line.clone()]);
            }
            if got_missing.clone().unwrap_or_default() != missing || got_missing.as_ref().map(|v| v.is_empty()) == Some(true) {
                sink.fail("missing-arguments-not-exact", format!("expected {missing:?} got {got_missing:?}"), vec![line.clone()]);
            }
            if got_unused.clone().unwrap_or_default() != unused || got_unused.as_ref().map(|v| v.is_empty()) == Some(true) {
                sink.fail("unused-arguments-not-exact", format!("expected {unused:?} got {got_unused:?}"), vec![line.clone()]);
            }
            if order.windows(2).any(|w| w[0] > w[1]) {
                sink.fail("error-order", format!("{order:?}"), vec![line.clone()]);
            }
            let is_multiple = matches!(err, QueryArgumentsError::MultipleErrors(_));
            if is_multiple != (flat.len() > 1) {
                sink.fail("single-error-wrapped-or-multiple-unwrapped", format!("{}", flat.len()), vec![line.clone()]);
            }
        }
    }
    let _ = has_enum;
}

/// Collects oracle failures, at most three per key.
#[derive(Default)]
struct FailSink {
    list: RefCell<Vec<OracleFailure>>,
    seen: RefCell<BTreeMap<String, usize>>,
}

impl FailSink {
    fn fail(&self, key: &str, detail: String, requests: Vec<String>) {
        let mut seen = self.seen.borrow_mut();
        let c = seen.entry(key.to_string()).or_default();
        *c += 1;
        if *c <= 3 {
            self.list.borrow_mut().push(OracleFailure { key: key.to_string(), detail, requests });
        }
    }
    fn take(&self) -> Vec<OracleFailure> {
        std::mem::take(&mut *self.list.borrow_mut())
    }
}

fn main() {
    main_for(vec![Box::new(C12)]);
}
