//! C24 — schemas and compiled queries can be shared across threads.
//!
//! (a) `gen-typedefs`: the `syn`-based extractor (module `extract`, file `autotraits_gen.rs`, also
//!     built as the stand-alone binary that `cfg/C24.json`'s `lean_pre` runs) regenerates
//!     `lean/TrustfallModel/Generated/TypeDefs.lean` from /repo's working tree.
//! (b) compile-time assertions: rustc's own auto-trait solver must agree with the Lean theorems on
//!     the six property types and on every entry of the external leaf table.
//! (c) `(sendsync <type>)`: rustc's answer for a menu of probe types (method-resolution probe, no
//!     specialization needed) against `TF.AutoTraits.sendSync` over the regenerated table.
//! (d) `(run-shared …)`, `(run-mix …)`, `(compile-shared …)`: 16 threads compile and execute queries
//!     over shared `Arc<NumbersAdapter>` (holding the `Schema`) / `Arc<IndexedQuery>`; results must
//!     equal the sequential ones.
#[path = "autotraits_gen.rs"]
#[allow(dead_code)]
mod extract;

use std::cell::{Cell, RefCell};
use std::collections::{BTreeMap, BTreeSet, HashMap};
use std::marker::PhantomData;
use std::rc::Rc;
use std::sync::atomic::{AtomicUsize, Ordering as AtomicOrdering};
use std::sync::{Arc, Barrier, Mutex, OnceLock, RwLock};

use async_graphql_parser::types::{
    DirectiveDefinition, FieldDefinition, InputValueDefinition, ObjectType, SchemaDefinition, TypeDefinition,
};
use async_graphql_parser::{Pos, Positioned};
use async_graphql_value::Name;

use trustfall_core::frontend::parse;
use trustfall_core::interpreter::execution::interpret_ir;
use trustfall_core::interpreter::{DataContext, InterpretedQuery};
use trustfall_core::ir::{
    Argument, ContextField, EdgeKind, EdgeParameters, Eid, FieldRef, FieldValue, FoldSpecificField,
    FoldSpecificFieldKind, IREdge, IRFold, IRQuery, IRQueryComponent, IRVertex, IndexedQuery, LocalField, Operation,
    Output, Recursive, TransparentValue, Type, VariableRef, Vid,
};
use trustfall_core::numbers_interpreter::NumbersAdapter;
use trustfall_core::schema::Schema;
use trustfall_core::test_types::TestGraphQLQuery;

use tfharness::framework::*;
use tfharness::rng::Rng;
use tfharness::sexp::Sexp;
use tfharness::values::render_value;

// ------------------------------------------------------------------------------------------------
// (b) rustc must agree: the property types and every entry of `TF.AutoTraits.externalLeaves`
// ------------------------------------------------------------------------------------------------
const _: fn() = || {
    fn ok<T: Send + Sync>() {}
    // the property
    ok::<Schema>();
    ok::<IndexedQuery>();
    ok::<IRQuery>();
    ok::<FieldValue>();
    ok::<Type>();
    ok::<InterpretedQuery>();
    ok::<Arc<Schema>>();
    ok::<Arc<IndexedQuery>>();
    // external leaf table of Model/AutoTraits.lean
    ok::<SchemaDefinition>();
    ok::<ObjectType>();
    ok::<DirectiveDefinition>();
    ok::<TypeDefinition>();
    ok::<FieldDefinition>();
    ok::<InputValueDefinition>();
    ok::<Name>();
    ok::<Pos>();
    ok::<Positioned<FieldDefinition>>();
    // the adapter that carries the shared schema in the runtime part
    ok::<NumbersAdapter>();
};

// ------------------------------------------------------------------------------------------------
// (c) asking rustc: inherent methods win over trait methods, so `is_send` is `true` exactly when
//     `T: Send` holds for the concrete `T`
// ------------------------------------------------------------------------------------------------
struct Probe<T: ?Sized>(PhantomData<T>);
trait Fallback {
    fn is_send(&self) -> bool {
        false
    }
    fn is_sync(&self) -> bool {
        false
    }
}
impl<T: ?Sized> Fallback for Probe<T> {}
#[allow(dead_code)]
impl<T: ?Sized + Send> Probe<T> {
    fn is_send(&self) -> bool {
        true
    }
}
#[allow(dead_code)]
impl<T: ?Sized + Sync> Probe<T> {
    fn is_sync(&self) -> bool {
        true
    }
}

macro_rules! probes {
    ($( $text:literal => $ty:ty ),* $(,)?) => {
        vec![ $( ($text, { let p = Probe::<$ty>(PhantomData); (p.is_send(), p.is_sync()) }) ),* ]
    };
}

/// (request type expression, rustc's (Send, Sync)).  The text is the protocol form of the Rust type
/// next to it (hand-written pairing).
fn probe_table() -> Vec<(&'static str, (bool, bool))> {
    probes![
        // the property types and the other IR definitions of the table
        "Schema" => Schema,
        "IndexedQuery" => IndexedQuery,
        "IRQuery" => IRQuery,
        "FieldValue" => FieldValue,
        "Type" => Type,
        "InterpretedQuery" => InterpretedQuery,
        "(Arc Schema)" => Arc<Schema>,
        "(Arc IndexedQuery)" => Arc<IndexedQuery>,
        "IRQueryComponent" => IRQueryComponent,
        "IRFold" => IRFold,
        "IRVertex" => IRVertex,
        "IREdge" => IREdge,
        "EdgeParameters" => EdgeParameters,
        "Output" => Output,
        "EdgeKind" => EdgeKind,
        "Vid" => Vid,
        "Eid" => Eid,
        "ContextField" => ContextField,
        "LocalField" => LocalField,
        "VariableRef" => VariableRef,
        "Argument" => Argument,
        "FieldRef" => FieldRef,
        "FoldSpecificField" => FoldSpecificField,
        "FoldSpecificFieldKind" => FoldSpecificFieldKind,
        "Recursive" => Recursive,
        "TransparentValue" => TransparentValue,
        "(Operation LocalField Argument)" => Operation<LocalField, Argument>,
        "(Operation (Rc u8) Argument)" => Operation<Rc<u8>, Argument>,
        "(Operation LocalField (Cell u8))" => Operation<LocalField, Cell<u8>>,
        // contexts are as thread-safe as their vertex type
        "(DataContext (tuple))" => DataContext<()>,
        "(DataContext (Arc str))" => DataContext<Arc<str>>,
        "(DataContext (Rc (tuple)))" => DataContext<Rc<()>>,
        "(DataContext (Cell u8))" => DataContext<Cell<u8>>,
        "(DataContext (RefCell FieldValue))" => DataContext<RefCell<FieldValue>>,
        "(DataContext (Arc (Cell u8)))" => DataContext<Arc<Cell<u8>>>,
        "(DataContext (Mutex (Cell u8)))" => DataContext<Mutex<Cell<u8>>>,
        "(DataContext (ptr u8))" => DataContext<*const u8>,
        "(Vec (DataContext (Rc str)))" => Vec<DataContext<Rc<str>>>,
        "(VertexIterator u8)" => trustfall_core::interpreter::VertexIterator<'static, u8>,
        "(ContextIterator u8)" => trustfall_core::interpreter::ContextIterator<'static, u8>,
        // the standard-library rules the derivation uses
        "u64" => u64,
        "str" => str,
        "String" => String,
        "(Arc str)" => Arc<str>,
        "(Arc (slice FieldValue))" => Arc<[FieldValue]>,
        "(Rc str)" => Rc<str>,
        "(Arc (Rc str))" => Arc<Rc<str>>,
        "(Cell u8)" => Cell<u8>,
        "(RefCell u8)" => RefCell<u8>,
        "(Arc (Cell u8))" => Arc<Cell<u8>>,
        "(Arc (RefCell IRQuery))" => Arc<RefCell<IRQuery>>,
        "(Mutex (Cell u8))" => Mutex<Cell<u8>>,
        "(Mutex (Rc u8))" => Mutex<Rc<u8>>,
        "(RwLock (Cell u8))" => RwLock<Cell<u8>>,
        "(OnceLock (Cell u8))" => OnceLock<Cell<u8>>,
        "(OnceLock (Arc str))" => OnceLock<Arc<str>>,
        "(OnceCell u8)" => std::cell::OnceCell<u8>,
        "(PhantomData (Rc (tuple)))" => PhantomData<Rc<()>>,
        "(PhantomData (Cell u8))" => PhantomData<Cell<u8>>,
        "(Option (Rc u8))" => Option<Rc<u8>>,
        "(Box (Cell u8))" => Box<Cell<u8>>,
        "(Vec (tuple (Arc str) (Rc str)))" => Vec<(Arc<str>, Rc<str>)>,
        "(tuple (Cell u8) (Arc str))" => (Cell<u8>, Arc<str>),
        "(BTreeMap Vid (Rc u8))" => BTreeMap<Vid, Rc<u8>>,
        "(BTreeMap (Cell u8) Vid)" => BTreeMap<Cell<u8>, Vid>,
        "(HashMap (Arc str) (Cell u8))" => HashMap<Arc<str>, Cell<u8>>,
        "(BTreeSet (Arc str))" => BTreeSet<Arc<str>>,
        "(Result u8 (Rc u8))" => Result<u8, Rc<u8>>,
        "(ref (Cell u8))" => &'static Cell<u8>,
        "(ref (Arc str))" => &'static Arc<str>,
        "(refmut (Cell u8))" => &'static mut Cell<u8>,
        "(refmut (Rc u8))" => &'static mut Rc<u8>,
        "(ref (Mutex (Cell u8)))" => &'static Mutex<Cell<u8>>,
        "(ptr u8)" => *const u8,
        "(slice (Cell u8))" => [Cell<u8>],
        "(Box (dyn 0 0))" => Box<dyn Iterator<Item = u8>>,
        "(Box (dyn 1 0))" => Box<dyn Iterator<Item = u8> + Send>,
        "(Box (dyn 1 1))" => Box<dyn Iterator<Item = u8> + Send + Sync>,
        "(Arc (dyn 1 0))" => Arc<dyn Iterator<Item = u8> + Send>,
        "fn" => fn(u8) -> u8,
        // external leaf table
        "SchemaDefinition" => SchemaDefinition,
        "ObjectType" => ObjectType,
        "DirectiveDefinition" => DirectiveDefinition,
        "TypeDefinition" => TypeDefinition,
        "FieldDefinition" => FieldDefinition,
        "InputValueDefinition" => InputValueDefinition,
        "Name" => Name,
        "Pos" => Pos,
        "(Positioned FieldDefinition)" => Positioned<FieldDefinition>,
        "(HashMap (tuple (Arc str) (Arc str)) FieldDefinition)" => HashMap<(Arc<str>, Arc<str>), FieldDefinition>,
    ]
}

/// The types the property names: these must be `1 1`.
const REQUIRED: &[&str] = &[
    "Schema",
    "IndexedQuery",
    "IRQuery",
    "FieldValue",
    "Type",
    "InterpretedQuery",
    "(Arc Schema)",
    "(Arc IndexedQuery)",
];

// ------------------------------------------------------------------------------------------------
// hash-ordered containers: an independent walk over the extracted definitions
// ------------------------------------------------------------------------------------------------
fn ty_mentions_hash(t: &extract::Ty) -> bool {
    use extract::Ty;
    match t {
        Ty::Path(n, args) => n == "HashMap" || n == "HashSet" || args.iter().any(ty_mentions_hash),
        Ty::Ref(_, t) | Ty::Ptr(t) | Ty::Slice(t) => ty_mentions_hash(t),
        Ty::Tuple(ts) => ts.iter().any(ty_mentions_hash),
        _ => false,
    }
}

fn ty_names(t: &extract::Ty, out: &mut Vec<String>) {
    use extract::Ty;
    match t {
        Ty::Path(n, args) => {
            out.push(n.clone());
            args.iter().for_each(|a| ty_names(a, out));
        }
        Ty::Ref(_, t) | Ty::Ptr(t) | Ty::Slice(t) => ty_names(t, out),
        Ty::Tuple(ts) => ts.iter().for_each(|a| ty_names(a, out)),
        _ => {}
    }
}

fn hash_free(defs: &BTreeMap<String, extract::Def>, root: &str) -> bool {
    if !defs.contains_key(root) {
        return false;
    }
    let mut seen: BTreeSet<String> = BTreeSet::new();
    let mut todo = vec![root.to_string()];
    while let Some(n) = todo.pop() {
        let Some(d) = defs.get(&n) else { continue };
        if !seen.insert(n) {
            continue;
        }
        for (_, t) in &d.fields {
            if ty_mentions_hash(t) {
                return false;
            }
            let mut names = vec![];
            ty_names(t, &mut names);
            todo.extend(names);
        }
    }
    true
}

const INTERIOR: &[&str] = &[
    "Cell", "RefCell", "UnsafeCell", "OnceCell", "OnceLock", "LazyCell", "LazyLock", "Mutex", "RwLock", "Condvar",
    "Once", "Barrier",
];

/// no cell / lock / atomic in any definition reachable from `root` (independent of the Lean walk)
fn immutable_from(defs: &BTreeMap<String, extract::Def>, root: &str) -> bool {
    if !defs.contains_key(root) {
        return false;
    }
    let mut seen: BTreeSet<String> = BTreeSet::new();
    let mut todo = vec![root.to_string()];
    while let Some(n) = todo.pop() {
        let Some(d) = defs.get(&n) else { continue };
        if !seen.insert(n) {
            continue;
        }
        for (_, t) in &d.fields {
            let mut names = vec![];
            ty_names(t, &mut names);
            if names.iter().any(|n| INTERIOR.contains(&n.as_str()) || n.starts_with("Atomic")) {
                return false;
            }
            todo.extend(names);
        }
    }
    true
}

/// independent of the Lean `staticWriteOnce`
fn static_write_once(defs: &BTreeMap<String, extract::Def>, s: &extract::StaticDef) -> bool {
    use extract::Ty;
    if s.kind != "static" || s.mutable {
        return false;
    }
    let inner: Vec<&Ty> = match &s.ty {
        Ty::Path(n, args) if (n == "OnceLock" && args.len() == 1) || n == "LazyLock" => args.iter().collect(),
        t => vec![t],
    };
    let mut names = vec![];
    inner.iter().for_each(|t| ty_names(t, &mut names));
    if names.iter().any(|n| INTERIOR.contains(&n.as_str()) || n.starts_with("Atomic")) {
        return false;
    }
    let mut all = vec![];
    ty_names(&s.ty, &mut all);
    all.iter().all(|n| !defs.contains_key(n) || immutable_from(defs, n))
}

// ------------------------------------------------------------------------------------------------
// (d) runtime
// ------------------------------------------------------------------------------------------------
const THREADS: usize = 16;
const FRESH_THREADS: usize = 8;
const ROW_LIMIT: usize = 2000;
fn test_dir() -> String {
    format!("{}/trustfall_core/test_data/tests", extract::default_repo())
}

/// Hand-written numbers queries (stems `x_…`) whose evaluation keeps per-row state in the engine:
/// tag-supplied operands of regex / substring / prefix / one_of filters (the tag value changes from
/// row to row, so concurrent executions hold DIFFERENT operands at the same moment), filters inside
/// folds with imported tags, recursion with coercion.
const EXTRA_QUERIES: &[(&str, &str)] = &[
    ("x_tag_regex", r#"{ Number(min: 1, max: 30) { name @tag(name: "t") successor { predecessor { name @filter(op: "regex", value: ["%t"]) value @output } } } }"#),
    ("x_tag_not_regex", r#"{ Number(min: 1, max: 30) { name @tag(name: "t") successor { predecessor { name @filter(op: "not_regex", value: ["%t"]) value @output } } } }"#),
    ("x_tag_regex_successor", r#"{ Number(min: 0, max: 20) { name @tag(name: "t") successor { name @filter(op: "regex", value: ["%t"]) value @output } } }"#),
    ("x_tag_not_regex_successor", r#"{ Number(min: 0, max: 20) { name @tag(name: "t") successor { name @filter(op: "not_regex", value: ["%t"]) value @output } } }"#),
    ("x_tag_regex_multiple", r#"{ Number(min: 2, max: 9) { name @tag(name: "t") value @output multiple(max: 3) { mname: name @filter(op: "regex", value: ["%t"]) @output } } }"#),
    ("x_tag_has_substring", r#"{ Number(min: 1, max: 20) { name @tag(name: "t") successor { predecessor { name @filter(op: "has_substring", value: ["%t"]) value @output } } } }"#),
    ("x_tag_has_prefix", r#"{ Number(min: 1, max: 9) { name @tag(name: "t") value @output multiple(max: 2) { mname: name @filter(op: "has_prefix", value: ["%t"]) @output } } }"#),
    ("x_tag_has_suffix_not", r#"{ Number(min: 1, max: 12) { name @tag(name: "t") successor { name @filter(op: "not_has_suffix", value: ["%t"]) value @output } } }"#),
    ("x_tag_one_of", r#"{ Number(min: 1, max: 12) { vowelsInName @tag(name: "vs") successor { name @filter(op: "not_one_of", value: ["%vs"]) value @output } } }"#),
    ("x_tag_contains", r#"{ Number(min: 1, max: 12) { name @tag(name: "t") successor { vowelsInName @filter(op: "not_contains", value: ["%t"]) value @output } } }"#),
    ("x_tag_int_compare", r#"{ Number(min: 1, max: 8) { value @tag(name: "v") @output multiple(max: 3) { mult: value @filter(op: ">", value: ["%v"]) @output } } }"#),
    ("x_fold_imported_tag", r#"{ Number(min: 1, max: 8) { value @tag(name: "v") @output multiple(max: 4) @fold { mult: value @filter(op: ">", value: ["%v"]) @output } } }"#),
    ("x_fold_imported_tag_regex", r#"{ Number(min: 1, max: 12) { name @tag(name: "t") @output successor @fold { predecessor { pn: name @filter(op: "regex", value: ["%t"]) @output } } } }"#),
    ("x_fold_count_and_tag", r#"{ Number(min: 1, max: 8) { value @tag(name: "v") @output multiple(max: 4) @fold @transform(op: "count") @output(name: "n") { value @filter(op: ">", value: ["%v"]) } } }"#),
    ("x_recurse_coercion", r#"{ Number(min: 2, max: 6) { value @output successor @recurse(depth: 3) { ... on Composite { comp: value @output primeFactor @fold { f: value @output } } } } }"#),
    ("x_recurse_tag_substring", r#"{ Number(min: 1, max: 10) { name @tag(name: "t") @output successor @recurse(depth: 2) { rname: name @filter(op: "has_substring", value: ["%t"]) @output } } }"#),
    ("x_optional_tag_regex", r#"{ Number(min: 0, max: 12) { value @output predecessor @optional { name @tag(name: "p") } successor { sname: name @filter(op: "not_regex", value: ["%p"]) @output } } }"#),
];

/// pairs of DIFFERENT queries executed at the same moment by different threads
const PAIRS: &[(&str, &str)] = &[
    ("x_tag_regex", "x_tag_regex_successor"),
    ("x_tag_regex", "x_tag_not_regex"),
    ("x_tag_not_regex_successor", "x_tag_regex_multiple"),
    ("x_tag_has_substring", "x_tag_has_prefix"),
    ("x_fold_imported_tag_regex", "x_optional_tag_regex"),
    ("x_tag_one_of", "x_tag_contains"),
    ("x_fold_imported_tag", "x_recurse_coercion"),
    ("x_tag_regex", "fold_count_filter_lt_over_i64_max"),
];

fn load(dir: &str, stem: &str) -> Option<TestGraphQLQuery> {
    if dir == "valid_queries" {
        if let Some((_, q)) = EXTRA_QUERIES.iter().find(|(n, _)| *n == stem) {
            return Some(TestGraphQLQuery { schema_name: "numbers".into(), query: q.to_string(), arguments: Default::default() });
        }
    }
    if !stem.bytes().all(|c| c.is_ascii_alphanumeric() || c == b'_' || c == b'-') {
        return None;
    }
    let text = std::fs::read_to_string(format!("{}/{dir}/{stem}.graphql.ron", test_dir())).ok()?;
    let t: TestGraphQLQuery = ron::from_str(&text).ok()?;
    (t.schema_name == "numbers").then_some(t)
}

fn stems(dir: &str) -> Vec<String> {
    let mut names: Vec<String> = std::fs::read_dir(format!("{}/{dir}", test_dir()))
        .map(|d| d.filter_map(|e| e.ok()).map(|e| e.file_name().to_string_lossy().to_string()).collect())
        .unwrap_or_default();
    names.sort();
    names
        .into_iter()
        .filter_map(|n| n.strip_suffix(".graphql.ron").map(|s| s.to_string()))
        .filter(|s| load(dir, s).is_some())
        .chain(EXTRA_QUERIES.iter().filter(|_| dir == "valid_queries").map(|(n, _)| n.to_string()))
        .collect()
}

type Args = Arc<BTreeMap<Arc<str>, FieldValue>>;

fn args_of(t: &TestGraphQLQuery) -> Args {
    Arc::new(t.arguments.iter().map(|(k, v)| (Arc::from(k.as_str()), v.clone())).collect())
}

/// Execute and render; errors and panics are part of the outcome.
fn execute(adapter: &Arc<NumbersAdapter>, q: &Arc<IndexedQuery>, args: &Args) -> String {
    match guarded(|| {
        let it = interpret_ir(adapter.clone(), q.clone(), args.clone()).map_err(|e| format!("arguments: {e}"))?;
        let rows: Vec<String> = it
            .take(ROW_LIMIT)
            .map(|row| row.iter().map(|(k, v)| format!("{k}={}", render_value(v))).collect::<Vec<_>>().join(" "))
            .collect();
        Ok::<_, String>(rows.join("\n"))
    }) {
        Ok(Ok(s)) => s,
        Ok(Err(e)) => format!("error: {e}"),
        Err(p) => format!("panic: {}", panic_key(&p)),
    }
}

fn compile(schema: &Schema, query: &str) -> Result<Arc<IndexedQuery>, String> {
    match guarded(|| parse(schema, query)) {
        Ok(Ok(q)) => Ok(q),
        Ok(Err(e)) => Err(format!("error: {e:?}")),
        Err(p) => Err(format!("panic: {}", panic_key(&p))),
    }
}

fn same_compiled(a: &Result<Arc<IndexedQuery>, String>, b: &Result<Arc<IndexedQuery>, String>) -> bool {
    match (a, b) {
        (Ok(x), Ok(y)) => x == y,
        (Err(x), Err(y)) => x == y,
        _ => false,
    }
}

#[derive(Clone, Debug, Default)]
struct Shared {
    threads: usize,
    compile_mismatch: usize,
    rows_mismatch_shared_query: usize,
    rows_mismatch_own_query: usize,
    detail: String,
    sequential_rows: usize,
}

pub struct C24 {
    adapter: Arc<NumbersAdapter>,
    probes: BTreeMap<&'static str, (bool, bool)>,
    defs: BTreeMap<String, extract::Def>,
    statics: Vec<extract::StaticDef>,
    results: RefCell<BTreeMap<String, Shared>>,
}

impl C24 {
    fn new() -> C24 {
        let defs = extract::extract(&extract::default_repo()).unwrap_or_default();
        C24 {
            adapter: Arc::new(NumbersAdapter::new()),
            probes: probe_table().into_iter().collect(),
            defs: defs.into_iter().map(|d| (d.name.clone(), d)).collect(),
            statics: extract::extract_statics(&extract::default_repo()).unwrap_or_default(),
            results: RefCell::new(BTreeMap::new()),
        }
    }

    /// one query, 16 threads at a barrier: compile concurrently (shared schema inside the shared
    /// adapter), execute the shared compiled query and the thread's own compiled query
    fn run_shared(&self, line: &str, test: &TestGraphQLQuery, execute_too: bool) {
        let adapter = self.adapter.clone();
        let seq_compiled = compile(adapter.schema(), &test.query);
        let args = args_of(test);
        let seq_rows = match (&seq_compiled, execute_too) {
            (Ok(q), true) => Some(execute(&adapter, q, &args)),
            _ => None,
        };
        let barrier = Arc::new(Barrier::new(THREADS));
        let query: Arc<str> = Arc::from(test.query.as_str());
        let shared_q = seq_compiled.clone().ok();
        let handles: Vec<_> = (0..THREADS)
            .map(|_| {
                let (adapter, barrier, query, args, shared_q) =
                    (adapter.clone(), barrier.clone(), query.clone(), args.clone(), shared_q.clone());
                std::thread::spawn(move || {
                    barrier.wait();
                    let own = compile(adapter.schema(), &query);
                    let shared_rows = match (&shared_q, execute_too) {
                        (Some(q), true) => Some(execute(&adapter, q, &args)),
                        _ => None,
                    };
                    let own_rows = match (&own, execute_too) {
                        (Ok(q), true) => Some(execute(&adapter, q, &args)),
                        _ => None,
                    };
                    (own, shared_rows, own_rows)
                })
            })
            .collect();
        let mut r = Shared { threads: THREADS, ..Default::default() };
        r.sequential_rows = seq_rows.as_ref().map(|s| if s.is_empty() { 0 } else { s.lines().count() }).unwrap_or(0);
        for h in handles {
            match h.join() {
                Ok((own, shared_rows, own_rows)) => {
                    if !same_compiled(&own, &seq_compiled) {
                        r.compile_mismatch += 1;
                        r.detail = format!("concurrent compile differs: {:?}", own.as_ref().err());
                    }
                    if shared_rows != seq_rows {
                        r.rows_mismatch_shared_query += 1;
                        r.detail = "rows over the shared compiled query differ from the sequential rows".into();
                    }
                    if own_rows.is_some() && own_rows != seq_rows {
                        r.rows_mismatch_own_query += 1;
                        r.detail = "rows over the thread's own compiled query differ from the sequential rows".into();
                    }
                }
                Err(_) => {
                    r.compile_mismatch += 1;
                    r.detail = "a worker thread died".into();
                }
            }
        }
        self.results.borrow_mut().insert(line.to_string(), r);
    }

    /// FIRST executions race: every round compiles a fresh query from the shared schema and releases
    /// `FRESH_THREADS` threads (own adapter each) that all start executing that same brand-new
    /// `Arc<IndexedQuery>` at the same moment; afterwards the shared compiled query is executed once
    /// more sequentially.  Reference rows come from an independently compiled copy, executed on
    /// this thread only.  (A lazily filled cache inside the compiled query that is populated
    /// incorrectly under a race shows up in some thread's rows or in the re-execution.)
    fn run_fresh(&self, line: &str, tests: &[TestGraphQLQuery], rounds: usize) {
        let schema_holder = self.adapter.clone(); // owns the shared Schema
        let k = tests.len();
        let mut r = Shared { threads: FRESH_THREADS, ..Default::default() };
        let mut refs: Vec<(Arc<IndexedQuery>, Args, String)> = vec![];
        for t in tests {
            match compile(schema_holder.schema(), &t.query) {
                Ok(q) => {
                    let a = args_of(t);
                    let rows = execute(&Arc::new(NumbersAdapter::new()), &q, &a);
                    r.sequential_rows += if rows.is_empty() { 0 } else { rows.lines().count() };
                    refs.push((q, a, rows));
                }
                Err(e) => {
                    r.compile_mismatch = 1;
                    r.detail = format!("reference compilation failed: {e}");
                    self.results.borrow_mut().insert(line.to_string(), r);
                    return;
                }
            }
        }
        let adapters: Vec<Arc<NumbersAdapter>> = (0..FRESH_THREADS).map(|_| Arc::new(NumbersAdapter::new())).collect();
        let main_adapter = Arc::new(NumbersAdapter::new());
        for round in 0..rounds {
            let mut shared: Vec<Arc<IndexedQuery>> = vec![];
            for (i, t) in tests.iter().enumerate() {
                match compile(schema_holder.schema(), &t.query) {
                    Ok(q) => {
                        if q != refs[i].0 {
                            r.compile_mismatch += 1;
                            r.detail = format!("round {round}: a fresh compilation differs from the reference compilation");
                        }
                        shared.push(q);
                    }
                    Err(e) => {
                        r.compile_mismatch += 1;
                        r.detail = format!("round {round}: compilation failed: {e}");
                    }
                }
            }
            if shared.len() != k {
                break;
            }
            let barrier = Barrier::new(FRESH_THREADS);
            let arrived = AtomicUsize::new(0);
            let outcomes: Vec<String> = std::thread::scope(|scope| {
                let workers: Vec<_> = adapters
                    .iter()
                    .enumerate()
                    .map(|(i, adapter)| {
                        let (q, args, barrier, arrived) = (&shared[i % k], &refs[i % k].1, &barrier, &arrived);
                        scope.spawn(move || {
                            barrier.wait();
                            // tighten the release: spin until everybody is past the barrier
                            arrived.fetch_add(1, AtomicOrdering::SeqCst);
                            let mut spins = 0u32;
                            while arrived.load(AtomicOrdering::SeqCst) < FRESH_THREADS && spins < 200_000 {
                                std::hint::spin_loop();
                                spins += 1;
                            }
                            execute(adapter, q, args)
                        })
                    })
                    .collect();
                workers.into_iter().map(|w| w.join().unwrap_or_else(|_| "panic: worker died".to_string())).collect()
            });
            let bad: Vec<usize> = (0..FRESH_THREADS).filter(|i| outcomes[*i] != refs[i % k].2).collect();
            if let Some(&i) = bad.first() {
                r.rows_mismatch_shared_query += bad.len();
                let (want, got) = (&refs[i % k].2, &outcomes[i]);
                let (wl, gl) = (want.lines().count(), got.lines().count());
                let diff = want.lines().zip(got.lines()).find(|(a, b)| a != b);
                r.detail = format!(
                    "round {round}: {} of {FRESH_THREADS} threads got rows different from the sequential reference (thread {i}, query #{}: {wl} reference rows, {gl} rows; first differing row: want {:?} got {:?})",
                    bad.len(),
                    i % k,
                    diff.map(|x| x.0).or_else(|| want.lines().nth(gl)).unwrap_or("<none>"),
                    diff.map(|x| x.1).or_else(|| got.lines().nth(wl)).unwrap_or("<none>"),
                );
            }
            for (i, q) in shared.iter().enumerate() {
                if execute(&main_adapter, q, &refs[i].1) != refs[i].2 {
                    r.rows_mismatch_own_query += 1;
                    if bad.is_empty() {
                        r.detail = format!(
                            "round {round}: after concurrent use, a sequential re-execution of the shared compiled query #{i} differs from the reference"
                        );
                    }
                }
            }
            if r.rows_mismatch_shared_query + r.rows_mismatch_own_query > 0 {
                break; // one failing schedule is enough
            }
        }
        self.results.borrow_mut().insert(line.to_string(), r);
    }

    /// all queries at once: every thread walks its own random order over a shared table of compiled
    /// queries, so different queries (and the same ones) execute simultaneously
    fn run_mix(&self, line: &str, seed: u64, per_thread: usize) {
        let adapter = self.adapter.clone();
        let tests: Vec<TestGraphQLQuery> = stems("valid_queries").iter().filter_map(|s| load("valid_queries", s)).collect();
        let table: Arc<Vec<(Arc<IndexedQuery>, Args, String)>> = Arc::new(
            tests
                .iter()
                .filter_map(|t| {
                    let q = compile(adapter.schema(), &t.query).ok()?;
                    let a = args_of(t);
                    let rows = execute(&adapter, &q, &a);
                    Some((q, a, rows))
                })
                .collect(),
        );
        let barrier = Arc::new(Barrier::new(THREADS));
        let handles: Vec<_> = (0..THREADS)
            .map(|t| {
                let (adapter, barrier, table) = (adapter.clone(), barrier.clone(), table.clone());
                std::thread::spawn(move || {
                    let mut rng = Rng::new(seed.wrapping_mul(31).wrapping_add(t as u64));
                    barrier.wait();
                    let mut bad = vec![];
                    for _ in 0..per_thread {
                        let i = rng.below(table.len());
                        let (q, a, want) = &table[i];
                        if &execute(&adapter, q, a) != want {
                            bad.push(i);
                        }
                    }
                    bad
                })
            })
            .collect();
        let mut r = Shared { threads: THREADS, ..Default::default() };
        r.sequential_rows = table.iter().map(|(_, _, rows)| if rows.is_empty() { 0 } else { rows.lines().count() }).sum();
        for h in handles {
            match h.join() {
                Ok(bad) => {
                    if !bad.is_empty() {
                        r.rows_mismatch_shared_query += bad.len();
                        r.detail = format!("query table entries {bad:?} gave different rows under concurrency");
                    }
                }
                Err(_) => {
                    r.compile_mismatch += 1;
                    r.detail = "a worker thread died".into();
                }
            }
        }
        self.results.borrow_mut().insert(line.to_string(), r);
    }
}

impl Prop for C24 {
    fn id(&self) -> &'static str {
        "C24"
    }
    fn rule(&self) -> &'static str {
        "(sendsync <type>): rustc's own answer (method-resolution probe compiled against /repo's working tree) for a menu of concrete types — the six property types, Arc handles, the other public IR definitions, generic instantiations Operation<L,R> / DataContext<V> with thread-safe and thread-unsafe arguments (Rc, Cell, RefCell, raw pointer, Mutex/RwLock/OnceLock of cells), references, trait objects with and without Send/Sync bounds, every external leaf-table entry — against the Lean derivation sendSync over the regenerated TypeDefs table; non-trivial when the type is one of /repo's definitions or an instantiation of one. (hashfree <Name>): for every extracted definition, an independent Rust walk for HashMap/HashSet reachability against the Lean one. (immutable <Name>): for every extracted definition, an independent Rust walk for cells / locks / atomics reachable through field types against the Lean one. (run-fresh <file> <rounds>): first executions race — every round compiles a FRESH query from the shared schema, releases 8 threads (barrier + spin, own adapter each) that all start interpret_ir on that same brand-new Arc<IndexedQuery>, compares every thread's rows and a subsequent sequential re-execution of the shared compiled query with reference rows from an independently compiled copy executed on one thread; 40 rounds (quick) / 250 (thorough) for every query with @fold (outputs inside folds, nested folds, fold counts), 4 / 20 for the rest of the pool (recursion, optional, tags, coercions); stops at the first failing schedule. The pool of run-fresh / run-shared / run-mix also holds 17 hand-written numbers queries (stems x_…) whose evaluation keeps per-row state in the engine: tag-supplied operands of regex / not_regex / has_substring / has_prefix / not_has_suffix / not_one_of / not_contains / > filters (the operand changes from row to row, so concurrent executions hold different operands at the same moment), filters inside folds with imported tags, fold counts with tags, recursion with coercion, tags from optional scopes; 40 rounds each (quick) / 400 (thorough). (run-pair <a> <b> <rounds>): the same racing first executions, but even threads run query a and odd threads query b, so two DIFFERENT queries (e.g. regex vs not_regex over different tags) execute at the same moment. (statics), (static-ok <NAME>): the list of `static` items / thread_local! blocks of trustfall_core/src outside cfg(test), re-extracted on every run, checked write-once by an independent Rust walk against the Lean one. (run-shared <file>), (run-mix <seed> <n>), (compile-shared <dir> <file>): runtime cases — 16 threads released by a barrier share one Arc<NumbersAdapter> (which owns the Schema) and Arc<IndexedQuery>; each compiles the query concurrently and executes both the shared compiled query and its own; the compiled query must equal, and the rows must equal, the sequential ones (ORACLE). For runtime cases the model has nothing to compute: both sides answer the constant `ok`, the verdict comes from the oracle alone; thread interleavings are sampled, not enumerated. Queries: every file with schema_name numbers of trustfall_core/test_data/tests/valid_queries (executed) and frontend_errors (compiled only: the error must be the same)."
    }
    fn generate(&self, tier: Tier, rng: &mut Rng) -> Vec<Case> {
        let mut out = vec![];
        for (text, _) in probe_table() {
            let s = Sexp::parse(text).expect("probe text");
            let own = self.defs.keys().any(|k| text.contains(k.as_str()));
            let mut tags = vec!["sendsync"];
            if own {
                tags.push("nt:repo-definition");
            }
            if REQUIRED.contains(&text) {
                tags.push("required");
            }
            out.push(Case::new(Sexp::call("sendsync", vec![s]), &tags));
        }
        for name in self.defs.keys() {
            out.push(Case::new(Sexp::call("hashfree", vec![Sexp::atom(name.clone())]), &["hashfree", "nt:repo-definition"]));
        }
        for name in self.defs.keys() {
            out.push(Case::new(Sexp::call("immutable", vec![Sexp::atom(name.clone())]), &["immutable", "nt:repo-definition"]));
        }
        out.push(Case::new(Sexp::call("statics", vec![]), &["statics", "nt:repo-definition"]));
        let mut seen = BTreeSet::new();
        for st in &self.statics {
            if seen.insert(st.name.clone()) {
                out.push(Case::new(Sexp::call("static-ok", vec![Sexp::atom(st.name.clone())]), &["static-ok", "nt:repo-definition"]));
            }
        }
        for (a, b) in PAIRS {
            let rounds = if tier == Tier::Quick { 40 } else { 400 };
            out.push(Case::new(
                Sexp::call("run-pair", vec![Sexp::atom(*a), Sexp::atom(*b), Sexp::atom(rounds.to_string())]),
                &["run-pair", "nt:concurrent-different-queries"],
            ));
        }
        let valid = stems("valid_queries");
        // first executions of a fresh compiled query, racing: more rounds for queries with folds
        // (outputs inside folds, nested folds, fold counts), fewer for the rest of the pool
        // (recursion, optional, tags, coercions, filters)
        for s in &valid {
            let Some(t) = load("valid_queries", s) else { continue };
            let folds = t.query.matches("@fold").count();
            let extra = s.starts_with("x_");
            let rounds = match (tier, folds) {
                (Tier::Quick, _) if extra => 40,
                (_, _) if extra => 400,
                (Tier::Quick, 0) => 4,
                (Tier::Quick, _) => 40,
                (_, 0) => 20,
                (_, _) => 250,
            };
            let mut tags = vec!["run-fresh", "nt:concurrent-first-execution"];
            if folds > 0 {
                tags.push("nt:fresh-fold-query");
            }
            if folds > 1 {
                tags.push("nt:fresh-nested-or-multiple-folds");
            }
            if t.query.contains("@recurse") {
                tags.push("fresh-recurse");
            }
            if t.query.contains("@optional") {
                tags.push("fresh-optional");
            }
            if t.query.contains("@tag") {
                tags.push("fresh-tag");
            }
            if extra {
                tags.push("nt:fresh-per-row-operand");
            }
            out.push(Case::new(Sexp::call("run-fresh", vec![Sexp::atom(s.clone()), Sexp::atom(rounds.to_string())]), &tags));
        }
        let reps = if tier == Tier::Quick { 1 } else { 5 };
        for rep in 0..reps {
            for s in &valid {
                let mut a = vec![Sexp::atom(s.clone())];
                if rep > 0 {
                    a.push(Sexp::atom(rep.to_string()));
                }
                out.push(Case::new(Sexp::call("run-shared", a), &["run-shared"]));
            }
        }
        for s in stems("frontend_errors") {
            out.push(Case::new(
                Sexp::call("compile-shared", vec![Sexp::atom("frontend_errors"), Sexp::atom(s)]),
                &["compile-shared", "nt:concurrent-compile-error"],
            ));
        }
        let mixes = if tier == Tier::Quick { 2 } else { 20 };
        for _ in 0..mixes {
            let seed = rng.next_u64() % 1_000_000;
            let n = if tier == Tier::Quick { 60 } else { 300 };
            out.push(Case::new(
                Sexp::call("run-mix", vec![Sexp::atom(seed.to_string()), Sexp::atom(n.to_string())]),
                &["run-mix", "nt:concurrent-mixed-queries"],
            ));
        }
        out
    }
    fn eval(&self, request: &Sexp) -> Option<String> {
        let (h, args) = request.as_call()?;
        let bit = |b: bool| if b { "1" } else { "0" };
        match (h, args) {
            ("sendsync", [t]) => {
                let (s, y) = self.probes.get(t.to_string().as_str())?;
                Some(format!("{} {}", bit(*s), bit(*y)))
            }
            ("hashfree", [n]) => Some(bit(hash_free(&self.defs, n.as_atom()?)).to_string()),
            ("immutable", [n]) => Some(bit(immutable_from(&self.defs, n.as_atom()?)).to_string()),
            ("run-fresh", [stem, rounds]) => {
                let t = load("valid_queries", stem.as_atom()?)?;
                self.run_fresh(&request.to_string(), &[t], seed_n(rounds)?.min(5000));
                Some("ok".to_string())
            }
            ("run-pair", [a, b, rounds]) => {
                let ta = load("valid_queries", a.as_atom()?)?;
                let tb = load("valid_queries", b.as_atom()?)?;
                self.run_fresh(&request.to_string(), &[ta, tb], seed_n(rounds)?.min(5000));
                Some("ok".to_string())
            }
            ("static-ok", [n]) => {
                let l: Vec<&extract::StaticDef> = self.statics.iter().filter(|s| s.name == n.as_atom().unwrap_or("")).collect();
                if l.is_empty() {
                    Some("none".to_string())
                } else {
                    Some(bit(l.iter().all(|s| static_write_once(&self.defs, s))).to_string())
                }
            }
            ("statics", []) => Some(format!(
                "{} {}",
                self.statics.len(),
                bit(self.statics.iter().all(|s| static_write_once(&self.defs, s)))
            )),
            ("run-shared", [stem, ..]) => {
                let t = load("valid_queries", stem.as_atom()?)?;
                self.run_shared(&request.to_string(), &t, true);
                Some("ok".to_string())
            }
            ("compile-shared", [dir, stem]) => {
                let dir = dir.as_atom()?;
                if dir != "frontend_errors" && dir != "valid_queries" {
                    return None;
                }
                let t = load(dir, stem.as_atom()?)?;
                self.run_shared(&request.to_string(), &t, false);
                Some("ok".to_string())
            }
            ("run-mix", [seed, n]) => {
                self.run_mix(&request.to_string(), seed.as_atom()?.parse().ok()?, seed_n(n)?);
                Some("ok".to_string())
            }
            _ => None,
        }
    }
    fn post_tags(&self, e: &Evaluated) -> Vec<String> {
        let mut t = vec![];
        if let Some(r) = self.results.borrow().get(&e.line) {
            if r.sequential_rows > 0 {
                t.push("nt:concurrent-rows".to_string());
            }
        }
        if e.line.starts_with("(sendsync") && e.answer != "1 1" {
            t.push("not-thread-safe".to_string());
        }
        t
    }
    fn oracle(&self, evaluated: &[Evaluated]) -> Vec<OracleFailure> {
        let mut fails = vec![];
        for e in evaluated {
            let Some((h, args)) = e.request.as_call() else { continue };
            if h == "sendsync" {
                if let [t] = args {
                    if REQUIRED.contains(&t.to_string().as_str()) && e.answer != "1 1" {
                        fails.push(OracleFailure {
                            key: "not-send-sync".to_string(),
                            detail: format!("rustc: {} is (Send, Sync) = {}", t, e.answer),
                            requests: vec![e.line.clone()],
                        });
                    }
                }
            }
            if let Some(r) = self.results.borrow().get(&e.line) {
                if r.compile_mismatch + r.rows_mismatch_shared_query + r.rows_mismatch_own_query > 0 {
                    let key = if r.compile_mismatch > 0 { "concurrent-compile-differs" } else { "concurrent-rows-differ" };
                    fails.push(OracleFailure {
                        key: key.to_string(),
                        detail: format!(
                            "{} of {} threads: compile mismatches {}, row mismatches (shared query) {}, (own query) {}; {}",
                            r.compile_mismatch + r.rows_mismatch_shared_query + r.rows_mismatch_own_query,
                            r.threads,
                            r.compile_mismatch,
                            r.rows_mismatch_shared_query,
                            r.rows_mismatch_own_query,
                            r.detail
                        ),
                        requests: vec![e.line.clone()],
                    });
                }
            }
        }
        fails
    }
    fn extra_stats(&self, evaluated: &[Evaluated]) -> serde_json::Value {
        let res = self.results.borrow();
        let count = |p: &str| evaluated.iter().filter(|e| e.line.starts_with(p)).count();
        serde_json::json!({
            "threads": THREADS,
            "probe_types": count("(sendsync"),
            "definitions_extracted": self.defs.len(),
            "run_fresh": count("(run-fresh"), "fresh_threads": FRESH_THREADS,
            "fresh_rounds": evaluated.iter().filter_map(|e| e.request.as_call()).filter(|(h, _)| *h == "run-fresh").filter_map(|(_, a)| a.get(1)?.as_atom()?.parse::<usize>().ok()).sum::<usize>(),
            "run_shared": count("(run-shared"), "compile_shared": count("(compile-shared"), "run_mix": count("(run-mix"),
            "sequential_rows_reproduced_concurrently": res.values().map(|r| r.sequential_rows).sum::<usize>(),
            "thread_runs": res.len() * THREADS,
        })
    }
}

fn seed_n(n: &Sexp) -> Option<usize> {
    let n: usize = n.as_atom()?.parse().ok()?;
    (n <= 100_000).then_some(n)
}

fn main() {
    let args: Vec<String> = std::env::args().collect();
    if args.get(1).map(|s| s.as_str()) == Some("gen-typedefs") {
        let repo = args.get(2).cloned().unwrap_or_else(extract::default_repo);
        let out = args.get(3).map(|s| s.as_str()).unwrap_or(extract::DEFAULT_OUT);
        match extract::generate(&repo, out) {
            Ok(n) => println!("gen-typedefs: {n} type definitions -> {out}"),
            Err(e) => {
                eprintln!("gen-typedefs: {e}");
                std::process::exit(1);
            }
        }
        return;
    }
    main_for(vec![Box::new(C24::new())]);
}
