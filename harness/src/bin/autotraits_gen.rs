//! C24 / C14 — extractor: reads the Rust sources that define `Schema`, `IndexedQuery`, `IRQuery`,
//! `FieldValue`, `Type`, `InterpretedQuery`, `DataContext` from /repo's *current working tree* and
//! writes `lean/TrustfallModel/Generated/TypeDefs.lean`: every struct / enum / type alias as a list of
//! field type expressions (`TF.AutoTraits.TyExpr`).  Deterministic (sorted by name), no dependency on
//! compiling /repo (pure `syn` parse), so that the Lean theorems are re-checked on the current
//! definitions even when the compile-time assertions of `autotraits.rs` no longer build.
//!
//! Used stand-alone (`autotraits_gen [repo-root] [out-file]`, wired as `lean_pre` in cfg/C24.json)
//! and as a module of `autotraits.rs` (`autotraits gen-typedefs`).
use std::collections::BTreeMap;
use std::fmt::Write as _;

pub const SOURCES: &[&str] = &[
    "ir/mod.rs",
    "ir/indexed.rs",
    "ir/value.rs",
    "ir/types/base.rs",
    "ir/types/named_typed.rs",
    "schema/mod.rs",
    "interpreter/mod.rs",
];

/// Root of the repository under test: `VERIF_REPO_ROOT` (set by ./mutcheck to its private copy),
/// default `/repo`.
pub fn default_repo() -> String {
    std::env::var("VERIF_REPO_ROOT").unwrap_or_else(|_| "/repo".to_string())
}
pub const DEFAULT_OUT: &str = concat!(env!("CARGO_MANIFEST_DIR"), "/../lean/TrustfallModel/Generated/TypeDefs.lean");

#[derive(Debug, Clone, PartialEq)]
pub enum Ty {
    Path(String, Vec<Ty>),
    Ref(bool, Box<Ty>),
    Ptr(Box<Ty>),
    Tuple(Vec<Ty>),
    Slice(Box<Ty>),
    Dyn(bool, bool),
    FnPtr,
    Other(String),
}

#[derive(Debug, Clone)]
pub struct Def {
    pub name: String,
    pub params: Vec<String>,
    pub fields: Vec<(String, Ty)>,
    pub kind: &'static str,
    pub src: String,
}

fn bounds_send_sync<'a>(bounds: impl Iterator<Item = &'a syn::TypeParamBound>) -> (bool, bool) {
    let mut s = (false, false);
    for b in bounds {
        if let syn::TypeParamBound::Trait(t) = b {
            match t.path.segments.last().map(|x| x.ident.to_string()).as_deref() {
                Some("Send") => s.0 = true,
                Some("Sync") => s.1 = true,
                _ => {}
            }
        }
    }
    s
}

pub fn convert(t: &syn::Type) -> Ty {
    match t {
        syn::Type::Path(p) if p.qself.is_none() => {
            let seg = p.path.segments.last().expect("empty path");
            let mut args = vec![];
            match &seg.arguments {
                syn::PathArguments::None => {}
                syn::PathArguments::AngleBracketed(a) => {
                    for g in &a.args {
                        match g {
                            syn::GenericArgument::Type(t) => args.push(convert(t)),
                            syn::GenericArgument::Lifetime(_) | syn::GenericArgument::Const(_) => {}
                            // `Iterator<Item = T>`-style bindings only occur under `dyn`
                            _ => args.push(Ty::Other("generic-argument".into())),
                        }
                    }
                }
                syn::PathArguments::Parenthesized(_) => return Ty::Other("fn-trait-sugar".into()),
            }
            Ty::Path(seg.ident.to_string(), args)
        }
        syn::Type::Path(_) => Ty::Other("qualified-path".into()),
        syn::Type::Reference(r) => Ty::Ref(r.mutability.is_some(), Box::new(convert(&r.elem))),
        syn::Type::Ptr(p) => Ty::Ptr(Box::new(convert(&p.elem))),
        syn::Type::Tuple(t) => Ty::Tuple(t.elems.iter().map(convert).collect()),
        syn::Type::Slice(s) => Ty::Slice(Box::new(convert(&s.elem))),
        syn::Type::Array(a) => Ty::Slice(Box::new(convert(&a.elem))),
        syn::Type::Paren(p) => convert(&p.elem),
        syn::Type::Group(g) => convert(&g.elem),
        syn::Type::TraitObject(o) => {
            let (s, y) = bounds_send_sync(o.bounds.iter());
            Ty::Dyn(s, y)
        }
        syn::Type::BareFn(_) => Ty::FnPtr,
        syn::Type::ImplTrait(_) => Ty::Other("impl-trait".into()),
        syn::Type::Never(_) => Ty::Tuple(vec![]),
        _ => Ty::Other("unsupported-type-syntax".into()),
    }
}

fn type_params(g: &syn::Generics) -> Vec<String> {
    g.params
        .iter()
        .filter_map(|p| if let syn::GenericParam::Type(t) = p { Some(t.ident.to_string()) } else { None })
        .collect()
}

fn fields_of(prefix: &str, f: &syn::Fields) -> Vec<(String, Ty)> {
    match f {
        syn::Fields::Named(n) => {
            n.named.iter().map(|f| (format!("{prefix}{}", f.ident.as_ref().unwrap()), convert(&f.ty))).collect()
        }
        syn::Fields::Unnamed(u) => {
            u.unnamed.iter().enumerate().map(|(i, f)| (format!("{prefix}{i}"), convert(&f.ty))).collect()
        }
        syn::Fields::Unit => vec![],
    }
}

fn is_cfg_test(attrs: &[syn::Attribute]) -> bool {
    attrs.iter().any(|a| {
        a.path().is_ident("cfg")
            && a.meta
                .require_list()
                .map(|l| {
                    let t = l.tokens.to_string();
                    t.contains("test") && !t.contains("not")
                })
                .unwrap_or(false)
    })
}

fn collect(items: &[syn::Item], src: &str, out: &mut Vec<Def>) {
    for it in items {
        match it {
            syn::Item::Struct(s) if !is_cfg_test(&s.attrs) => out.push(Def {
                name: s.ident.to_string(),
                params: type_params(&s.generics),
                fields: fields_of("", &s.fields),
                kind: "struct",
                src: src.to_string(),
            }),
            syn::Item::Enum(e) if !is_cfg_test(&e.attrs) => out.push(Def {
                name: e.ident.to_string(),
                params: type_params(&e.generics),
                fields: e.variants.iter().flat_map(|v| fields_of(&format!("{}.", v.ident), &v.fields)).collect(),
                kind: "enum",
                src: src.to_string(),
            }),
            syn::Item::Union(u) if !is_cfg_test(&u.attrs) => out.push(Def {
                name: u.ident.to_string(),
                params: type_params(&u.generics),
                fields: u
                    .fields
                    .named
                    .iter()
                    .map(|f| (f.ident.as_ref().unwrap().to_string(), convert(&f.ty)))
                    .collect(),
                kind: "union",
                src: src.to_string(),
            }),
            syn::Item::Type(t) if !is_cfg_test(&t.attrs) => out.push(Def {
                name: t.ident.to_string(),
                params: type_params(&t.generics),
                fields: vec![("alias".to_string(), convert(&t.ty))],
                kind: "alias",
                src: src.to_string(),
            }),
            syn::Item::Mod(m) if !is_cfg_test(&m.attrs) => {
                if let Some((_, items)) = &m.content {
                    collect(items, src, out);
                }
            }
            _ => {}
        }
    }
}

pub fn extract(repo: &str) -> Result<Vec<Def>, String> {
    let mut defs = vec![];
    for rel in SOURCES {
        let path = format!("{repo}/trustfall_core/src/{rel}");
        let text = std::fs::read_to_string(&path).map_err(|e| format!("{path}: {e}"))?;
        let file = syn::parse_file(&text).map_err(|e| format!("{path}: {e}"))?;
        collect(&file.items, rel, &mut defs);
    }
    let mut by_name: BTreeMap<String, Def> = BTreeMap::new();
    for d in defs {
        if let Some(prev) = by_name.get(&d.name) {
            return Err(format!("type `{}` is defined in both {} and {}", d.name, prev.src, d.src));
        }
        by_name.insert(d.name.clone(), d);
    }
    Ok(by_name.into_values().collect())
}

// ------------------------------------------------------------------------------------------------
// statics: every `static` item and `thread_local!` block of trustfall_core/src that is compiled
// outside `#[cfg(test)]`, found by walking the module tree from lib.rs (items inside function
// bodies and impl blocks included)
// ------------------------------------------------------------------------------------------------
#[derive(Debug, Clone)]
pub struct StaticDef {
    pub name: String,
    pub ty: Ty,
    pub mutable: bool,
    /// `static`, `thread_local` or the name of an unexpanded macro that declares statics
    pub kind: String,
    pub src: String,
}

struct StaticVisitor<'a> {
    src: &'a str,
    out: &'a mut Vec<StaticDef>,
    /// `mod x;` declarations to follow: (name, explicit #[path])
    children: Vec<(String, Option<String>)>,
}

fn has_test_attr(attrs: &[syn::Attribute]) -> bool {
    is_cfg_test(attrs) || attrs.iter().any(|a| a.path().is_ident("test"))
}

impl<'ast, 'a> syn::visit::Visit<'ast> for StaticVisitor<'a> {
    fn visit_item_static(&mut self, i: &'ast syn::ItemStatic) {
        if has_test_attr(&i.attrs) {
            return;
        }
        self.out.push(StaticDef {
            name: i.ident.to_string(),
            ty: convert(&i.ty),
            mutable: matches!(i.mutability, syn::StaticMutability::Mut(_)),
            kind: "static".into(),
            src: self.src.to_string(),
        });
        syn::visit::visit_item_static(self, i);
    }
    fn visit_item_mod(&mut self, m: &'ast syn::ItemMod) {
        if has_test_attr(&m.attrs) {
            return;
        }
        if m.content.is_none() {
            let path = m.attrs.iter().find(|a| a.path().is_ident("path")).and_then(|a| {
                if let syn::Meta::NameValue(nv) = &a.meta {
                    if let syn::Expr::Lit(syn::ExprLit { lit: syn::Lit::Str(s), .. }) = &nv.value {
                        return Some(s.value());
                    }
                }
                None
            });
            self.children.push((m.ident.to_string(), path));
        }
        syn::visit::visit_item_mod(self, m);
    }
    fn visit_item_fn(&mut self, f: &'ast syn::ItemFn) {
        if !has_test_attr(&f.attrs) {
            syn::visit::visit_item_fn(self, f);
        }
    }
    fn visit_item_impl(&mut self, f: &'ast syn::ItemImpl) {
        if !has_test_attr(&f.attrs) {
            syn::visit::visit_item_impl(self, f);
        }
    }
    fn visit_macro(&mut self, m: &'ast syn::Macro) {
        let name = m.path.segments.last().map(|s| s.ident.to_string()).unwrap_or_default();
        if name == "thread_local" || name == "lazy_static" {
            // the body is not expanded: record the block itself (one entry per `static` keyword)
            let body = m.tokens.to_string();
            let n = body.matches("static ").count().max(1);
            for k in 0..n {
                self.out.push(StaticDef {
                    name: format!("{name}#{k}"),
                    ty: Ty::Other(format!("{name}!")),
                    mutable: false,
                    kind: name.clone(),
                    src: self.src.to_string(),
                });
            }
        }
        syn::visit::visit_macro(self, m);
    }
}

fn walk_module(src_root: &str, rel: &str, out: &mut Vec<StaticDef>) -> Result<(), String> {
    use syn::visit::Visit;
    let path = format!("{src_root}/{rel}");
    let text = std::fs::read_to_string(&path).map_err(|e| format!("{path}: {e}"))?;
    let file = syn::parse_file(&text).map_err(|e| format!("{path}: {e}"))?;
    let mut v = StaticVisitor { src: rel, out, children: vec![] };
    v.visit_file(&file);
    let children = std::mem::take(&mut v.children);
    // directory that holds this module's children
    let p = std::path::Path::new(rel);
    let stem = p.file_stem().and_then(|s| s.to_str()).unwrap_or("");
    let parent = p.parent().map(|d| d.to_string_lossy().to_string()).unwrap_or_default();
    let dir = if stem == "mod" || stem == "lib" || stem == "main" {
        parent.clone()
    } else if parent.is_empty() {
        stem.to_string()
    } else {
        format!("{parent}/{stem}")
    };
    for (name, explicit) in children {
        let candidates: Vec<String> = match explicit {
            Some(pth) => vec![if parent.is_empty() { pth } else { format!("{parent}/{pth}") }],
            None => {
                let base = if dir.is_empty() { name.clone() } else { format!("{dir}/{name}") };
                vec![format!("{base}.rs"), format!("{base}/mod.rs")]
            }
        };
        let Some(found) = candidates.iter().find(|c| std::path::Path::new(&format!("{src_root}/{c}")).exists()) else {
            return Err(format!("module `{name}` declared in {rel} not found (tried {candidates:?})"));
        };
        walk_module(src_root, found, out)?;
    }
    Ok(())
}

pub fn extract_statics(repo: &str) -> Result<Vec<StaticDef>, String> {
    let mut out = vec![];
    walk_module(&format!("{repo}/trustfall_core/src"), "lib.rs", &mut out)?;
    out.sort_by(|a, b| (a.src.as_str(), a.name.as_str()).cmp(&(b.src.as_str(), b.name.as_str())));
    Ok(out)
}

fn lean_str(s: &str) -> String {
    format!("\"{}\"", s.replace('\\', "\\\\").replace('"', "\\\""))
}

pub fn lean_ty(t: &Ty) -> String {
    match t {
        Ty::Path(n, args) => {
            format!(".path {} [{}]", lean_str(n), args.iter().map(lean_ty).collect::<Vec<_>>().join(", "))
        }
        Ty::Ref(m, t) => format!(".ref {m} ({})", lean_ty(t)),
        Ty::Ptr(t) => format!(".ptr ({})", lean_ty(t)),
        Ty::Tuple(ts) => format!(".tuple [{}]", ts.iter().map(lean_ty).collect::<Vec<_>>().join(", ")),
        Ty::Slice(t) => format!(".slice ({})", lean_ty(t)),
        Ty::Dyn(s, y) => format!(".dynTrait {s} {y}"),
        Ty::FnPtr => ".fnPtr".to_string(),
        Ty::Other(w) => format!(".other {}", lean_str(w)),
    }
}

pub fn render(defs: &[Def], statics: &[StaticDef]) -> String {
    let mut o = String::new();
    o.push_str("/-\nGENERATED — do not edit.  Regenerated on every `./check C24` run (cfg/C24.json `lean_pre`) by\n");
    o.push_str("`harness/src/bin/autotraits_gen.rs` from /repo's current working tree:\n");
    for s in SOURCES {
        let _ = writeln!(o, "  trustfall_core/src/{s}");
    }
    o.push_str("Every struct / enum / type alias of these files as field type expressions, sorted by name;\nplus every `static` / `thread_local!` of the whole crate (trustfall_core/src, outside cfg(test)).\n-/\n");
    o.push_str("import TrustfallModel.Model.AutoTraits\n\nnamespace TF.Generated\nopen TF.AutoTraits\n\n");
    for d in defs {
        let _ = writeln!(o, "/-- `{}` {} ({}) -/", d.name, d.kind, d.src);
        let _ = writeln!(o, "def def_{} : TypeDef :=", d.name);
        let _ = writeln!(
            o,
            "  {{ name := {}, params := [{}], kind := {}, src := {},",
            lean_str(&d.name),
            d.params.iter().map(|p| lean_str(p)).collect::<Vec<_>>().join(", "),
            lean_str(d.kind),
            lean_str(&d.src)
        );
        o.push_str("    fields := [");
        for (i, (n, t)) in d.fields.iter().enumerate() {
            if i > 0 {
                o.push(',');
            }
            let _ = write!(o, "\n      ⟨{}, {}⟩", lean_str(n), lean_ty(t));
        }
        o.push_str("] }\n\n");
    }
    o.push_str("def typeDefs : Defs := [\n");
    for (i, d) in defs.iter().enumerate() {
        let _ = writeln!(o, "  def_{}{}", d.name, if i + 1 < defs.len() { "," } else { "" });
    }
    o.push_str("]\n\n");
    o.push_str("/-- Every `static` item / `thread_local!` block of trustfall_core/src compiled outside `#[cfg(test)]`\n(module tree walked from lib.rs, function bodies included), sorted by file and name. -/\n");
    o.push_str("def statics : List StaticDef := [");
    for (i, st) in statics.iter().enumerate() {
        if i > 0 {
            o.push(',');
        }
        let _ = write!(
            o,
            "\n  {{ name := {}, kind := {}, mutable := {}, src := {},\n    ty := {} }}",
            lean_str(&st.name),
            lean_str(&st.kind),
            st.mutable,
            lean_str(&st.src),
            lean_ty(&st.ty)
        );
    }
    o.push_str("]\n\nend TF.Generated\n");
    o
}

/// Regenerate the Lean file; rewrites it only when the content changed (keeps Lean's build cache).
pub fn generate(repo: &str, out: &str) -> Result<usize, String> {
    let defs = extract(repo)?;
    let statics = extract_statics(repo)?;
    let text = render(&defs, &statics);
    if let Some(dir) = std::path::Path::new(out).parent() {
        std::fs::create_dir_all(dir).map_err(|e| e.to_string())?;
    }
    if std::fs::read_to_string(out).ok().as_deref() != Some(text.as_str()) {
        std::fs::write(out, text).map_err(|e| format!("{out}: {e}"))?;
    }
    Ok(defs.len())
}

#[allow(dead_code)]
fn main() {
    let args: Vec<String> = std::env::args().collect();
    let repo = args.get(1).cloned().unwrap_or_else(default_repo);
    let out = args.get(2).map(|s| s.as_str()).unwrap_or(DEFAULT_OUT);
    match generate(&repo, out) {
        Ok(n) => println!("autotraits_gen: {n} type definitions -> {out}"),
        Err(e) => {
            eprintln!("autotraits_gen: {e}");
            std::process::exit(1);
        }
    }
}
