//! C06 — candidate values: `CandidateValue::{intersect, normalize, exclude_single_value}` and
//! `Range::{new, intersect, contains}` through the `verif` hooks; correspondence requests and the
//! set-law oracle (intersection exact, normalisation membership-preserving, exclusion between
//! "everything else" and the original).
use std::collections::BTreeSet;
use std::ops::Bound;
use std::sync::Arc;

use trustfall_core::interpreter::verif_candidates as hooks;
use trustfall_core::interpreter::{CandidateValue, Range};
use trustfall_core::ir::FieldValue;

use tfharness::framework::*;
use tfharness::rng::Rng;
use tfharness::sexp::Sexp;
use tfharness::values::*;

type Cand = CandidateValue<FieldValue>;

pub struct C06;

// ---------------------------------------------------------------------------------------------
// protocol

fn parse_bound(s: &Sexp) -> Option<Bound<FieldValue>> {
    if s.as_atom() == Some("unb") {
        return Some(Bound::Unbounded);
    }
    match s.as_call()? {
        ("inc", [v]) => Some(Bound::Included(sexp_to_value(v)?)),
        ("exc", [v]) => Some(Bound::Excluded(sexp_to_value(v)?)),
        _ => None,
    }
}

/// Every `(range …)` goes through `Range::new` (hook `range_new`): a null bound panics here, which the
/// run loop turns into the answer `panic`.
fn parse_cand(s: &Sexp) -> Option<Cand> {
    match s.as_atom() {
        Some("imp") => return Some(CandidateValue::Impossible),
        Some("all") => return Some(CandidateValue::All),
        Some(_) => return None,
        None => {}
    }
    match s.as_call()? {
        ("single", [v]) => Some(CandidateValue::Single(sexp_to_value(v)?)),
        ("multi", vs) => Some(CandidateValue::Multiple(vs.iter().map(sexp_to_value).collect::<Option<Vec<_>>>()?)),
        ("range", [s, e, n]) => {
            let (s, e) = (parse_bound(s)?, parse_bound(e)?);
            let n = match n.as_atom()? {
                "1" => true,
                "0" => false,
                _ => return None,
            };
            Some(CandidateValue::Range(hooks::range_new(s, e, n)))
        }
        _ => None,
    }
}

fn bound_to_sexp(b: Bound<&FieldValue>) -> Sexp {
    match b {
        Bound::Unbounded => Sexp::atom("unb"),
        Bound::Included(v) => Sexp::call("inc", vec![value_to_sexp(v)]),
        Bound::Excluded(v) => Sexp::call("exc", vec![value_to_sexp(v)]),
    }
}

fn range_to_sexp(r: &Range<FieldValue>) -> Sexp {
    Sexp::call(
        "range",
        vec![
            bound_to_sexp(r.start_bound()),
            bound_to_sexp(r.end_bound()),
            Sexp::atom(if r.null_included() { "1" } else { "0" }),
        ],
    )
}

fn cand_to_sexp(c: &Cand) -> Sexp {
    match c {
        CandidateValue::Impossible => Sexp::atom("imp"),
        CandidateValue::All => Sexp::atom("all"),
        CandidateValue::Single(v) => Sexp::call("single", vec![value_to_sexp(v)]),
        CandidateValue::Multiple(vs) => Sexp::call("multi", vs.iter().map(value_to_sexp).collect()),
        CandidateValue::Range(r) => range_to_sexp(r),
        _ => unreachable!("non_exhaustive CandidateValue variant"),
    }
}

fn variant(c: &Cand) -> &'static str {
    match c {
        CandidateValue::Impossible => "imp",
        CandidateValue::All => "all",
        CandidateValue::Single(_) => "single",
        CandidateValue::Multiple(_) => "multi",
        CandidateValue::Range(_) => "range",
        _ => "other",
    }
}

/// Which values a candidate stands for, on the implementation: `Range::contains` (public),
/// `Single`/`Multiple` by `FieldValue`'s `==`.
fn mem(c: &Cand, v: &FieldValue) -> bool {
    match c {
        CandidateValue::Impossible => false,
        CandidateValue::All => true,
        CandidateValue::Single(s) => s == v,
        CandidateValue::Multiple(vs) => vs.contains(v),
        CandidateValue::Range(r) => r.contains(v),
        _ => unreachable!("non_exhaustive CandidateValue variant"),
    }
}

fn intersect(a: &Cand, b: &Cand) -> Cand {
    let mut x = a.clone();
    hooks::intersect(&mut x, b.clone());
    x
}

fn normalize(a: &Cand) -> Cand {
    let mut x = a.clone();
    hooks::normalize(&mut x);
    x
}

fn exclude(a: &Cand, v: &FieldValue) -> Cand {
    let mut x = a.clone();
    hooks::exclude_single_value(&mut x, v);
    x
}

// ---------------------------------------------------------------------------------------------
// generation

fn s(x: &str) -> FieldValue {
    FieldValue::from(x)
}
fn i(x: i64) -> FieldValue {
    FieldValue::Int64(x)
}
fn u(x: u64) -> FieldValue {
    FieldValue::Uint64(x)
}

/// Values usable as range bounds / elements: boundary integers in both representations, strings.
fn bound_pool() -> Vec<FieldValue> {
    let mut v = boundary_ints();
    v.extend([s(""), s("a"), s("ab"), s("b")]);
    v
}

/// Fixed probe pool: null, every boundary integer in both representations, a few more integers,
/// strings, and values of other kinds (membership of those is decided by the cross-kind order).
fn probe_pool() -> Vec<FieldValue> {
    let mut v = vec![FieldValue::Null];
    v.extend(boundary_ints());
    v.extend([i(3), u(3), i(-3), i(5), u(5)]);
    v.extend([s(""), s("a"), s("aa"), s("ab"), s("b"), s("c")]);
    v.push(FieldValue::Boolean(true));
    v.push(FieldValue::Float64(1.5));
    v.push(FieldValue::Enum(Arc::from("a")));
    v.push(FieldValue::List(vec![i(1)].into()));
    v
}

/// The other integer representation of the same number and the neighbours ±1 in both representations.
fn around(v: &FieldValue) -> Vec<FieldValue> {
    let n: i128 = match v {
        FieldValue::Int64(x) => *x as i128,
        FieldValue::Uint64(x) => *x as i128,
        FieldValue::String(x) => {
            return vec![s(&format!("{x}\u{0}")), s(&format!("{x}a"))];
        }
        _ => return vec![],
    };
    let mut out = vec![];
    for m in [n - 1, n, n + 1] {
        if let Ok(x) = i64::try_from(m) {
            out.push(i(x));
        }
        if let Ok(x) = u64::try_from(m) {
            out.push(u(x));
        }
    }
    out
}

fn mentioned(c: &Cand) -> Vec<FieldValue> {
    let mut out = vec![];
    match c {
        CandidateValue::Single(v) => out.push(v.clone()),
        CandidateValue::Multiple(vs) => out.extend(vs.iter().cloned()),
        CandidateValue::Range(r) => {
            for b in [r.start_bound(), r.end_bound()] {
                if let Bound::Included(v) | Bound::Excluded(v) = b {
                    out.push(v.clone());
                }
            }
        }
        _ => {}
    }
    out
}

/// Probes used by the oracle for an operation on the given candidates: the fixed pool, every value the
/// operands mention, the same numbers in the other representation and their neighbours.
fn probes_for(cands: &[&Cand], extra: &[&FieldValue]) -> Vec<FieldValue> {
    let mut seen = BTreeSet::new();
    let mut out = vec![];
    let mut push = |v: FieldValue, out: &mut Vec<FieldValue>| {
        if seen.insert(render_value(&v)) {
            out.push(v);
        }
    };
    for v in probe_pool() {
        push(v, &mut out);
    }
    let mut ms: Vec<FieldValue> = cands.iter().flat_map(|c| mentioned(c)).collect();
    ms.extend(extra.iter().map(|v| (*v).clone()));
    for m in ms {
        for a in around(&m) {
            push(a, &mut out);
        }
        push(m, &mut out);
    }
    out
}

fn range(sb: Bound<FieldValue>, eb: Bound<FieldValue>, n: bool) -> Cand {
    CandidateValue::Range(hooks::range_new(sb, eb, n))
}

fn core_grid() -> Vec<Cand> {
    use Bound::{Excluded as E, Included as I, Unbounded as U};
    use CandidateValue::*;
    let max = i64::MAX;
    let mut g: Vec<Cand> = vec![Impossible, All];
    for v in [
        FieldValue::Null,
        i(-1),
        i(0),
        u(0),
        i(1),
        u(1),
        i(2),
        i(max),
        u(max as u64),
        u(max as u64 + 1),
        u(u64::MAX),
        i(i64::MIN),
        s(""),
        s("a"),
        s("b"),
        FieldValue::Boolean(true),
    ] {
        g.push(Single(v));
    }
    for vs in [
        vec![],
        vec![FieldValue::Null],
        vec![i(1)],
        vec![i(1), u(1)],
        vec![FieldValue::Null, i(1)],
        vec![FieldValue::Null, FieldValue::Null],
        vec![i(1), FieldValue::Null, u(2)],
        vec![i(1), i(2), i(3)],
        vec![u(2), i(1), i(1)],
        vec![i(max), u(max as u64), u(u64::MAX)],
        vec![i(-1), u(max as u64 + 1)],
        vec![s("a"), s("b")],
        vec![i(1), s("a")],
        vec![FieldValue::Null, s("a"), u(2)],
        vec![i(0), u(0), i(0)],
    ] {
        g.push(Multiple(vs));
    }
    for n in [false, true] {
        g.push(range(U, U, n));
        // point ranges in equal and mixed representations; empty point-like ranges
        g.push(range(I(i(1)), I(i(1)), n));
        g.push(range(I(i(1)), I(u(1)), n));
        g.push(range(I(u(1)), I(i(1)), n));
        g.push(range(E(i(1)), E(u(1)), n));
        g.push(range(I(i(1)), E(i(1)), n));
        g.push(range(E(u(1)), I(i(1)), n));
        g.push(range(I(i(2)), I(i(1)), n));
        g.push(range(E(i(2)), I(u(1)), n));
        // half-bounded, same number included / excluded in either representation
        g.push(range(I(i(1)), U, n));
        g.push(range(E(i(1)), U, n));
        g.push(range(I(u(1)), U, n));
        g.push(range(E(u(1)), U, n));
        g.push(range(U, I(i(1)), n));
        g.push(range(U, E(i(1)), n));
        g.push(range(U, I(u(1)), n));
        g.push(range(U, E(u(1)), n));
        // proper intervals
        g.push(range(I(i(0)), I(u(2)), n));
        g.push(range(E(i(0)), E(u(2)), n));
        g.push(range(I(u(0)), E(i(2)), n));
        g.push(range(E(u(0)), I(i(2)), n));
        g.push(range(I(i(-1)), I(u(u64::MAX)), n));
        g.push(range(I(u(max as u64)), I(u(max as u64 + 1)), n));
        g.push(range(E(i(max)), E(u(max as u64 + 1)), n));
        g.push(range(I(i(i64::MIN)), E(i(-1)), n));
        // strings and mixed-kind bounds
        g.push(range(I(s("a")), I(s("b")), n));
        g.push(range(E(s("a")), U, n));
        g.push(range(U, E(s("b")), n));
        g.push(range(I(i(1)), I(s("a")), n));
        g.push(range(I(s("a")), I(i(1)), n));
    }
    g
}

fn random_bound(rng: &mut Rng, pool: &[FieldValue]) -> Bound<FieldValue> {
    match rng.below(5) {
        0 => Bound::Unbounded,
        1 | 2 => Bound::Included(rng.pick(pool).clone()),
        _ => Bound::Excluded(rng.pick(pool).clone()),
    }
}

fn random_cand(rng: &mut Rng, pool: &[FieldValue]) -> Cand {
    // mostly integers, so that pairs interact; strings and null (in discrete variants) regularly
    let elem = |rng: &mut Rng| -> FieldValue {
        match rng.below(12) {
            0 => FieldValue::Null,
            1..=3 => rng.pick(pool).clone(),
            _ => {
                let n = rng.below(6) as i64 - 1;
                if n >= 0 && rng.chance(1, 2) { u(n as u64) } else { i(n) }
            }
        }
    };
    let small: Vec<FieldValue> = vec![i(-1), i(0), u(0), i(1), u(1), i(2), u(2), i(3), u(3), i(4), u(4)];
    match rng.below(10) {
        0 | 1 => CandidateValue::Single(elem(rng)),
        2..=4 => {
            let n = rng.below(4);
            CandidateValue::Multiple((0..n).map(|_| elem(rng)).collect())
        }
        _ => {
            let p: &[FieldValue] = if rng.chance(1, 2) { &small } else { pool };
            let (mut sb, mut eb) = (random_bound(rng, p), random_bound(rng, p));
            // mostly non-empty: put the bounds in order three times out of four
            if let (Bound::Included(x) | Bound::Excluded(x), Bound::Included(y) | Bound::Excluded(y)) = (&sb, &eb) {
                if x > y && rng.chance(3, 4) {
                    std::mem::swap(&mut sb, &mut eb);
                }
            }
            range(sb, eb, rng.chance(1, 2))
        }
    }
}

fn grid(tier: Tier, rng: &mut Rng) -> Vec<Cand> {
    let target = if tier == Tier::Quick { 150 } else { 1000 };
    let pool = bound_pool();
    let mut seen = BTreeSet::new();
    let mut g = vec![];
    for c in core_grid() {
        if seen.insert(cand_to_sexp(&c).to_string()) {
            g.push(c);
        }
    }
    let mut guard = 0;
    while g.len() < target && guard < 100 * target {
        guard += 1;
        let c = random_cand(rng, &pool);
        if seen.insert(cand_to_sexp(&c).to_string()) {
            g.push(c);
        }
    }
    g
}

/// Values to exclude from a candidate: a fixed pool plus everything the candidate mentions, in both
/// integer representations (so that `==`-but-differently-represented bounds and elements are hit).
fn exclusions_for(c: &Cand) -> Vec<FieldValue> {
    let mut seen = BTreeSet::new();
    let mut out = vec![];
    let fixed = [FieldValue::Null, i(0), u(1), i(1), i(2), u(u64::MAX), i(i64::MIN), s("a"), s("zz"), FieldValue::Boolean(true)];
    for v in fixed.into_iter().chain(mentioned(c).iter().flat_map(|m| {
        let mut a = around(m);
        a.push(m.clone());
        a
    })) {
        if seen.insert(render_value(&v)) {
            out.push(v);
        }
    }
    out
}

// ---------------------------------------------------------------------------------------------

fn fail(key: &str, detail: String, requests: Vec<String>) -> OracleFailure {
    OracleFailure { key: key.to_string(), detail, requests }
}

fn mem_req(c: &Cand, p: &FieldValue) -> String {
    Sexp::call("cand-mem", vec![cand_to_sexp(c), value_to_sexp(p)]).to_string()
}

fn null_bound(c: &Cand) -> bool {
    mentioned(c).iter().any(|v| matches!(v, FieldValue::Null)) && matches!(c, CandidateValue::Range(_))
}

impl C06 {
    /// The set laws for one request, evaluated on the implementation only.
    fn laws(&self, line: &str, request: &Sexp, fails: &mut Vec<OracleFailure>) {
        let Some((h, args)) = request.as_call() else { return };
        match (h, args) {
            ("cand-intersect", [a, b]) => {
                let (Some(a), Some(b)) = (parse_cand(a), parse_cand(b)) else { return };
                let r = intersect(&a, &b);
                if null_bound(&r) {
                    fails.push(fail("result-range-null-bound", cand_to_sexp(&r).to_string(), vec![line.to_string()]));
                }
                for p in probes_for(&[&a, &b, &r], &[]) {
                    let (ma, mb, mr) = (mem(&a, &p), mem(&b, &p), mem(&r, &p));
                    if mr != (ma && mb) {
                        fails.push(fail(
                            "intersect-not-exact",
                            format!(
                                "probe {} in a: {ma}, in b: {mb}, in a∩b = {}: {mr}",
                                render_value(&p),
                                cand_to_sexp(&r)
                            ),
                            vec![line.to_string(), mem_req(&a, &p), mem_req(&b, &p), mem_req(&r, &p)],
                        ));
                        break;
                    }
                }
            }
            ("cand-range-intersect", [a, b]) => {
                let (Some(CandidateValue::Range(ra)), Some(CandidateValue::Range(rb))) = (parse_cand(a), parse_cand(b)) else {
                    return;
                };
                let mut rr = ra.clone();
                hooks::range_intersect(&mut rr, rb.clone());
                let (a, b, r) = (CandidateValue::Range(ra), CandidateValue::Range(rb), CandidateValue::Range(rr));
                for p in probes_for(&[&a, &b], &[]) {
                    let (ma, mb, mr) = (mem(&a, &p), mem(&b, &p), mem(&r, &p));
                    if mr != (ma && mb) {
                        fails.push(fail(
                            "intersect-not-exact",
                            format!(
                                "Range::intersect: probe {} in a: {ma}, in b: {mb}, in result {}: {mr}",
                                render_value(&p),
                                cand_to_sexp(&r)
                            ),
                            vec![line.to_string(), mem_req(&a, &p), mem_req(&b, &p), mem_req(&r, &p)],
                        ));
                        break;
                    }
                }
            }
            ("cand-normalize", [a]) => {
                let Some(a) = parse_cand(a) else { return };
                let r = normalize(&a);
                if null_bound(&r) {
                    fails.push(fail("result-range-null-bound", cand_to_sexp(&r).to_string(), vec![line.to_string()]));
                }
                for p in probes_for(&[&a, &r], &[]) {
                    let (ma, mr) = (mem(&a, &p), mem(&r, &p));
                    if ma != mr {
                        fails.push(fail(
                            "normalize-changes-membership",
                            format!("probe {} in a: {ma}, in normalize(a) = {}: {mr}", render_value(&p), cand_to_sexp(&r)),
                            vec![line.to_string(), mem_req(&a, &p), mem_req(&r, &p)],
                        ));
                        break;
                    }
                }
            }
            ("cand-exclude", [a, x]) => {
                let (Some(a), Some(x)) = (parse_cand(a), sexp_to_value(x)) else { return };
                let r = exclude(&a, &x);
                if null_bound(&r) {
                    fails.push(fail("result-range-null-bound", cand_to_sexp(&r).to_string(), vec![line.to_string()]));
                }
                let (mut sub, mut keeps) = (false, false);
                for p in probes_for(&[&a, &r], &[&x]) {
                    let (ma, mr) = (mem(&a, &p), mem(&r, &p));
                    if mr && !ma && !sub {
                        sub = true;
                        fails.push(fail(
                            "exclude-not-subset",
                            format!("probe {} not in a but in a \\ x = {}", render_value(&p), cand_to_sexp(&r)),
                            vec![line.to_string(), mem_req(&a, &p), mem_req(&r, &p)],
                        ));
                    }
                    if ma && p != x && !mr && !keeps {
                        keeps = true;
                        fails.push(fail(
                            "exclude-drops-other",
                            format!("probe {} in a, != x, but not in a \\ x = {}", render_value(&p), cand_to_sexp(&r)),
                            vec![line.to_string(), mem_req(&a, &p), mem_req(&r, &p)],
                        ));
                    }
                }
            }
            _ => {}
        }
    }
}

impl Prop for C06 {
    fn id(&self) -> &'static str {
        "C06"
    }
    fn rule(&self) -> &'static str {
        "a candidate grid: a fixed core (Impossible, All, Single of null / boundary integers in both representations / strings / a boolean, Multiple lists of length 0-3 with null, duplicates and mixed representations and kinds, ranges with every combination of included/excluded/unbounded bounds over equal numbers in both representations, point-like, empty, degenerate, string and mixed-kind bounds, each with null in and out) plus seeded random candidates (bounds from the boundary integer set in both representations and strings). Requests: (cand-intersect a b) for all ordered pairs of the grid, (cand-range-intersect a b) for a sample of range pairs (un-normalised Range::intersect), (cand-normalize a) for the grid, (cand-exclude a x) for the grid x (fixed exclusion pool + every value the candidate mentions, in both integer representations and their +-1 neighbours), (cand-mem a p) for the grid x probe pool (null, boundary integers in both representations, strings, bool/float/enum/list for the cross-kind order). The oracle evaluates on the implementation, for every such request, the set law over a probe set (probe pool + every value mentioned by operands and result + the other representation + neighbours +-1). An intersect pair is non-trivial when neither operand is Impossible or All (nt:both-constrained); normalize/exclude requests are non-trivial when the operation changes the candidate (nt:changed); a membership request is non-trivial for a non-null probe of a Range/Multiple (nt:bounds-decide)."
    }
    fn generate(&self, tier: Tier, rng: &mut Rng) -> Vec<Case> {
        let g = grid(tier, rng);
        let gs: Vec<Sexp> = g.iter().map(cand_to_sexp).collect();
        let mut out = vec![];
        for (a, sa) in g.iter().zip(&gs) {
            for (b, sb) in g.iter().zip(&gs) {
                let pair = format!("{}-{}", variant(a), variant(b));
                let mut tags = vec![pair.as_str()];
                let trivial = |c: &Cand| matches!(c, CandidateValue::Impossible | CandidateValue::All);
                if !trivial(a) && !trivial(b) {
                    tags.push("nt:both-constrained");
                }
                out.push(Case::new(Sexp::call("cand-intersect", vec![sa.clone(), sb.clone()]), &tags));
            }
        }
        // un-normalised Range::intersect on a sample of range pairs
        let ranges: Vec<&Sexp> =
            g.iter().zip(&gs).filter(|(c, _)| matches!(c, CandidateValue::Range(_))).map(|(_, s)| s).collect();
        let n_rr = if tier == Tier::Quick { 2000 } else { 40000 };
        for _ in 0..n_rr {
            let (a, b) = (*rng.pick(&ranges), *rng.pick(&ranges));
            out.push(Case::new(Sexp::call("cand-range-intersect", vec![a.clone(), b.clone()]), &["range-range-raw", "nt:both-constrained"]));
        }
        let probes = probe_pool();
        for (a, sa) in g.iter().zip(&gs) {
            let v = format!("normalize-{}", variant(a));
            out.push(Case::new(Sexp::call("cand-normalize", vec![sa.clone()]), &[v.as_str()]));
            let v = format!("exclude-{}", variant(a));
            for x in exclusions_for(a) {
                out.push(Case::new(Sexp::call("cand-exclude", vec![sa.clone(), value_to_sexp(&x)]), &[v.as_str()]));
            }
            let v = format!("mem-{}", variant(a));
            for p in &probes {
                let mut tags = vec![v.as_str()];
                if matches!(a, CandidateValue::Range(_) | CandidateValue::Multiple(_)) && !matches!(p, FieldValue::Null) {
                    tags.push("nt:bounds-decide");
                }
                out.push(Case::new(Sexp::call("cand-mem", vec![sa.clone(), value_to_sexp(p)]), &tags));
            }
        }
        out
    }
    fn eval(&self, request: &Sexp) -> Option<String> {
        let (h, args) = request.as_call()?;
        match (h, args) {
            ("cand-intersect", [a, b]) => {
                let (a, b) = (parse_cand(a)?, parse_cand(b)?);
                Some(cand_to_sexp(&intersect(&a, &b)).to_string())
            }
            ("cand-range-intersect", [a, b]) => {
                let (CandidateValue::Range(mut a), CandidateValue::Range(b)) = (parse_cand(a)?, parse_cand(b)?) else {
                    return None;
                };
                hooks::range_intersect(&mut a, b);
                Some(range_to_sexp(&a).to_string())
            }
            ("cand-normalize", [a]) => Some(cand_to_sexp(&normalize(&parse_cand(a)?)).to_string()),
            ("cand-exclude", [a, v]) => {
                let (a, v) = (parse_cand(a)?, sexp_to_value(v)?);
                Some(cand_to_sexp(&exclude(&a, &v)).to_string())
            }
            ("cand-mem", [a, v]) => {
                let (a, v) = (parse_cand(a)?, sexp_to_value(v)?);
                Some(if mem(&a, &v) { "1" } else { "0" }.to_string())
            }
            _ => None,
        }
    }
    fn post_tags(&self, e: &Evaluated) -> Vec<String> {
        let mut tags = vec![];
        if let Some((h, args)) = e.request.as_call() {
            match h {
                "cand-intersect" | "cand-range-intersect" => {
                    let res = match e.answer.as_str() {
                        "imp" | "all" | "panic" | "bad-op" => e.answer.clone(),
                        a => a.trim_start_matches('(').split(' ').next().unwrap_or("?").to_string(),
                    };
                    tags.push(format!("res:{res}"));
                }
                "cand-normalize" | "cand-exclude" => {
                    if args.first().map(|a| a.to_string()) != Some(e.answer.clone()) && e.answer != "panic" {
                        tags.push("nt:changed".to_string());
                    }
                }
                _ => {}
            }
        }
        tags
    }
    fn oracle(&self, evaluated: &[Evaluated]) -> Vec<OracleFailure> {
        let mut fails = vec![];
        for e in evaluated {
            if e.answer == "panic" {
                // `Range::new` on a null bound is the only panic the model allows; anything else is a
                // defect of the implementation (the model then disagrees as well).
                let expected = e.panic_info.as_deref().is_some_and(|m| m.contains("cannot bound range with null value"));
                if !expected {
                    let info = e.panic_info.clone().unwrap_or_default();
                    fails.push(fail(&panic_key(&info), info, vec![e.line.clone()]));
                }
                continue;
            }
            let before = fails.len();
            if let Err(info) = guarded(|| self.laws(&e.line, &e.request, &mut fails)) {
                fails.truncate(before);
                fails.push(fail(&panic_key(&info), info, vec![e.line.clone()]));
            }
            if fails.len() > 200 {
                break;
            }
        }
        fails
    }
    fn extra_stats(&self, evaluated: &[Evaluated]) -> serde_json::Value {
        let mut cands = BTreeSet::new();
        let (mut pairs, mut triples) = (0u64, 0u64);
        let mut by_cmd: std::collections::BTreeMap<String, u64> = Default::default();
        for e in evaluated {
            let Some((h, args)) = e.request.as_call() else { continue };
            *by_cmd.entry(h.to_string()).or_default() += 1;
            if e.answer == "panic" || e.answer == "bad-op" {
                continue;
            }
            if h == "cand-intersect" {
                pairs += 1;
                if let (Some(a), Some(b)) = (parse_cand(&args[0]), parse_cand(&args[1])) {
                    let r = intersect(&a, &b);
                    triples += probes_for(&[&a, &b, &r], &[]).len() as u64;
                }
                cands.insert(args[0].to_string());
                cands.insert(args[1].to_string());
            }
        }
        serde_json::json!({
            "candidates_in_grid": cands.len(),
            "intersect_pairs": pairs,
            "intersect_pair_x_probe_triples_checked_by_oracle": triples,
            "requests_by_command": by_cmd,
        })
    }
}

fn main() {
    main_for(vec![Box::new(C06)]);
}
