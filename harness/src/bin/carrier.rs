//! Group `carrier`: C02 — results do not depend on how adapters batch or pre-fetch their inputs.
//!
//! * `BatchingAdapter<A>` (now in `engine/batching.rs`, shared with C15): the repo's `VariableBatchingAdapter` / `VariableChunkIterator`
//!   (`trustfall_core/fuzz/fuzz_targets/adapter_batching/mod.rs`, = the test module of `execution.rs`)
//!   re-implemented over the public API and generalised: per adapter call one schedule entry decides
//!   which side is re-batched (the inner adapter's *output*, as in the repo; its *input* contexts; both)
//!   and in which chunk sizes (the repo's 2-bit digits of a `u64`, or an explicit size list followed by
//!   "everything that is left").  A chunk is pulled eagerly *before* its first element is handed on, the
//!   first chunk already while the `resolve_*` call is running — inside the engine's carrier bracket.
//! * `batch-exec` / `batch-numbers`: the real engine under many schedules; ORACLE: the rows of every
//!   schedule are the rows of the unbatched run, no panic appears or disappears.
//! * `plan` / `plan-numbers`: the ownership plan of `Model/Carrier.lean` re-derived here from the real
//!   `IRQuery` and compared (a) textually with the Lean `planOf` and (b) with the real engine's adapter
//!   call log (construction-time prefix = root pipeline; every later burst of calls = the body of one
//!   fold closure).
//! * `chunk`: batch sizes of the chunk iterator against the Lean `chunk`.
#[path = "../engine/mod.rs"]
#[allow(dead_code)]
mod engine;

use std::cell::{Cell, RefCell};
use std::collections::{BTreeMap, BTreeSet};
use std::rc::Rc;
use std::sync::Arc;

use trustfall_core::interpreter::execution::interpret_ir;
use trustfall_core::interpreter::{
    Adapter, AsVertex, ContextIterator, ContextOutcomeIterator, ResolveEdgeInfo, ResolveInfo, VertexInfo, VertexIterator,
};
use trustfall_core::ir::{
    Argument, EdgeParameters, FieldRef, FieldValue, IRFold, IRQuery, IRQueryComponent, IndexedQuery, Operation, Vid,
};
use trustfall_core::numbers_interpreter::NumbersAdapter;
use trustfall_core::test_types::TestIRQuery;

use crate::engine::adapter::{CallKind, Event, Hooks, Info, LoggingAdapter};
use crate::engine::batching::{ALTERNATING, BatchingAdapter, ChunkIter, MAX, Sched, SizeLog, Sizes, parse_scheds, rand_schedules, std_schedules};
use crate::engine::ir_sexp::{args_from_sexp, eid_num, ir_to_sexp, op_parts, vid_num};
use crate::engine::run::{Answer, Row, execute, prepare, real_args};
use crate::engine::worlds::{GenStats, WorldKnobs, gen_worlds};
use tfharness::framework::*;
use tfharness::rng::Rng;
use tfharness::sexp::{Sexp, unhex};

// ------------------------------------------------------------------------------------------------
// the ownership plan, re-derived from the real IR (mirror of `Carrier.planOf`)

#[derive(Debug, Clone, PartialEq)]
enum Item {
    Call(&'static str, Vec<u64>),
    Peek(&'static str),
    Clo(Vec<Item>),
}

fn site_kind(site: &str) -> CallKind {
    match site {
        "coercion" | "rec-coercion" => CallKind::Coercion,
        "edge-neighbors" | "rec-neighbors" | "fold-neighbors" => CallKind::Neighbors,
        _ => CallKind::Property,
    }
}

impl Item {
    fn to_sexp(&self) -> Sexp {
        match self {
            Item::Call(site, vids) => Sexp::call(site, vids.iter().map(|v| Sexp::atom(v.to_string())).collect()),
            Item::Peek(site) => Sexp::call("peek", vec![Sexp::atom(*site)]),
            Item::Clo(body) => Sexp::call("clo", body.iter().map(Item::to_sexp).collect()),
        }
    }
}

/// `apply_filter` (filtering.rs:256)
fn filter_items<L>(comp: &IRQueryComponent, current: Vid, f: &Operation<L, Argument>) -> Vec<Item>
where
    L: std::fmt::Debug + Clone + PartialEq + Eq,
{
    let (name, _, right) = op_parts(f);
    if name == "is_null" || name == "is_not_null" {
        return vec![];
    }
    match right {
        Some(Argument::Variable(_)) => vec![Item::Peek("filter-variable")],
        Some(Argument::Tag(FieldRef::ContextField(cf))) => {
            if cf.vertex_id == current {
                vec![Item::Call("local-field", vec![vid_num(current)])]
            } else if comp.vertices.contains_key(&cf.vertex_id) {
                vec![Item::Call("context-field", vec![vid_num(cf.vertex_id)])]
            } else {
                vec![]
            }
        }
        _ => vec![],
    }
}

/// `coerce_if_needed` + local filters
fn entry_items(comp: &IRQueryComponent, vid: Vid) -> Vec<Item> {
    let Some(v) = comp.vertices.get(&vid) else { return vec![] };
    let mut out = vec![];
    if v.coerced_from_type.is_some() {
        out.push(Item::Call("coercion", vec![vid_num(vid)]));
    }
    for f in &v.filters {
        out.push(Item::Call("local-field", vec![vid_num(vid)]));
        out.extend(filter_items(comp, vid, f));
    }
    out
}

/// `compute_fold`
fn fold_items(parent: &IRQueryComponent, fold: &IRFold) -> Vec<Item> {
    let mut out = vec![];
    for imp in &fold.imported_tags {
        if let FieldRef::ContextField(cf) = imp {
            out.push(Item::Call("fold-import", vec![vid_num(cf.vertex_id)]));
        }
    }
    out.push(Item::Call("fold-neighbors", vec![vid_num(fold.from_vid)]));
    out.push(Item::Clo(comp_items(&fold.component)));
    out.push(Item::Peek("max-fold-limit"));
    out.push(Item::Peek("min-fold-limit"));
    for pf in &fold.post_filters {
        out.extend(filter_items(parent, fold.from_vid, pf));
    }
    // BTreeMap order = sorted output names
    out.push(Item::Clo(
        fold.component.outputs.values().map(|cf| Item::Call("fold-output", vec![vid_num(cf.vertex_id)])).collect(),
    ));
    out
}

/// `compute_component`
fn comp_items(comp: &IRQueryComponent) -> Vec<Item> {
    let mut out = entry_items(comp, comp.root);
    let mut stages: BTreeMap<u64, Vec<Item>> = BTreeMap::new();
    for e in comp.edges.values() {
        let from = vid_num(e.from_vid);
        let mut items = vec![];
        match &e.recursive {
            None => items.push(Item::Call("edge-neighbors", vec![from])),
            Some(r) => {
                items.push(Item::Call("rec-neighbors", vec![from]));
                for _ in 2..=usize::from(r.depth) {
                    if r.coerce_to.is_some() {
                        items.push(Item::Call("rec-coercion", vec![from]));
                    }
                    items.push(Item::Call("rec-neighbors", vec![from]));
                }
            }
        }
        items.extend(entry_items(comp, e.to_vid));
        stages.insert(eid_num(e.eid), items);
    }
    for f in comp.folds.values() {
        stages.insert(eid_num(f.eid), fold_items(comp, f));
    }
    out.extend(stages.into_values().flatten());
    out
}

fn plan_of(ir: &IRQuery) -> Vec<Item> {
    let mut out = comp_items(&ir.root_component);
    out.push(Item::Call(
        "construct-outputs",
        ir.root_component.outputs.values().map(|cf| vid_num(cf.vertex_id)).collect(),
    ));
    out
}

fn render_plan(items: &[Item]) -> String {
    Sexp::call("plan", items.iter().map(Item::to_sexp).collect()).to_string()
}

type Sig = (CallKind, u64);

/// The adapter calls a pipeline makes while it is built (not those of its closures).
fn own_calls(items: &[Item]) -> Vec<Sig> {
    let mut out = vec![];
    for it in items {
        if let Item::Call(site, vids) = it {
            out.extend(vids.iter().map(|v| (site_kind(site), *v)));
        }
    }
    out
}

fn closure_bodies<'a>(items: &'a [Item], out: &mut Vec<&'a [Item]>) {
    for it in items {
        if let Item::Clo(body) = it {
            out.push(body);
            closure_bodies(body, out);
        }
    }
}

/// Split a run of calls into closure-body constructions: indices into `allowed`, or `None`.
fn decompose(burst: &[Sig], allowed: &[Vec<Sig>]) -> Option<Vec<usize>> {
    // reach[i] = Some(j): burst[..i] decomposes and its last piece is allowed[j]
    let mut reach: Vec<Option<usize>> = vec![None; burst.len() + 1];
    let mut ok = vec![false; burst.len() + 1];
    ok[0] = true;
    for i in 0..burst.len() {
        if !ok[i] {
            continue;
        }
        for (j, a) in allowed.iter().enumerate() {
            if !a.is_empty() && burst[i..].starts_with(a) && !ok[i + a.len()] {
                ok[i + a.len()] = true;
                reach[i + a.len()] = Some(j);
            }
        }
    }
    if !ok[burst.len()] {
        return None;
    }
    let mut out = vec![];
    let mut i = burst.len();
    while i > 0 {
        let j = reach[i]?;
        out.push(j);
        i -= allowed[j].len();
    }
    out.reverse();
    Some(out)
}

/// What the call log of a lazy adapter must look like: before the first pull exactly the root
/// pipeline's calls; afterwards every maximal run of calls is the construction of one closure body, or
/// of several in a row (an inner pipeline that yields nothing produces no pull event before the next
/// closure runs).  Returns (closure activations recognised, distinct closure bodies seen) or the
/// offending run.
fn check_trace(plan: &[Item], prefix: &[Sig], bursts: &[Vec<Sig>]) -> Result<(usize, usize), String> {
    let fmt = |b: &[Sig]| b.iter().map(|(k, v)| format!("{}@{v}", k.name())).collect::<Vec<_>>().join(",");
    let want = own_calls(plan);
    if prefix != want.as_slice() {
        return Err(format!("construction-prefix {} want {}", fmt(prefix), fmt(&want)));
    }
    let mut bodies = vec![];
    closure_bodies(plan, &mut bodies);
    let allowed: Vec<Vec<Sig>> = bodies.iter().map(|b| own_calls(b)).collect();
    let mut seen = BTreeSet::new();
    let mut activations = 0;
    for b in bursts {
        match decompose(b, &allowed) {
            Some(pieces) => {
                activations += pieces.len();
                seen.extend(pieces);
            }
            None => return Err(format!("burst {}", fmt(b))),
        }
    }
    Ok((activations, seen.len()))
}

// ------------------------------------------------------------------------------------------------
// real interleavings as abstract schedules

/// Enter / exit of an engine → adapter call (`resolve_starting_vertices` is not logged: it has no input).
#[derive(Debug, Clone, PartialEq)]
enum Ev {
    Enter(Sig),
    Exit,
}

type SpanLog = Rc<RefCell<Vec<Ev>>>;

/// Outermost wrapper: brackets every resolver call of the engine in the log. Whatever the wrapped
/// (batching) adapter pulls *during* the call shows up nested between the two marks.
struct SpanAdapter<A> {
    inner: A,
    log: SpanLog,
}

impl<A: Adapter<'static> + 'static> Adapter<'static> for SpanAdapter<A>
where
    A::Vertex: 'static,
{
    type Vertex = A::Vertex;

    fn resolve_starting_vertices(
        &self,
        edge_name: &Arc<str>,
        parameters: &EdgeParameters,
        resolve_info: &ResolveInfo,
    ) -> VertexIterator<'static, Self::Vertex> {
        self.inner.resolve_starting_vertices(edge_name, parameters, resolve_info)
    }
    fn resolve_property<V: AsVertex<Self::Vertex> + 'static>(
        &self,
        contexts: ContextIterator<'static, V>,
        type_name: &Arc<str>,
        property_name: &Arc<str>,
        resolve_info: &ResolveInfo,
    ) -> ContextOutcomeIterator<'static, V, FieldValue> {
        self.log.borrow_mut().push(Ev::Enter((CallKind::Property, vid_num(resolve_info.vid()))));
        let r = self.inner.resolve_property(contexts, type_name, property_name, resolve_info);
        self.log.borrow_mut().push(Ev::Exit);
        r
    }
    fn resolve_neighbors<V: AsVertex<Self::Vertex> + 'static>(
        &self,
        contexts: ContextIterator<'static, V>,
        type_name: &Arc<str>,
        edge_name: &Arc<str>,
        parameters: &EdgeParameters,
        resolve_info: &ResolveEdgeInfo,
    ) -> ContextOutcomeIterator<'static, V, VertexIterator<'static, Self::Vertex>> {
        self.log.borrow_mut().push(Ev::Enter((CallKind::Neighbors, vid_num(resolve_info.origin_vid()))));
        let r = self.inner.resolve_neighbors(contexts, type_name, edge_name, parameters, resolve_info);
        self.log.borrow_mut().push(Ev::Exit);
        r
    }
    fn resolve_coercion<V: AsVertex<Self::Vertex> + 'static>(
        &self,
        contexts: ContextIterator<'static, V>,
        type_name: &Arc<str>,
        coerce_to_type: &Arc<str>,
        resolve_info: &ResolveInfo,
    ) -> ContextOutcomeIterator<'static, V, bool> {
        self.log.borrow_mut().push(Ev::Enter((CallKind::Coercion, vid_num(resolve_info.vid()))));
        let r = self.inner.resolve_coercion(contexts, type_name, coerce_to_type, resolve_info);
        self.log.borrow_mut().push(Ev::Exit);
        r
    }
}

/// One engine → adapter call and the calls nested inside it.
#[derive(Debug)]
struct Node {
    sig: Sig,
    children: Vec<Node>,
}

fn forest(evs: &[Ev]) -> Option<Vec<Node>> {
    let mut stack: Vec<Vec<Node>> = vec![vec![]];
    let mut open: Vec<Sig> = vec![];
    for e in evs {
        match e {
            Ev::Enter(sig) => {
                open.push(*sig);
                stack.push(vec![]);
            }
            Ev::Exit => {
                let children = stack.pop()?;
                let sig = open.pop()?;
                stack.last_mut()?.push(Node { sig, children });
            }
        }
    }
    if stack.len() == 1 { stack.pop() } else { None }
}

/// "stop pulling": any choice that is not the index of a closure
const STOP: u64 = 1_000_000;

fn own_closures(items: &[Item]) -> Vec<&[Item]> {
    items.iter().filter_map(|it| if let Item::Clo(b) = it { Some(b.as_slice()) } else { None }).collect()
}

/// The grammar the carrier machine assigns to call logs:
///   pipeline(items)  = for every call item, one node per adapter call, whose children are a window over the
///                      closures created so far
///   window(closures) = a sequence of activations of those closures
///   activation(c)    = pipeline(body of c) followed by a window over the closures of that body (the drain)
/// Every function returns, per reachable end position, the abstract schedule tokens of one parse.
fn parse_pipeline(items: &[Item], nodes: &[Node], mut pos: usize) -> Option<(usize, Vec<u64>)> {
    let mut cs: Vec<&[Item]> = vec![];
    let mut out = vec![];
    for it in items {
        match it {
            Item::Call(site, vids) => {
                for v in vids {
                    let n = nodes.get(pos)?;
                    if n.sig != (site_kind(site), *v) {
                        return None;
                    }
                    let w = parse_window(&cs, &n.children, 0);
                    out.extend(w.get(&n.children.len())?.iter().copied());
                    out.push(STOP);
                    pos += 1;
                }
            }
            Item::Peek(_) => {}
            Item::Clo(body) => cs.push(body),
        }
    }
    Some((pos, out))
}

fn parse_activation(body: &[Item], nodes: &[Node], pos: usize) -> BTreeMap<usize, Vec<u64>> {
    let Some((p1, toks)) = parse_pipeline(body, nodes, pos) else { return BTreeMap::new() };
    let inner = own_closures(body);
    parse_window(&inner, nodes, p1)
        .into_iter()
        .map(|(end, t)| {
            let mut all = toks.clone();
            all.extend(t);
            all.push(STOP);
            (end, all)
        })
        .collect()
}

fn parse_window(cs: &[&[Item]], nodes: &[Node], pos: usize) -> BTreeMap<usize, Vec<u64>> {
    let mut reach: BTreeMap<usize, Vec<u64>> = BTreeMap::new();
    reach.insert(pos, vec![]);
    let mut todo = vec![pos];
    while let Some(p) = todo.pop() {
        if p >= nodes.len() {
            continue;
        }
        for (i, body) in cs.iter().enumerate() {
            for (end, toks) in parse_activation(body, nodes, p) {
                if end > p && !reach.contains_key(&end) {
                    let mut all = reach[&p].clone();
                    all.push(i as u64);
                    all.extend(toks);
                    reach.insert(end, all);
                    todo.push(end);
                }
            }
        }
    }
    reach
}

/// Number of calls (at any depth) during which the adapter pulled a closure of an earlier stage: the
/// re-entrant situation of issue #205.
fn reentrant_windows(nodes: &[Node]) -> usize {
    nodes.iter().map(|n| usize::from(!n.children.is_empty()) + reentrant_windows(&n.children)).sum()
}

/// The abstract schedule of one real run: `construction` = the calls logged before `interpret_ir`
/// returned, `consumption` = those logged while the rows were collected.
fn abstract_schedule(plan: &[Item], construction: &[Ev], consumption: &[Ev]) -> Result<(Vec<u64>, usize), String> {
    let built = forest(construction).ok_or("unbalanced-construction-log")?;
    let pulled = forest(consumption).ok_or("unbalanced-consumption-log")?;
    let (end, mut toks) = parse_pipeline(plan, &built, 0).ok_or("construction-does-not-parse")?;
    if end != built.len() {
        return Err("calls-after-construct-outputs".to_string());
    }
    let root = own_closures(plan);
    let w = parse_window(&root, &pulled, 0);
    toks.extend(w.get(&pulled.len()).ok_or("consumption-does-not-parse")?.iter().copied());
    toks.push(STOP);
    Ok((toks, reentrant_windows(&built) + reentrant_windows(&pulled)))
}

/// Run the real engine under one batching schedule with the span log; `None` when it panics or the
/// arguments are rejected.
fn traced_run(p: &crate::engine::run::Prepared, q: &Arc<IndexedQuery>, args: &BTreeMap<String, FieldValue>, s: &Sched) -> Option<(Vec<Ev>, Vec<Ev>)> {
    let log: SpanLog = Rc::new(RefCell::new(vec![]));
    let adapter = Arc::new(SpanAdapter { inner: BatchingAdapter::new(Rc::new(p.adapter()), s.clone()), log: log.clone() });
    let split = guarded(|| match interpret_ir(adapter, q.clone(), real_args(args)) {
        Err(_) => None,
        Ok(rows) => {
            let n = log.borrow().len();
            rows.for_each(drop);
            Some(n)
        }
    })
    .ok()??;
    let evs = log.borrow();
    Some((evs[..split].to_vec(), evs[split..].to_vec()))
}

/// `(abs n…)` of a real run, or the reason it cannot be given.
fn abs_of(p: &crate::engine::run::Prepared, q: &Arc<IndexedQuery>, args: &BTreeMap<String, FieldValue>, s: &Sched) -> Result<(Vec<u64>, usize), String> {
    let (built, pulled) = traced_run(p, q, args, s).ok_or("run-failed")?;
    abstract_schedule(&plan_of(&q.ir_query), &built, &pulled)
}

fn abs_sexp(toks: &[u64]) -> Sexp {
    Sexp::call("abs", toks.iter().map(|t| Sexp::atom(t.to_string())).collect())
}

/// `(carrier-trace <schema> <data> <text> <ir> <args> <batching schedule> (abs n…))`: the real run under
/// that schedule, read as an abstract schedule of the carrier machine, is the one in the request; the
/// answer states what the machine must do with it: serve every activation, read it to the end.
fn eval_carrier_trace(args: &[Sexp]) -> Option<String> {
    let [head @ .., sched, abs] = args else { return None };
    let r = parse_request(head)?;
    let sched = Sched::from_sexp(sched)?;
    let p = prepare(r.schema, r.data, &r.text)?;
    let q = match &p.query {
        Err(names) => return Some(Answer::FrontendErr(names.clone()).render()),
        Ok(q) => q.clone(),
    };
    if ir_to_sexp(&q.ir_query) != *r.ir {
        return Some("(ir-mismatch)".to_string());
    }
    match abs_of(&p, &q, &r.args, &sched) {
        Err(why) => Some(format!("(trace-mismatch {why})")),
        Ok((toks, reentrant)) => {
            if abs_sexp(&toks) != *abs {
                return Some("(trace-mismatch abstract-schedule-differs-from-request)".to_string());
            }
            let acts = toks.iter().filter(|t| **t != STOP).count();
            ABS_STATS.with(|c| {
                let (n, a, nested) = c.get();
                c.set((n + 1, a + acts as u64, nested + reentrant as u64));
            });
            Some(format!("(trace ok {acts} 0)"))
        }
    }
}

thread_local! {
    /// (traces translated, closure activations in them, re-entrant windows in them)
    static ABS_STATS: Cell<(u64, u64, u64)> = const { Cell::new((0, 0, 0)) };
}

// ------------------------------------------------------------------------------------------------
// requests

struct EngineRequest<'a> {
    schema: &'a Sexp,
    data: &'a Sexp,
    text: String,
    ir: &'a Sexp,
    args: BTreeMap<String, FieldValue>,
}

fn parse_request<'a>(args: &'a [Sexp]) -> Option<EngineRequest<'a>> {
    let [schema, data, text, ir, a] = args else { return None };
    let text = String::from_utf8(unhex(text.as_atom()?)?).ok()?;
    Some(EngineRequest { schema, data, text, ir, args: args_from_sexp(a)? })
}

/// Rows or panic (class) of one run.
fn outcome(f: impl FnOnce() -> Answer) -> Result<Answer, String> {
    guarded(f).map_err(|info| panic_key(&info))
}

fn render_outcome(o: &Result<Answer, String>) -> String {
    match o {
        Ok(a) => a.render(),
        Err(_) => "panic".to_string(),
    }
}

/// `expect("query was not returned")`: the carrier discipline itself broke (`carrier_safe` says never).
fn is_carrier_panic(key: &str) -> bool {
    key.contains("query_was_not_returned")
}

fn atomise(key: &str) -> String {
    key.replace([' ', '(', ')'], "_")
}

/// `(carrier-panic unbatched|<schedule> <panic class>)`
fn carrier_panic(s: Option<&Sched>, key: &str) -> String {
    format!("(carrier-panic {} {})", s.map(|s| s.to_sexp().to_string()).unwrap_or_else(|| "unbatched".to_string()), atomise(key))
}

fn mismatch(s: &Sched, got: &Result<Answer, String>) -> String {
    if let Err(key) = got {
        if is_carrier_panic(key) {
            return carrier_panic(Some(s), key);
        }
    }
    let got = match got {
        Ok(a) => a.render(),
        Err(key) => format!("(panic {})", atomise(key)),
    };
    format!("(batch-mismatch {} (got {got}))", s.to_sexp())
}

const HEAVY_ROWS: usize = 1500;
const HEAVY_SCHEDULES: usize = 4;

thread_local! {
    /// (query, schedule) executions of this process
    static BATCHED_RUNS: Cell<u64> = const { Cell::new(0) };
}

/// `(batch-exec <schema> <data> <text> <ir> <args> (scheds …))`
fn eval_batch_exec(args: &[Sexp]) -> Option<String> {
    let [head @ .., scheds] = args else { return None };
    let r = parse_request(head)?;
    let scheds = parse_scheds(scheds)?;
    let p = prepare(r.schema, r.data, &r.text)?;
    let q = match &p.query {
        Err(names) => return Some(Answer::FrontendErr(names.clone()).render()),
        Ok(q) => q.clone(),
    };
    if ir_to_sexp(&q.ir_query) != *r.ir {
        return Some("(ir-mismatch)".to_string());
    }
    let table = Rc::new(p.adapter());
    let base = outcome(|| execute(Arc::new(p.adapter()), q.clone(), &r.args));
    // a result of thousands of rows (nested recursions over a dense self-edge) is run under the first
    // few schedules only; the cut depends on the unbatched result alone, so the answer stays a
    // function of the request
    if let Err(key) = &base {
        if is_carrier_panic(key) {
            return Some(carrier_panic(None, key));
        }
    }
    let heavy = matches!(&base, Ok(Answer::Rows(rows)) if rows.len() > HEAVY_ROWS);
    let scheds = if heavy { &scheds[..scheds.len().min(HEAVY_SCHEDULES)] } else { &scheds[..] };
    for (sched_index, s) in scheds.iter().enumerate() {
        BATCHED_RUNS.with(|c| c.set(c.get() + 1));
        let got = outcome(|| execute(Arc::new(BatchingAdapter::new(table.clone(), s.clone())), q.clone(), &r.args));
        let same = match (&base, &got) {
            (Ok(a), Ok(b)) => a == b,
            (Err(_), Err(_)) => true,
            _ => false,
        };
        if !same {
            return Some(mismatch(s, &got));
        }
        // the crate's own middleware in the stack: the tracing tap over the same read-ahead adapter
        // must not crash or change rows either (seeded change C02-2: a `RefMut` kept alive across
        // the inner `resolve_neighbors` call panics as soon as the inner adapter pulls eagerly)
        if sched_index >= 64 {
            continue;
        }
        let traced = outcome(|| {
            use trustfall_core::interpreter::trace::{AdapterTap, Trace, tap_results};
            let tracer = Rc::new(RefCell::new(Trace::new(q.ir_query.clone(), r.args.clone())));
            let tap = Arc::new(AdapterTap::new(BatchingAdapter::new(table.clone(), s.clone()), tracer));
            match interpret_ir(tap.clone(), q.clone(), real_args(&r.args)) {
                Err(e) => Answer::ArgsErr(crate::engine::run::args_error_names(&e)),
                Ok(rows) => Answer::Rows(tap_results(tap.clone(), rows).collect()),
            }
        });
        let same = match (&base, &traced) {
            (Ok(a), Ok(b)) => a == b,
            (Err(_), Err(_)) => true,
            _ => false,
        };
        if !same {
            return Some(mismatch(s, &traced));
        }
    }
    Some(render_outcome(&base))
}

thread_local! {
    /// the repo's numbers adapter (parsing its schema is the expensive part: once per process)
    static NUMBERS: Rc<NumbersAdapter> = Rc::new(NumbersAdapter::new());
}

/// A shared adapter used as it is.
struct Passthrough<A>(Rc<A>);

impl<A: Adapter<'static> + 'static> Adapter<'static> for Passthrough<A>
where
    A::Vertex: 'static,
{
    type Vertex = A::Vertex;

    fn resolve_starting_vertices(
        &self,
        edge_name: &Arc<str>,
        parameters: &EdgeParameters,
        resolve_info: &ResolveInfo,
    ) -> VertexIterator<'static, Self::Vertex> {
        self.0.resolve_starting_vertices(edge_name, parameters, resolve_info)
    }
    fn resolve_property<V: AsVertex<Self::Vertex> + 'static>(
        &self,
        contexts: ContextIterator<'static, V>,
        type_name: &Arc<str>,
        property_name: &Arc<str>,
        resolve_info: &ResolveInfo,
    ) -> ContextOutcomeIterator<'static, V, FieldValue> {
        self.0.resolve_property(contexts, type_name, property_name, resolve_info)
    }
    fn resolve_neighbors<V: AsVertex<Self::Vertex> + 'static>(
        &self,
        contexts: ContextIterator<'static, V>,
        type_name: &Arc<str>,
        edge_name: &Arc<str>,
        parameters: &EdgeParameters,
        resolve_info: &ResolveEdgeInfo,
    ) -> ContextOutcomeIterator<'static, V, VertexIterator<'static, Self::Vertex>> {
        self.0.resolve_neighbors(contexts, type_name, edge_name, parameters, resolve_info)
    }
    fn resolve_coercion<V: AsVertex<Self::Vertex> + 'static>(
        &self,
        contexts: ContextIterator<'static, V>,
        type_name: &Arc<str>,
        coerce_to_type: &Arc<str>,
        resolve_info: &ResolveInfo,
    ) -> ContextOutcomeIterator<'static, V, bool> {
        self.0.resolve_coercion(contexts, type_name, coerce_to_type, resolve_info)
    }
}

const NUMBERS_DIR: &str = "/repo/trustfall_core/test_data/tests/valid_queries";

fn load_numbers_query(stem: &str) -> Option<TestIRQuery> {
    if !stem.chars().all(|c| c.is_ascii_alphanumeric() || c == '_' || c == '-') {
        return None;
    }
    let text = std::fs::read_to_string(format!("{NUMBERS_DIR}/{stem}.ir.ron")).ok()?;
    let q = ron::from_str::<Result<TestIRQuery, ron::Value>>(&text).ok()?.ok()?;
    (q.schema_name == "numbers").then_some(q)
}

fn numbers_stems() -> Vec<String> {
    let mut v: Vec<String> = std::fs::read_dir(NUMBERS_DIR)
        .map(|d| {
            d.filter_map(|e| e.ok())
                .filter_map(|e| e.file_name().to_str().and_then(|n| n.strip_suffix(".ir.ron")).map(str::to_string))
                .filter(|stem| load_numbers_query(stem).is_some())
                .collect()
        })
        .unwrap_or_default();
    v.sort();
    v
}

fn run_numbers<A: Adapter<'static> + 'static>(adapter: A, q: &Arc<IndexedQuery>, args: &BTreeMap<String, FieldValue>) -> Vec<Row> {
    interpret_ir(Arc::new(adapter), q.clone(), real_args(args)).expect("arguments of a valid test query").collect()
}

/// `(batch-numbers <file stem> (scheds …))` → `ok` when every schedule gives the unbatched rows.
fn eval_batch_numbers(args: &[Sexp]) -> Option<String> {
    let [stem, scheds] = args else { return None };
    let t = load_numbers_query(stem.as_atom()?)?;
    let scheds = parse_scheds(scheds)?;
    let q: Arc<IndexedQuery> = Arc::new(IndexedQuery::try_from(t.ir_query).ok()?);
    let numbers = NUMBERS.with(|n| n.clone());
    // the unbatched run: the shared adapter as it is
    let base = guarded(|| run_numbers(Passthrough(numbers.clone()), &q, &t.arguments)).map_err(|i| panic_key(&i));
    if let Err(key) = &base {
        if is_carrier_panic(key) {
            return Some(carrier_panic(None, key));
        }
    }
    for s in &scheds {
        BATCHED_RUNS.with(|c| c.set(c.get() + 1));
        let got = guarded(|| run_numbers(BatchingAdapter::new(numbers.clone(), s.clone()), &q, &t.arguments))
            .map_err(|i| panic_key(&i));
        let same = match (&base, &got) {
            (Ok(a), Ok(b)) => a == b,
            (Err(_), Err(_)) => true,
            _ => false,
        };
        if !same {
            return Some(mismatch(s, &got.map(Answer::Rows)));
        }
    }
    Some("ok".to_string())
}

/// `(plan-numbers <file stem> <ir>)`: the plan of a repo test query (no trace: only Lean ≡ Rust).
fn eval_plan_numbers(args: &[Sexp]) -> Option<String> {
    let [stem, ir] = args else { return None };
    let t = load_numbers_query(stem.as_atom()?)?;
    if ir_to_sexp(&t.ir_query) != *ir {
        return Some("(ir-mismatch)".to_string());
    }
    Some(render_plan(&plan_of(&t.ir_query)))
}

thread_local! {
    /// (plan requests checked, bursts matched, distinct closure bodies seen)
    static TRACE_STATS: Cell<(u64, u64, u64)> = const { Cell::new((0, 0, 0)) };
}

/// `(plan <schema> <data> <text> <ir> <args>)`: the plan derived from the real IR, provided the real
/// engine's call log over the (lazy) table adapter conforms to it.
fn eval_plan(args: &[Sexp]) -> Option<String> {
    let r = parse_request(args)?;
    let p = prepare(r.schema, r.data, &r.text)?;
    let q = match &p.query {
        Err(names) => return Some(Answer::FrontendErr(names.clone()).render()),
        Ok(q) => q.clone(),
    };
    if ir_to_sexp(&q.ir_query) != *r.ir {
        return Some("(ir-mismatch)".to_string());
    }
    let plan = plan_of(&q.ir_query);
    // the Vid every call is positioned at, by call id
    let vids: Rc<RefCell<Vec<u64>>> = Rc::new(RefCell::new(vec![]));
    let vids2 = vids.clone();
    let hooks = Hooks {
        on_call: Some(Box::new(move |_sig, info| {
            let v = match info {
                Info::Vertex(ri) => vid_num(ri.vid()),
                Info::Edge(rei) => vid_num(rei.origin_vid()),
            };
            vids2.borrow_mut().push(v);
        })),
        on_context: None,
    };
    let adapter = Arc::new(LoggingAdapter::with_hooks(p.adapter(), hooks));
    let log = adapter.log.clone();
    // a panic of the engine (known findings) cuts the log short; what was logged must still conform
    let built = guarded(|| match interpret_ir(adapter, q.clone(), real_args(&r.args)) {
        Err(_) => None,
        Ok(rows) => {
            let n = log.borrow().len();
            let _ = guarded(|| rows.for_each(drop));
            Some(n)
        }
    });
    let Ok(Some(prefix_len)) = built else { return Some(render_plan(&plan)) };
    let events = log.borrow();
    let vids = vids.borrow();
    let sig_of = |e: &Event| match e {
        Event::Call(c) => Some((c.kind, vids[c.call_id])),
        _ => None,
    };
    let mut prefix = vec![];
    for e in &events[..prefix_len] {
        match sig_of(e) {
            Some((CallKind::Start, _)) => {}
            Some(s) => prefix.push(s),
            None => return Some("(trace-mismatch pull-during-construction)".to_string()),
        }
    }
    let mut bursts: Vec<Vec<Sig>> = vec![];
    let mut cur: Vec<Sig> = vec![];
    for e in &events[prefix_len..] {
        match sig_of(e) {
            Some(s) => cur.push(s),
            None => {
                if !cur.is_empty() {
                    bursts.push(std::mem::take(&mut cur));
                }
            }
        }
    }
    if !cur.is_empty() {
        bursts.push(cur);
    }
    match check_trace(&plan, &prefix, &bursts) {
        Ok((n, distinct)) => {
            TRACE_STATS.with(|c| {
                let (a, b, d) = c.get();
                c.set((a + 1, b + n as u64, d + distinct as u64));
            });
            Some(render_plan(&plan))
        }
        Err(why) => Some(format!("(trace-mismatch {})", why.replace(' ', "_"))),
    }
}

/// `(chunk (w <u64>) <n>)` / `(chunk (k <size>…) <n>)`: the non-empty chunks pulled from `0..n`.
fn eval_chunk(args: &[Sexp]) -> Option<String> {
    let [spec, n] = args else { return None };
    let n: usize = n.as_atom()?.parse().ok()?;
    let sizes = match spec.as_call()? {
        ("w", [w]) => Sizes::Word(w.as_atom()?.parse().ok()?),
        ("k", ns) => Sizes::List(ns.iter().map(|x| x.as_atom()?.parse().ok()).collect::<Option<Vec<usize>>>()?),
        _ => return None,
    };
    let log: SizeLog = Rc::new(RefCell::new(vec![]));
    let out: Vec<usize> = ChunkIter::new(0..n, sizes, Some(log.clone())).collect();
    if out != (0..n).collect::<Vec<_>>() {
        return Some("(not-order-preserving)".to_string());
    }
    let sizes: Vec<String> = log.borrow().iter().filter(|s| **s != 0).map(|s| s.to_string()).collect();
    Some(if sizes.is_empty() { "(sizes)".to_string() } else { format!("(sizes {})", sizes.join(" ")) })
}

// ------------------------------------------------------------------------------------------------
// the property

#[derive(Default)]
pub struct C02 {
    stats: RefCell<GenStats>,
    schedules_per_query: Cell<usize>,
    /// (dataset, query) pairs not sent because the unbatched result exceeds `GENERATOR_ROW_LIMIT`
    skipped_large: Cell<usize>,
}

/// Results larger than this (nested recursions over a dense self-edge produce millions of rows) are
/// not multiplied by the schedule count.
const GENERATOR_ROW_LIMIT: usize = 1000;

/// Does the unbatched run of a `(batch-exec …)` request return more than `limit` rows? (A panic is "no".)
fn unbatched_exceeds(req: &Sexp, limit: usize) -> bool {
    let Some((_, args)) = req.as_call() else { return false };
    let Some(r) = parse_request(&args[..5.min(args.len())]) else { return false };
    let Some(p) = prepare(r.schema, r.data, &r.text) else { return false };
    let Ok(q) = &p.query else { return false };
    let q = q.clone();
    guarded(|| match interpret_ir(Arc::new(p.adapter()), q, real_args(&r.args)) {
        Ok(rows) => rows.take(limit + 1).count() > limit,
        Err(_) => false,
    })
    .unwrap_or(false)
}

/// `carrier-trace` requests of one (dataset, query): the real run under a few batching schedules, each
/// translated into an abstract schedule that the request carries for the Lean machine.
fn trace_cases(base_req: &Sexp, tags: &[String], rng: &mut Rng, n_rand: usize) -> Vec<Case> {
    let Some((_, args)) = base_req.as_call() else { return vec![] };
    let Some(r) = parse_request(args) else { return vec![] };
    let Some(p) = prepare(r.schema, r.data, &r.text) else { return vec![] };
    let Ok(q) = &p.query else { return vec![] };
    let q = q.clone();
    let fixed = std_schedules();
    // the #205 schedule, chunks 1,2,3,4 on both sides, everything pre-fetched on both sides
    let mut scheds = vec![fixed[1].clone(), fixed[9].clone()];
    if n_rand > 1 {
        scheds.push(fixed[6].clone());
    }
    scheds.extend(rand_schedules(rng.next_u64() >> 1, n_rand));
    let mut out = vec![];
    for s in scheds {
        // a run that fails (known engine panics) has no complete trace
        let (toks, reentrant) = match abs_of(&p, &q, &r.args, &s) {
            Ok(x) => x,
            Err(why) if why == "run-failed" => continue,
            Err(_) => Default::default(),
        };
        let mut req = base_req.clone();
        if let Sexp::List(v) = &mut req {
            v.push(s.to_sexp());
            v.push(abs_sexp(&toks));
        }
        let mut t = tags.to_vec();
        t.push("trace".to_string());
        let acts = toks.iter().filter(|x| **x != STOP).count();
        if acts > 0 {
            t.push("nt:trace+activations".to_string());
        }
        if reentrant > 0 {
            t.push("nt:trace+reentrant-window".to_string());
        }
        out.push(Case { request: req, tags: t });
    }
    out
}

fn scheds_spec(seed: u64, n_rand: usize) -> Sexp {
    Sexp::call(
        "scheds",
        vec![Sexp::call("std", vec![]), Sexp::call("rand", vec![Sexp::atom(seed.to_string()), Sexp::atom(n_rand.to_string())])],
    )
}

impl Prop for C02 {
    fn id(&self) -> &'static str {
        "C02"
    }
    fn rule(&self) -> &'static str {
        "(batch-exec ...): the worlds of C01 (same generator, same seed; quick 40 schemas, thorough 120: schemas x 2 datasets x ~10 accepted type-directed queries with plain/optional/fold/nested-fold/recurse edges, coercions, filters with variable/tag/imported-tag/fold-count operands, count outputs and filters); every (dataset, query) is run unbatched over the lazy table adapter and then under every schedule of the request: the 24 fixed ones (wrapper default = every resolver call pre-fetches one element; the [0,0,MAX] schedule of repro_issue_205; chunks of 4; chunks 1,2,3,4,...; pre-fetch EVERYTHING before the first output on the output side / the input side / both; lazy-then-everything; and the #205 shape 'all calls minimal, the i-th call pre-fetches everything' for i < 12) plus seeded random ones (0..24 per-call entries, each re-batching input, output or both with a random u64 digit sequence, 0, MAX, or explicit chunk sizes 0..4 then everything; exhausted schedules continue with 0 or cyclically) - quick 24+24, thorough 24+476 per query. Under the first 64 schedules of a request the run is repeated with the crate's tracing middleware in the stack (AdapterTap over the same batching adapter, rows through tap_results) and must give the same rows. The answer is the unbatched rows when all schedules agree, (batch-mismatch <schedule> ...) otherwise; the Lean side answers the rows of the list-level interpreter, which does not look at the schedule. (batch-numbers ...): the same for the repo's own valid numbers test queries over the repo's NumbersAdapter. (plan ...)/(plan-numbers ...): the ownership plan (bracket sites, closures) derived in Rust from the real IRQuery must equal the Lean planOf of the rendered IR, and the real engine's adapter-call log over the lazy adapter must conform to it (calls before the first pull = root pipeline; every later burst of calls = body of one fold closure). (carrier-trace ...): for queries with folds the real engine is run under a batching schedule with every resolver call bracketed in a log; the nested log must parse by the grammar the carrier machine assigns (pipeline = its calls, each with a window of activations of earlier closures; activation = the body's pipeline, then a window over its closures) and the resulting abstract schedule, carried in the request, must be served by the Lean machine activation for activation and read to its end (nt: at least one activation / at least one re-entrant window, i.e. a closure run during a construction-time call as in #205). (chunk ...): batch sizes of the chunk iterator vs the Lean chunk. A case is non-trivial (nt:) when the query has a fold (a pull-time closure exists) and the unbatched run returned rows, or for plan requests when at least one closure burst was observed. Oracle: any (batch-mismatch ...) answer - rows differ or a panic appears/disappears under some schedule - and any (carrier-panic ...) answer: a run, batched or not, died with expect(\"query was not returned\")."
    }
    fn generate(&self, tier: Tier, rng: &mut Rng) -> Vec<Case> {
        let n_rand = if tier == Tier::Quick { 24 } else { 476 };
        self.schedules_per_query.set(std_schedules().len() + n_rand);
        let mut out = vec![];
        // generated worlds FIRST: the same seed gives the worlds of C01
        // quick: exactly the worlds of C01's quick tier; thorough: 120 schemas (x 2 datasets x ~10 queries)
        // so that 500 schedules per (dataset, query) stay within ~20 minutes (debug build, one thread)
        let mut knobs = WorldKnobs::for_tier(tier);
        if tier == Tier::Thorough {
            knobs.n_schemas = 120;
        }
        let (worlds, stats) = match guarded(|| gen_worlds(rng, &knobs)) {
            Ok(x) => x,
            Err(info) => {
                eprintln!("engine generator panicked: {info}");
                std::process::exit(3);
            }
        };
        *self.stats.borrow_mut() = stats;
        if std::env::var("C02_DEBUG").is_ok() {
            eprintln!("worlds generated: {}", worlds.len());
        }
        // chunk iterator
        let words = [0u64, MAX, ALTERNATING, 1, 2, 3, 0x1B, rng.next_u64(), rng.next_u64(), rng.next_u64()];
        for w in words {
            for n in [0usize, 1, 2, 3, 4, 5, 7, 8, 9, 33, 70, 131] {
                out.push(Case::new(
                    Sexp::call("chunk", vec![Sexp::call("w", vec![Sexp::atom(w.to_string())]), Sexp::atom(n.to_string())]),
                    &["chunk", "chunk:word"],
                ));
            }
        }
        for _ in 0..40 {
            let k = rng.below(6);
            let sizes: Vec<Sexp> = (0..k).map(|_| Sexp::atom(rng.below(5).to_string())).collect();
            out.push(Case::new(
                Sexp::call("chunk", vec![Sexp::call("k", sizes), Sexp::atom(rng.below(20).to_string())]),
                &["chunk", "chunk:sizes"],
            ));
        }
        // the repo's numbers queries
        for stem in numbers_stems() {
            let Some(t) = load_numbers_query(&stem) else { continue };
            let has_fold = format!("{:?}", t.ir_query).contains("IRFold");
            let mut tags = vec!["numbers".to_string()];
            if has_fold {
                tags.push("fold".to_string());
            }
            out.push(Case {
                request: Sexp::call("batch-numbers", vec![Sexp::atom(stem.clone()), scheds_spec(rng.next_u64() >> 1, if tier == Tier::Quick { 8 } else { 200 })]),
                tags: tags.clone(),
            });
            tags.push("plan".to_string());
            out.push(Case {
                request: Sexp::call("plan-numbers", vec![Sexp::atom(stem.clone()), ir_to_sexp(&t.ir_query)]),
                tags,
            });
        }
        for w in &worlds {
            for q in w.accepted() {
                let tags: Vec<String> = q.gq.features.iter().cloned().collect();
                for d in 0..w.datasets.len() {
                    let Some(mut req) = w.request("batch-exec", d, q) else { continue };
                    if unbatched_exceeds(&req, GENERATOR_ROW_LIMIT) {
                        self.skipped_large.set(self.skipped_large.get() + 1);
                        continue;
                    }
                    if let Sexp::List(v) = &mut req {
                        v.push(scheds_spec(rng.next_u64() >> 1, n_rand));
                    }
                    out.push(Case { request: req, tags: tags.clone() });
                    if q.gq.features.contains("fold") {
                        if let Some(base_req) = w.request("carrier-trace", d, q) {
                            out.extend(trace_cases(&base_req, &tags, rng, if tier == Tier::Quick { 1 } else { 4 }));
                        }
                    }
                    let Some(plan) = w.request("plan", d, q) else { continue };
                    let mut t = tags.clone();
                    t.push("plan".to_string());
                    out.push(Case { request: plan, tags: t });
                }
            }
        }
        out
    }
    fn eval(&self, request: &Sexp) -> Option<String> {
        let (h, args) = request.as_call()?;
        if std::env::var("C02_DEBUG").is_ok() {
            let line = request.to_string();
            eprintln!("eval {}", line);
        }
        match h {
            "batch-exec" => eval_batch_exec(args),
            "batch-numbers" => eval_batch_numbers(args),
            "plan" => eval_plan(args),
            "carrier-trace" => eval_carrier_trace(args),
            "plan-numbers" => eval_plan_numbers(args),
            "chunk" => eval_chunk(args),
            _ => None,
        }
    }
    fn oracle(&self, evaluated: &[Evaluated]) -> Vec<OracleFailure> {
        let mut out = vec![];
        for e in evaluated {
            let Some(ans) = Sexp::parse(&e.answer) else { continue };
            // (key, failing schedule if any, what was observed)
            let (key, sched, got) = match ans.as_call() {
                Some(("batch-mismatch", [sched, got])) => {
                    let got = got.to_string();
                    let key = if got.starts_with("(got (panic") {
                        format!("panic-under-batching:{}", got.trim_start_matches("(got (panic ").trim_end_matches("))"))
                    } else {
                        "rows-differ-under-batching".to_string()
                    };
                    (key, Some(sched.clone()), got)
                }
                Some(("carrier-panic", [sched, class])) => {
                    let class = class.to_string();
                    let sched = if sched.as_atom() == Some("unbatched") { None } else { Some(sched.clone()) };
                    (format!("query-was-not-returned:{class}"), sched, format!("panic {class}"))
                }
                _ => continue,
            };
            // the same world with the single failing schedule (none: the unbatched run already fails)
            let mut replay = e.request.clone();
            if let Sexp::List(v) = &mut replay {
                if let Some(last) = v.last_mut() {
                    *last = Sexp::call("scheds", sched.iter().cloned().collect());
                }
            }
            let query = match e.request.as_call() {
                Some(("batch-numbers", [stem, ..])) => stem.as_atom().map(|s| format!("numbers test query {s}")),
                Some((_, a)) => a.get(2).and_then(|t| t.as_atom()).and_then(unhex).and_then(|b| String::from_utf8(b).ok()),
                None => None,
            };
            let sched_text = sched.map(|s| s.to_string()).unwrap_or_else(|| "none (unbatched run)".to_string());
            out.push(OracleFailure {
                key,
                detail: format!("schedule {sched_text} | query: {} | observed: {}", query.unwrap_or_default(), &got[..got.len().min(600)]),
                requests: vec![replay.to_string()],
            });
        }
        out
    }
    fn post_tags(&self, e: &Evaluated) -> Vec<String> {
        let mut t = vec![];
        let has_fold = e.tags.iter().any(|x| x == "fold");
        let head = e.request.as_call().map(|x| x.0).unwrap_or("");
        match head {
            "batch-exec" | "batch-numbers" => {
                if e.answer.starts_with("(rows (row") || e.answer == "ok" {
                    t.push("answer:rows".into());
                    if has_fold {
                        t.push("nt:fold+rows".into());
                    }
                } else if e.answer == "(rows)" {
                    t.push("answer:no-rows".into());
                } else if e.answer == "panic" {
                    t.push("answer:panic-in-both".into());
                } else {
                    t.push("answer:other".into());
                }
            }
            "plan" | "plan-numbers" => {
                if e.answer.contains("(clo (") {
                    t.push("plan:closure-with-brackets".into());
                    t.push("nt:plan+closure".into());
                }
                if e.answer.starts_with("(trace-mismatch") {
                    t.push("plan:trace-mismatch".into());
                }
            }
            _ => {}
        }
        t
    }
    fn extra_stats(&self, _evaluated: &[Evaluated]) -> serde_json::Value {
        let (checked, bursts, distinct) = TRACE_STATS.with(|c| c.get());
        serde_json::json!({
            "generator": self.stats.borrow().to_json(),
            "schedules_per_query": self.schedules_per_query.get(),
            "skipped_results_over_row_limit": {"limit": GENERATOR_ROW_LIMIT, "skipped": self.skipped_large.get()},
            "fixed_schedules": std_schedules().iter().map(|s| s.to_sexp().to_string()).collect::<Vec<_>>(),
            "batched_executions": BATCHED_RUNS.with(|c| c.get()),
            "real_interleavings_as_abstract_schedules": {"traces": ABS_STATS.with(|c| c.get().0), "closure_activations": ABS_STATS.with(|c| c.get().1), "reentrant_windows": ABS_STATS.with(|c| c.get().2)},
            "trace_conformance": {"plan_requests_with_conforming_log": checked, "closure_bursts_matched": bursts, "closure_bodies_seen": distinct},
        })
    }
}

fn main() {
    main_for(vec![Box::new(C02::default())]);
}
