//! C25 — `check_adapter_invariants` catches every contract violation it documents.
//!
//! Request: `(checker <view> <fault> <schema>)`
//! * `<schema>` = `(schema (type|interface Name (implements I…) <field>…)…)`, `<field>` =
//!   `(prop name Type)` | `(edge name Type (param Type default|-)…)`; the SDL text handed to
//!   `Schema::parse` is rendered from it (plus the directive prelude and a root query type with one
//!   entry point per vertex type). The Lean driver ignores this argument.
//! * `<view>` = what the checker's meta-queries should see, computed here from the generated structure
//!   (not through `SchemaAdapter`): `(view (props (T p…)…) (edges (T e (param 0|1)…)…) (coercions (I T)…))`.
//! * `<fault>` = `(none)` | `(prop T f nonnull|drop|dup|swap|tamper)` | `(nbr T e some|…)` | `(coerce T To true|…)`.
//!
//! Answer: `pass` | `fail:<payload|count|order|ctxshape>` — the class of the checker's own assertion;
//! a panic that does not come from correctness.rs' assertions is `crash:<key>` (never expected).
use std::collections::BTreeSet;
use std::sync::Arc;

use trustfall_core::interpreter::helpers::check_adapter_invariants;
use trustfall_core::interpreter::{
    Adapter, AsVertex, ContextIterator, ContextOutcomeIterator, DataContext, ResolveEdgeInfo, ResolveInfo,
    VertexIterator,
};
use trustfall_core::ir::{EdgeParameters, FieldValue};
use trustfall_core::schema::Schema;

use tfharness::framework::*;
use tfharness::rng::Rng;
use tfharness::sexp::Sexp;

pub struct C25;

// ---------------------------------------------------------------------------------------------
// schema description
// ---------------------------------------------------------------------------------------------

#[derive(Clone, Debug)]
struct Param {
    name: String,
    ty: String,
    default: Option<String>,
}

impl Param {
    /// "has a default value or is nullable" — the doc comment's notion of a checkable parameter
    fn defaulted(&self) -> bool {
        self.default.is_some() || !self.ty.ends_with('!')
    }
}

#[derive(Clone, Debug)]
enum Field {
    Prop { name: String, ty: String },
    Edge { name: String, ty: String, params: Vec<Param> },
}

impl Field {
    fn name(&self) -> &str {
        match self {
            Field::Prop { name, .. } | Field::Edge { name, .. } => name,
        }
    }
}

#[derive(Clone, Debug)]
struct TypeDef {
    name: String,
    is_interface: bool,
    implements: Vec<String>,
    fields: Vec<Field>,
}

const PRELUDE: &str = "schema {
    query: RootSchemaQuery
}
directive @filter(op: String!, value: [String!]) repeatable on FIELD | INLINE_FRAGMENT
directive @tag(name: String) repeatable on FIELD
directive @output(name: String) repeatable on FIELD
directive @optional on FIELD
directive @recurse(depth: Int!) on FIELD
directive @fold on FIELD
directive @transform(op: String!) repeatable on FIELD
";

fn render_sdl(types: &[TypeDef]) -> String {
    let mut s = String::from(PRELUDE);
    s.push_str("\ntype RootSchemaQuery {\n");
    for t in types {
        s.push_str(&format!("    {}: [{}!]!\n", t.name, t.name));
    }
    s.push_str("}\n");
    for t in types {
        s.push('\n');
        s.push_str(if t.is_interface { "interface " } else { "type " });
        s.push_str(&t.name);
        if !t.implements.is_empty() {
            s.push_str(" implements ");
            s.push_str(&t.implements.join(" & "));
        }
        s.push_str(" {\n");
        for f in &t.fields {
            match f {
                Field::Prop { name, ty } => s.push_str(&format!("    {name}: {ty}\n")),
                Field::Edge { name, ty, params } => {
                    s.push_str("    ");
                    s.push_str(name);
                    if !params.is_empty() {
                        let ps: Vec<String> = params
                            .iter()
                            .map(|p| match &p.default {
                                Some(d) => format!("{}: {} = {}", p.name, p.ty, d),
                                None => format!("{}: {}", p.name, p.ty),
                            })
                            .collect();
                        s.push_str(&format!("({})", ps.join(", ")));
                    }
                    s.push_str(&format!(": {ty}\n"));
                }
            }
        }
        s.push_str("}\n");
    }
    s
}

fn schema_to_sexp(types: &[TypeDef]) -> Sexp {
    let mut items = vec![];
    for t in types {
        let mut v = vec![
            Sexp::atom(if t.is_interface { "interface" } else { "type" }),
            Sexp::atom(&t.name),
            Sexp::call("implements", t.implements.iter().map(Sexp::atom).collect()),
        ];
        for f in &t.fields {
            match f {
                Field::Prop { name, ty } => v.push(Sexp::call("prop", vec![Sexp::atom(name), Sexp::atom(ty)])),
                Field::Edge { name, ty, params } => {
                    let mut e = vec![Sexp::atom(name), Sexp::atom(ty)];
                    for p in params {
                        e.push(Sexp::list(vec![
                            Sexp::atom(&p.name),
                            Sexp::atom(&p.ty),
                            Sexp::atom(p.default.clone().unwrap_or_else(|| "-".into())),
                        ]));
                    }
                    v.push(Sexp::call("edge", e));
                }
            }
        }
        items.push(Sexp::list(v));
    }
    Sexp::call("schema", items)
}

fn sexp_to_schema(s: &Sexp) -> Option<Vec<TypeDef>> {
    let (h, items) = s.as_call()?;
    if h != "schema" {
        return None;
    }
    let mut out = vec![];
    for it in items {
        let l = it.as_list()?;
        let kind = l.first()?.as_atom()?;
        let name = l.get(1)?.as_atom()?.to_string();
        let (ih, impls) = l.get(2)?.as_call()?;
        if ih != "implements" {
            return None;
        }
        let implements = impls.iter().map(|x| x.as_atom().map(str::to_string)).collect::<Option<Vec<_>>>()?;
        let mut fields = vec![];
        for f in &l[3..] {
            let (fh, args) = f.as_call()?;
            match fh {
                "prop" => fields.push(Field::Prop {
                    name: args.first()?.as_atom()?.to_string(),
                    ty: args.get(1)?.as_atom()?.to_string(),
                }),
                "edge" => {
                    let mut params = vec![];
                    for p in &args[2..] {
                        let pl = p.as_list()?;
                        let d = pl.get(2)?.as_atom()?;
                        params.push(Param {
                            name: pl.first()?.as_atom()?.to_string(),
                            ty: pl.get(1)?.as_atom()?.to_string(),
                            default: if d == "-" { None } else { Some(d.to_string()) },
                        });
                    }
                    fields.push(Field::Edge {
                        name: args.first()?.as_atom()?.to_string(),
                        ty: args.get(1)?.as_atom()?.to_string(),
                        params,
                    });
                }
                _ => return None,
            }
        }
        out.push(TypeDef { name, is_interface: kind == "interface", implements, fields });
    }
    Some(out)
}

/// The independent description of what the checker should enumerate.
fn view_sexp(types: &[TypeDef]) -> Sexp {
    let mut props = vec![];
    let mut edges = vec![];
    let mut coercions = vec![];
    for t in types {
        let mut p = vec![Sexp::atom(&t.name)];
        for f in &t.fields {
            match f {
                Field::Prop { name, .. } => p.push(Sexp::atom(name)),
                Field::Edge { name, params, .. } => {
                    let mut e = vec![Sexp::atom(&t.name), Sexp::atom(name)];
                    for q in params {
                        e.push(Sexp::list(vec![Sexp::atom(&q.name), Sexp::atom(if q.defaulted() { "1" } else { "0" })]));
                    }
                    edges.push(Sexp::list(e));
                }
            }
        }
        props.push(Sexp::list(p));
        for i in &t.implements {
            coercions.push(Sexp::list(vec![Sexp::atom(i), Sexp::atom(&t.name)]));
        }
    }
    Sexp::call("view", vec![Sexp::call("props", props), Sexp::call("edges", edges), Sexp::call("coercions", coercions)])
}

// ---------------------------------------------------------------------------------------------
// schema generator
// ---------------------------------------------------------------------------------------------

const TYPE_NAMES: &[&str] = &["Alpha", "Beta", "Gamma", "Delta", "Omega", "Node", "Item", "Thing"];
const WORDS: &[&str] = &["name", "value", "size", "label", "count", "next", "owner", "child", "link", "peer"];
const PROP_TYPES: &[&str] = &["String", "Int!", "[Float]", "[String!]!", "Boolean", "ID!", "Float!", "[Int]"];

fn gen_param(rng: &mut Rng, idx: usize) -> Param {
    // (type, a valid default)
    const CHOICES: &[(&str, &str)] = &[
        ("Int!", "5"),
        ("Int", "3"),
        ("String!", "\"abc\""),
        ("String", "null"),
        ("[Int!]!", "[1,2]"),
        ("Boolean!", "true"),
        ("Float!", "1.5"),
        ("[String]", "[null,\"x\"]"),
        // (`ID` is left out: `Type::is_valid_value` accepts no non-null value for it, so an `ID!`
        // parameter cannot carry a default in a valid schema)
    ];
    let (ty, d) = *rng.pick(CHOICES);
    let default = if rng.chance(1, 2) { Some(d.to_string()) } else { None };
    Param { name: format!("{}{}", ["min", "max", "key", "flag"][rng.below(4)], idx), ty: ty.to_string(), default }
}

fn wrap_edge_type(rng: &mut Rng, target: &str) -> String {
    match rng.below(5) {
        0 => target.to_string(),
        1 => format!("{target}!"),
        2 => format!("[{target}!]"),
        3 => format!("[{target}]!"),
        _ => format!("[{target}!]!"),
    }
}

fn base_of(ty: &str) -> &str {
    ty.trim_matches(|c| c == '[' || c == ']' || c == '!')
}

fn gen_schema(rng: &mut Rng) -> Vec<TypeDef> {
    let n = 2 + rng.below(4); // 2..=5 vertex types
    let mut names: Vec<&str> = TYPE_NAMES.to_vec();
    for i in (1..names.len()).rev() {
        names.swap(i, rng.below(i + 1));
    }
    let n_ifaces = rng.below(n.min(4)); // 0..=3, at least one object type
    let mut types: Vec<TypeDef> = vec![];
    // 1. names, kinds and the `implements` relation (transitively closed)
    for i in 0..n {
        let is_interface = i < n_ifaces;
        let mut implements: BTreeSet<String> = BTreeSet::new();
        let candidates: Vec<usize> = (0..i.min(n_ifaces)).collect();
        let picks = if candidates.is_empty() { 0 } else { rng.below(3) };
        for _ in 0..picks {
            let j = *rng.pick(&candidates);
            implements.insert(types[j].name.clone());
            for a in &types[j].implements {
                implements.insert(a.clone());
            }
        }
        // keep creation order of the interfaces (parents first)
        let ordered: Vec<String> =
            types.iter().filter(|t| implements.contains(&t.name)).map(|t| t.name.clone()).collect();
        types.push(TypeDef { name: names[i].to_string(), is_interface, implements: ordered, fields: vec![] });
    }
    // 2. fields: inherited ones (redeclared) + own ones
    for i in 0..n {
        let mut fields: Vec<Field> = vec![];
        let impls = types[i].implements.clone();
        for parent in &impls {
            let p = types.iter().find(|t| &t.name == parent).unwrap();
            for f in &p.fields {
                if fields.iter().any(|g| g.name() == f.name()) {
                    continue;
                }
                fields.push(f.clone());
            }
        }
        // variations on inherited fields that keep the schema valid
        let is_object = !types[i].is_interface;
        let my_name = types[i].name.clone();
        for f in fields.iter_mut() {
            match f {
                Field::Prop { ty, .. } => {
                    if is_object && !ty.ends_with('!') && rng.chance(1, 3) {
                        ty.push('!'); // narrowing nullable -> non-null
                    }
                }
                Field::Edge { ty, params, .. } => {
                    if is_object && rng.chance(1, 3) {
                        // narrow the target to this very type when it is a subtype of the target
                        let b = base_of(ty).to_string();
                        if impls.contains(&b) {
                            *ty = ty.replace(&b, &my_name);
                        }
                    }
                    for p in params.iter_mut() {
                        if rng.chance(1, 4) {
                            // defaults are free to differ between an interface and its implementers
                            if p.default.is_some() {
                                p.default = None;
                            } else if is_object && p.ty.ends_with('!') && rng.chance(1, 2) {
                                // widening non-null -> nullable (parameters are contravariant)
                                p.ty.pop();
                            }
                        }
                    }
                }
            }
        }
        let n_props = rng.below(3);
        let mut n_edges = rng.below(3);
        if fields.is_empty() && n_props + n_edges == 0 {
            n_edges = 1;
        }
        for k in 0..n_props {
            fields.push(Field::Prop {
                name: format!("{}_{}{}", rng.pick(WORDS), i, k),
                ty: rng.pick(PROP_TYPES).to_string(),
            });
        }
        for k in 0..n_edges {
            let target = names[rng.below(n)];
            let n_params = [0, 0, 1, 1, 2, 3][rng.below(6)];
            let params = (0..n_params).map(|q| gen_param(rng, q)).collect();
            fields.push(Field::Edge {
                name: format!("{}_{}e{}", rng.pick(WORDS), i, k),
                ty: wrap_edge_type(rng, target),
                params,
            });
        }
        types[i].fields = fields;
    }
    types
}

// ---------------------------------------------------------------------------------------------
// faults and the adapter under test
// ---------------------------------------------------------------------------------------------

#[derive(Clone, Copy, PartialEq, Eq, Debug)]
enum Resolver {
    Prop,
    Nbr,
    Coerce,
}

#[derive(Clone, Copy, PartialEq, Eq, Debug)]
enum Kind {
    Payload,
    Drop,
    Dup,
    Swap,
    Tamper,
}

const KINDS: [Kind; 5] = [Kind::Payload, Kind::Drop, Kind::Dup, Kind::Swap, Kind::Tamper];

#[derive(Clone, Debug)]
struct Fault {
    resolver: Resolver,
    type_name: String,
    field: String,
    kind: Kind,
}

impl Resolver {
    fn atom(self) -> &'static str {
        match self {
            Resolver::Prop => "prop",
            Resolver::Nbr => "nbr",
            Resolver::Coerce => "coerce",
        }
    }
    fn payload_word(self) -> &'static str {
        match self {
            Resolver::Prop => "nonnull",
            Resolver::Nbr => "some",
            Resolver::Coerce => "true",
        }
    }
}

fn kind_word(r: Resolver, k: Kind) -> &'static str {
    match k {
        Kind::Payload => r.payload_word(),
        Kind::Drop => "drop",
        Kind::Dup => "dup",
        Kind::Swap => "swap",
        Kind::Tamper => "tamper",
    }
}

fn fault_to_sexp(f: &Option<Fault>) -> Sexp {
    match f {
        None => Sexp::list(vec![Sexp::atom("none")]),
        Some(f) => Sexp::list(vec![
            Sexp::atom(f.resolver.atom()),
            Sexp::atom(&f.type_name),
            Sexp::atom(&f.field),
            Sexp::atom(kind_word(f.resolver, f.kind)),
        ]),
    }
}

fn sexp_to_fault(s: &Sexp) -> Option<Option<Fault>> {
    let l = s.as_list()?;
    let h = l.first()?.as_atom()?;
    if h == "none" && l.len() == 1 {
        return Some(None);
    }
    if l.len() != 4 {
        return None;
    }
    let resolver = match h {
        "prop" => Resolver::Prop,
        "nbr" => Resolver::Nbr,
        "coerce" => Resolver::Coerce,
        _ => return None,
    };
    let kw = l[3].as_atom()?;
    let kind = KINDS.iter().copied().find(|k| kind_word(resolver, *k) == kw)?;
    Some(Some(Fault { resolver, type_name: l[1].as_atom()?.to_string(), field: l[2].as_atom()?.to_string(), kind }))
}

/// Index at which every fault is injected (the model uses the same).
const FAULT_INDEX: usize = 3;

/// Vertices of the adapter under test. The checker never creates one; an honest resolver answers
/// something non-trivial for them so that the `None` case is a real branch.
#[derive(Clone, Debug)]
struct Vertex(#[allow(dead_code)] Arc<str>);

struct TestAdapter {
    fault: Option<Fault>,
}

impl TestAdapter {
    fn fault_at(&self, r: Resolver, type_name: &str, field: &str) -> Option<Kind> {
        self.fault
            .as_ref()
            .filter(|f| f.resolver == r && f.type_name == type_name && f.field == field)
            .map(|f| f.kind)
    }
}

/// Apply one fault to a fully materialised honest output.
fn apply_fault<V: Clone + std::fmt::Debug, T>(
    mut out: Vec<(DataContext<V>, T)>,
    kind: Kind,
    wrong: impl FnOnce() -> T,
    again: impl FnOnce(&T) -> T,
) -> Vec<(DataContext<V>, T)> {
    let i = FAULT_INDEX;
    match kind {
        Kind::Payload => {
            if i < out.len() {
                out[i].1 = wrong();
            }
        }
        Kind::Drop => {
            if i < out.len() {
                out.remove(i);
            }
        }
        Kind::Dup => {
            if i < out.len() {
                let copy = (out[i].0.clone(), again(&out[i].1));
                out.insert(i, copy);
            }
        }
        Kind::Swap => {
            if i + 1 < out.len() {
                out.swap(i, i + 1);
            }
        }
        Kind::Tamper => {
            if i < out.len() {
                out[i].0 = DataContext::new(None);
            }
        }
    }
    out
}

impl<'a> Adapter<'a> for TestAdapter {
    type Vertex = Vertex;

    fn resolve_starting_vertices(
        &self,
        _edge_name: &Arc<str>,
        _parameters: &EdgeParameters,
        _resolve_info: &ResolveInfo,
    ) -> VertexIterator<'a, Self::Vertex> {
        Box::new(std::iter::empty())
    }

    fn resolve_property<V: AsVertex<Self::Vertex> + 'a>(
        &self,
        contexts: ContextIterator<'a, V>,
        type_name: &Arc<str>,
        property_name: &Arc<str>,
        _resolve_info: &ResolveInfo,
    ) -> ContextOutcomeIterator<'a, V, FieldValue> {
        let honest = contexts.map(|ctx| {
            let value = match ctx.active_vertex::<Vertex>() {
                None => FieldValue::Null,
                Some(_) => FieldValue::Int64(1),
            };
            (ctx, value)
        });
        match self.fault_at(Resolver::Prop, type_name, property_name) {
            None => Box::new(honest),
            Some(kind) => Box::new(
                apply_fault(honest.collect(), kind, || FieldValue::Int64(7), |v| v.clone()).into_iter(),
            ),
        }
    }

    fn resolve_neighbors<V: AsVertex<Self::Vertex> + 'a>(
        &self,
        contexts: ContextIterator<'a, V>,
        type_name: &Arc<str>,
        edge_name: &Arc<str>,
        _parameters: &EdgeParameters,
        _resolve_info: &ResolveEdgeInfo,
    ) -> ContextOutcomeIterator<'a, V, VertexIterator<'a, Self::Vertex>> {
        let honest = contexts.map(|ctx| {
            let neighbors: VertexIterator<'a, Vertex> = match ctx.active_vertex::<Vertex>() {
                None => Box::new(std::iter::empty()),
                Some(v) => Box::new(std::iter::once(v.clone())),
            };
            (ctx, neighbors)
        });
        match self.fault_at(Resolver::Nbr, type_name, edge_name) {
            None => Box::new(honest),
            Some(kind) => Box::new(
                apply_fault(
                    honest.collect(),
                    kind,
                    || Box::new(std::iter::once(Vertex(Arc::from("ghost")))) as VertexIterator<'a, Vertex>,
                    |_| Box::new(std::iter::empty()) as VertexIterator<'a, Vertex>,
                )
                .into_iter(),
            ),
        }
    }

    fn resolve_coercion<V: AsVertex<Self::Vertex> + 'a>(
        &self,
        contexts: ContextIterator<'a, V>,
        type_name: &Arc<str>,
        coerce_to_type: &Arc<str>,
        _resolve_info: &ResolveInfo,
    ) -> ContextOutcomeIterator<'a, V, bool> {
        let honest = contexts.map(|ctx| {
            let can = ctx.active_vertex::<Vertex>().is_some();
            (ctx, can)
        });
        match self.fault_at(Resolver::Coerce, type_name, coerce_to_type) {
            None => Box::new(honest),
            Some(kind) => Box::new(apply_fault(honest.collect(), kind, || true, |b| *b).into_iter()),
        }
    }
}

/// Class of a panic raised inside `check_adapter_invariants`, from its location and message.
fn classify_panic(info: &str) -> String {
    let in_checker = info.contains("helpers/correctness.rs");
    let class = if !in_checker {
        None
    } else if info.contains("unexpectedly produced")
        || info.contains("produced a non-empty neighbor iterator")
        || info.contains("claimed that a non-existent vertex could be coerced")
    {
        Some("payload")
    } else if info.contains("adapter lost") || info.contains("attempt to subtract with overflow") {
        // duplicated contexts: the assertion message computes `initial.len() - final.len()`, which
        // overflows in builds with overflow checks; either way it is the count assertion that fired
        Some("count")
    } else if info.contains("illegally reordered contexts") {
        Some("order")
    } else if info.contains("no ordering value pushed")
        || info.contains("ordering value was not a number")
        || info.contains("more than one value in the values stack")
    {
        Some("ctxshape")
    } else {
        None
    };
    match class {
        Some(c) => format!("fail:{c}"),
        None => format!("crash:{}", panic_key(info)),
    }
}

// ---------------------------------------------------------------------------------------------
// coverage as documented by `check_adapter_invariants`' doc comment (used by the oracle only)
// ---------------------------------------------------------------------------------------------

#[derive(PartialEq, Eq, Debug, Clone, Copy)]
enum Coverage {
    Covered,
    /// an edge with a non-nullable parameter that has no default: "not checked" per the doc comment
    UncoveredRequiredParam,
    /// not a (type, field) of the schema at all (e.g. a coercion from implementer to interface)
    NotAPoint,
}

fn coverage(types: &[TypeDef], f: &Fault) -> Coverage {
    let Some(t) = types.iter().find(|t| t.name == f.type_name) else {
        return Coverage::NotAPoint;
    };
    match f.resolver {
        Resolver::Prop => {
            let declared = t.fields.iter().any(|x| matches!(x, Field::Prop { name, .. } if *name == f.field));
            if declared || f.field == "__typename" { Coverage::Covered } else { Coverage::NotAPoint }
        }
        Resolver::Nbr => {
            for x in &t.fields {
                if let Field::Edge { name, params, .. } = x {
                    if *name == f.field {
                        return if params.iter().all(Param::defaulted) {
                            Coverage::Covered
                        } else {
                            Coverage::UncoveredRequiredParam
                        };
                    }
                }
            }
            Coverage::NotAPoint
        }
        Resolver::Coerce => {
            let ok = types.iter().any(|to| to.name == f.field && to.implements.contains(&f.type_name));
            if ok { Coverage::Covered } else { Coverage::NotAPoint }
        }
    }
}

fn all_faults(types: &[TypeDef]) -> Vec<Fault> {
    let mut points: Vec<(Resolver, String, String)> = vec![];
    for t in types {
        for f in &t.fields {
            match f {
                Field::Prop { name, .. } => points.push((Resolver::Prop, t.name.clone(), name.clone())),
                Field::Edge { name, .. } => points.push((Resolver::Nbr, t.name.clone(), name.clone())),
            }
        }
        points.push((Resolver::Prop, t.name.clone(), "__typename".into()));
        for i in &t.implements {
            points.push((Resolver::Coerce, i.clone(), t.name.clone()));
            // not a coercion the engine performs: implementer -> interface
            points.push((Resolver::Coerce, t.name.clone(), i.clone()));
        }
    }
    // points outside the schema the checker must not trip over
    points.push((Resolver::Prop, "RootSchemaQuery".into(), "__typename".into()));
    points.push((Resolver::Prop, types[0].name.clone(), "no_such_property".into()));
    let mut out = vec![];
    for (r, t, f) in points {
        for k in KINDS {
            out.push(Fault { resolver: r, type_name: t.clone(), field: f.clone(), kind: k });
        }
    }
    out
}

fn parse_request(request: &Sexp) -> Option<(Vec<TypeDef>, Option<Fault>)> {
    let (h, args) = request.as_call()?;
    if h != "checker" || args.len() != 3 {
        return None;
    }
    let fault = sexp_to_fault(&args[1])?;
    let types = sexp_to_schema(&args[2])?;
    Some((types, fault))
}

impl Prop for C25 {
    fn id(&self) -> &'static str {
        "C25"
    }
    fn rule(&self) -> &'static str {
        "seeded schemas (2-5 vertex types; 0-3 interfaces with transitively closed implements clauses incl. diamonds; declared and inherited properties of assorted scalar types; edges with 0-3 parameters, each with or without a default, nullable or not, defaults differing between an interface and its implementers); per schema: the honest adapter plus EVERY single fault = (resolver kind) x (every (type, field) point incl. __typename on every type, every edge covered or not, every (interface, implementer) pair, plus a few non-points) x (wrong payload | dropped | duplicated | swapped context | fresh context). Non-trivial: the honest adapter, every fault at a point the doc comment covers (must be rejected), every fault at an edge with a required parameter (documented blind spot, must be accepted). Faults at non-points are trivial."
    }
    fn generate(&self, tier: Tier, rng: &mut Rng) -> Vec<Case> {
        let n_schemas = if tier == Tier::Quick { 25 } else { 400 };
        let mut out = vec![];
        for _ in 0..n_schemas {
            let types = gen_schema(rng);
            let view = view_sexp(&types);
            let schema = schema_to_sexp(&types);
            let mk = |f: &Option<Fault>| Sexp::call("checker", vec![view.clone(), fault_to_sexp(f), schema.clone()]);
            out.push(Case::new(mk(&None), &["honest", "nt:honest"]));
            for f in all_faults(&types) {
                let cov = coverage(&types, &f);
                let mut tags = vec![format!("fault:{}:{}", f.resolver.atom(), kind_word(f.resolver, f.kind))];
                if f.field == "__typename" {
                    tags.push("typename".into());
                }
                match cov {
                    Coverage::Covered => {
                        tags.push("covered".into());
                        tags.push("nt:covered-fault".into());
                    }
                    Coverage::UncoveredRequiredParam => {
                        tags.push("uncovered".into());
                        tags.push("nt:uncovered-required-param".into());
                    }
                    Coverage::NotAPoint => tags.push("not-a-point".into()),
                }
                let tag_refs: Vec<&str> = tags.iter().map(String::as_str).collect();
                out.push(Case::new(mk(&Some(f)), &tag_refs));
            }
        }
        out
    }
    fn eval(&self, request: &Sexp) -> Option<String> {
        let (types, fault) = parse_request(request)?;
        let sdl = render_sdl(&types);
        let schema = match Schema::parse(&sdl) {
            Ok(s) => s,
            Err(e) => return Some(format!("invalid-schema:{}", format!("{e:?}").replace(char::is_whitespace, "_"))),
        };
        let adapter = TestAdapter { fault };
        Some(match guarded(|| check_adapter_invariants(&schema, adapter)) {
            Ok(()) => "pass".to_string(),
            Err(info) => classify_panic(&info),
        })
    }
    fn post_tags(&self, e: &Evaluated) -> Vec<String> {
        vec![format!("answer:{}", e.answer.split(':').take(2).collect::<Vec<_>>().join(":"))]
    }
    fn oracle(&self, evaluated: &[Evaluated]) -> Vec<OracleFailure> {
        let mut fails = vec![];
        for e in evaluated {
            let Some((types, fault)) = parse_request(&e.request) else { continue };
            let mut fail = |key: String, detail: String| {
                fails.push(OracleFailure { key, detail, requests: vec![e.line.clone()] });
            };
            if e.answer.starts_with("crash:") || e.answer == "panic" || e.answer.starts_with("invalid-schema") {
                fail(
                    format!("checker-crashed:{}", e.answer),
                    format!("not one of the checker's assertions: {}", e.panic_info.clone().unwrap_or_default()),
                );
                continue;
            }
            let rejected = e.answer.starts_with("fail");
            match &fault {
                None => {
                    if rejected {
                        fail("honest-adapter-rejected".into(), e.answer.clone());
                    }
                }
                Some(f) => {
                    let what = format!("{}:{}", f.resolver.atom(), kind_word(f.resolver, f.kind));
                    match coverage(&types, f) {
                        Coverage::Covered => {
                            // `tamper` is not one of the violations the property names: no expectation
                            if !rejected && f.kind != Kind::Tamper {
                                let tn = if f.field == "__typename" { ":__typename" } else { "" };
                                fail(
                                    format!("violation-not-caught:{what}{tn}"),
                                    format!("fault at {} {} accepted", f.type_name, f.field),
                                );
                            }
                        }
                        Coverage::UncoveredRequiredParam | Coverage::NotAPoint => {
                            if rejected {
                                fail(
                                    format!("uncovered-fault-rejected:{what}"),
                                    format!("fault at {} {} is outside the documented coverage yet the checker failed: {}", f.type_name, f.field, e.answer),
                                );
                            }
                        }
                    }
                }
            }
        }
        fails
    }
    fn extra_stats(&self, evaluated: &[Evaluated]) -> serde_json::Value {
        let mut schemas = BTreeSet::new();
        let mut with_iface = 0usize;
        let mut with_required = 0usize;
        for e in evaluated {
            if let Some((_, args)) = e.request.as_call() {
                if let Some(s) = args.get(2) {
                    if schemas.insert(s.to_string()) {
                        let txt = s.to_string();
                        if txt.contains("(interface ") {
                            with_iface += 1;
                        }
                        if let Some(types) = sexp_to_schema(s) {
                            let req = types.iter().any(|t| {
                                t.fields.iter().any(|f| matches!(f, Field::Edge { params, .. } if !params.iter().all(Param::defaulted)))
                            });
                            if req {
                                with_required += 1;
                            }
                        }
                    }
                }
            }
        }
        serde_json::json!({
            "schemas": schemas.len(),
            "schemas_with_interfaces": with_iface,
            "schemas_with_required_parameter_edges": with_required,
            "fault_enumeration": "exhaustive per schema (every point x every fault kind)",
        })
    }
}

fn main() {
    main_for(vec![Box::new(C25)]);
}
