//! C18 — decoding rows / edge parameters into structs (`trustfall_core::TryIntoStruct`).
//!
//! Requests
//!   (decode <target> <value>)                      one-field struct `S<T>{x:T}` on the row {x: value}
//!   (decode-row ((name target)…) ((name value)…))  a multi-field struct from the table below
//!   (decode-params ((name target)…) ((name value)…)) the same through `&EdgeParameters`
//! Answers: `err` | `panic` | `(ok <decoded>)` resp. `(ok (name <decoded>)…)` (struct field order).
//! Decoded values: `(int <ty> <decimal>)`, `(f64 <key>)`, `(f32 <key of the f32 widened to f64>|inf|-inf)`,
//! `(s <hex>)`, `(c <hex>)`, `(b 0|1)`, `unit`, `none`, `(some x)`, `(l x…)`, `(t x…)`.
use std::collections::BTreeMap;
use std::sync::Arc;

use serde::Deserialize;
use serde::de::DeserializeOwned;
use trustfall_core::TryIntoStruct;
use trustfall_core::ir::{EdgeParameters, FieldValue};

use tfharness::framework::*;
use tfharness::rng::Rng;
use tfharness::sexp::{Sexp, hex};
use tfharness::values::*;

pub struct C18;

// ------------------------------------------------------------------------------------------------
// Canonical rendering of decoded Rust values + the s-expression naming each monomorphic target.

trait Tgt: DeserializeOwned {
    fn ty() -> String;
    fn render(&self) -> String;
}

macro_rules! int_tgt {
    ($($t:ident)*) => {$(
        impl Tgt for $t {
            fn ty() -> String { stringify!($t).to_string() }
            fn render(&self) -> String { format!("(int {} {})", stringify!($t), self) }
        }
    )*};
}
int_tgt!(i8 i16 i32 i64 u8 u16 u32 u64 isize usize i128 u128);

impl Tgt for f64 {
    fn ty() -> String {
        "f64".into()
    }
    fn render(&self) -> String {
        if self.is_finite() { format!("(f64 {})", float_key(*self)) } else { format!("(f64 {})", nonfinite(*self)) }
    }
}
fn nonfinite(x: f64) -> &'static str {
    if x.is_nan() {
        "nan"
    } else if x > 0.0 {
        "inf"
    } else {
        "-inf"
    }
}
impl Tgt for f32 {
    fn ty() -> String {
        "f32".into()
    }
    fn render(&self) -> String {
        // every finite f32 is exactly an f64: print the f64 key of the widened value
        let w = *self as f64;
        if w.is_finite() { format!("(f32 {})", float_key(w)) } else { format!("(f32 {})", nonfinite(w)) }
    }
}
impl Tgt for bool {
    fn ty() -> String {
        "bool".into()
    }
    fn render(&self) -> String {
        format!("(b {})", if *self { 1 } else { 0 })
    }
}
impl Tgt for String {
    fn ty() -> String {
        "string".into()
    }
    fn render(&self) -> String {
        format!("(s {})", hex(self.as_bytes()))
    }
}
impl Tgt for char {
    fn ty() -> String {
        "char".into()
    }
    fn render(&self) -> String {
        let mut b = [0u8; 4];
        format!("(c {})", hex(self.encode_utf8(&mut b).as_bytes()))
    }
}
impl Tgt for () {
    fn ty() -> String {
        "unit".into()
    }
    fn render(&self) -> String {
        "unit".into()
    }
}
impl<T: Tgt> Tgt for Option<T> {
    fn ty() -> String {
        format!("(option {})", T::ty())
    }
    fn render(&self) -> String {
        match self {
            None => "none".into(),
            Some(x) => format!("(some {})", x.render()),
        }
    }
}
impl<T: Tgt> Tgt for Vec<T> {
    fn ty() -> String {
        format!("(vec {})", T::ty())
    }
    fn render(&self) -> String {
        let mut s = "(l".to_string();
        for x in self {
            s.push(' ');
            s.push_str(&x.render());
        }
        s.push(')');
        s
    }
}
macro_rules! tuple_tgt {
    ($(($($n:tt $T:ident),+))*) => {$(
        impl<$($T: Tgt),+> Tgt for ($($T,)+) {
            fn ty() -> String {
                let parts: Vec<String> = vec![$($T::ty()),+];
                format!("(tuple {})", parts.join(" "))
            }
            fn render(&self) -> String {
                let parts: Vec<String> = vec![$(self.$n.render()),+];
                format!("(t {})", parts.join(" "))
            }
        }
    )*};
}
tuple_tgt! {
    (0 A)
    (0 A, 1 B)
    (0 A, 1 B, 2 C)
    (0 A, 1 B, 2 C, 3 D)
}

// ------------------------------------------------------------------------------------------------
// The one-field struct every `(decode …)` goes through, and the table of monomorphic targets.

#[derive(Deserialize)]
struct S<T> {
    x: T,
}

type DecodeFn = fn(FieldValue) -> Result<String, String>;

fn decode_as<T: Tgt>(v: FieldValue) -> Result<String, String> {
    let mut row: BTreeMap<Arc<str>, FieldValue> = BTreeMap::new();
    row.insert(Arc::from("x"), v);
    row.try_into_struct::<S<T>>().map(|s| s.x.render()).map_err(|e| e.to_string())
}

macro_rules! targets {
    ($($t:ty),* $(,)?) => {
        vec![$((<$t as Tgt>::ty(), decode_as::<$t> as DecodeFn)),*]
    };
}

fn target_table() -> Vec<(String, DecodeFn)> {
    targets![
        // every scalar production
        i8, i16, i32, i64, u8, u16, u32, u64, isize, usize, i128, u128, f32, f64, bool, String, char, (),
        // option
        Option<i8>, Option<i16>, Option<i32>, Option<i64>, Option<u8>, Option<u32>, Option<u64>, Option<f64>,
        Option<f32>, Option<bool>, Option<String>, Option<char>, Option<()>, Option<Option<i8>>,
        Option<Vec<i8>>, Option<(i8, u64)>, Option<Vec<Option<u16>>>,
        // vec
        Vec<i8>, Vec<i16>, Vec<i32>, Vec<i64>, Vec<u8>, Vec<u16>, Vec<u32>, Vec<u64>, Vec<f64>, Vec<f32>,
        Vec<bool>, Vec<String>, Vec<()>, Vec<Option<u8>>, Vec<Option<i64>>, Vec<Option<String>>,
        Vec<Vec<u32>>, Vec<Vec<i8>>, Vec<(u8, i64)>, Vec<Option<Vec<i16>>>, Vec<Vec<Option<u16>>>,
        Vec<Vec<Vec<u8>>>, Vec<(String, Option<i32>)>,
        // tuple
        (i8,), (i8, u64), (u16, i32), (u64, String), (f64, i64), (String, bool, Option<i32>),
        (Vec<u8>, i16), ((i8, u8), u32), (Option<u64>, Option<i8>), (i8, i8, i8, i8),
        (Vec<(u8, i16)>, Option<Vec<i8>>), (Option<(i16, u8)>, bool),
    ]
}

// ------------------------------------------------------------------------------------------------
// Multi-field structs for `decode-row` / `decode-params`.

type RowFn = fn(BTreeMap<Arc<str>, FieldValue>, bool) -> Result<String, String>;

fn run_row<R: DeserializeOwned>(row: BTreeMap<Arc<str>, FieldValue>, via_params: bool, render: fn(&R) -> String) -> Result<String, String> {
    let r: Result<R, _> = if via_params {
        // `EdgeParameters::new` is crate-private; the derived `Deserialize` (externally tagged
        // `FieldValue`s, so Int64/Uint64 and float bits are preserved) builds one exactly.
        let contents = serde_json::to_value(&row).map_err(|e| format!("setup: {e}"))?;
        let params: EdgeParameters =
            serde_json::from_value(serde_json::json!({ "contents": contents })).expect("EdgeParameters setup");
        assert!(params.iter().count() == row.len());
        for (k, v) in &row {
            assert!(same_bits(params.get(k).expect("key"), v), "EdgeParameters setup changed a value");
        }
        (&params).try_into_struct::<R>()
    } else {
        row.try_into_struct::<R>()
    };
    r.map(|s| render(&s)).map_err(|e| e.to_string())
}

/// exact (representation-sensitive) equality, used only to validate the EdgeParameters set-up
fn same_bits(a: &FieldValue, b: &FieldValue) -> bool {
    match (a, b) {
        (FieldValue::Null, FieldValue::Null) => true,
        (FieldValue::Int64(x), FieldValue::Int64(y)) => x == y,
        (FieldValue::Uint64(x), FieldValue::Uint64(y)) => x == y,
        (FieldValue::Float64(x), FieldValue::Float64(y)) => x.to_bits() == y.to_bits(),
        (FieldValue::String(x), FieldValue::String(y)) => x == y,
        (FieldValue::Enum(x), FieldValue::Enum(y)) => x == y,
        (FieldValue::Boolean(x), FieldValue::Boolean(y)) => x == y,
        (FieldValue::List(x), FieldValue::List(y)) => x.len() == y.len() && x.iter().zip(y.iter()).all(|(a, b)| same_bits(a, b)),
        _ => false,
    }
}

macro_rules! row_struct {
    ($name:ident { $($f:ident : $t:ty),* $(,)? }) => {
        #[derive(Deserialize)]
        struct $name { $($f: $t),* }
        impl $name {
            fn fields() -> String {
                let parts: Vec<String> = vec![$(format!("({} {})", stringify!($f), <$t as Tgt>::ty())),*];
                format!("({})", parts.join(" "))
            }
            fn render(&self) -> String {
                let parts: Vec<String> = vec![$(format!("({} {})", stringify!($f), self.$f.render())),*];
                parts.join(" ")
            }
            fn run(row: BTreeMap<Arc<str>, FieldValue>, via_params: bool) -> Result<String, String> {
                run_row::<$name>(row, via_params, $name::render)
            }
        }
    };
}

row_struct!(R0 {});
row_struct!(R1 { a: i8, b: String });
row_struct!(R2 { b: u64, a: Option<i32>, c: Vec<u8> });
row_struct!(R3 { n: i64, m: u8, o: Option<Option<u16>>, t: (i8, u64) });
row_struct!(R4 { p: Option<String>, q: Option<i8> });
row_struct!(R5 { count: usize, name: String, tags: Vec<String>, ratio: f64, flag: bool });
row_struct!(R6 { z: i16, y: u32, x: i32, w: u16 });

fn row_table() -> Vec<(String, RowFn)> {
    vec![
        (R0::fields(), R0::run as RowFn),
        (R1::fields(), R1::run as RowFn),
        (R2::fields(), R2::run as RowFn),
        (R3::fields(), R3::run as RowFn),
        (R4::fields(), R4::run as RowFn),
        (R5::fields(), R5::run as RowFn),
        (R6::fields(), R6::run as RowFn),
    ]
}

// ------------------------------------------------------------------------------------------------
// Value generation.

fn iv(n: i128) -> Vec<FieldValue> {
    // every representation in which `n` can be carried
    let mut out = vec![];
    if let Ok(i) = i64::try_from(n) {
        out.push(FieldValue::Int64(i));
    }
    if let Ok(u) = u64::try_from(n) {
        out.push(FieldValue::Uint64(u));
    }
    out
}

/// boundary integers: `values::boundary_ints()` plus ±(2^7, 2^8, 2^15, 2^16, 2^31, 2^32, 2^53) ± 1 and the
/// 24/53-bit mantissa edges, each in both representations where it fits.
fn int_pool() -> Vec<FieldValue> {
    let mut out = boundary_ints();
    for p in [7u32, 8, 15, 16, 24, 31, 32, 53, 63] {
        for d in [-1i128, 0, 1] {
            for s in [1i128, -1] {
                out.extend(iv(s * (1i128 << p) + d));
            }
        }
    }
    for n in [3i128, 100, -100, 127, 255, 16777217, 9007199254740993] {
        out.extend(iv(n));
    }
    let mut seen = std::collections::BTreeSet::new();
    out.retain(|v| seen.insert(render_value(v)));
    out
}

fn float_pool() -> Vec<FieldValue> {
    let mut v = boundary_floats();
    for f in [
        1.234f64,
        0.1,
        16777216.0,
        16777217.0,
        3.4028234663852886e38,  // f32::MAX
        3.4028235677973366e38,  // halfway between f32::MAX and 2^128: rounds to inf
        3.40282356779733e38,    // just below the halfway point: rounds to f32::MAX
        -3.5e38,
        1.401298464324817e-45,  // f32 min subnormal
        7.006492321624085e-46,  // half of it: ties to even -> 0
        7.1e-46,
        1.1754943508222875e-38, // f32 min normal
        1.1754942106924411e-38, // largest f32 subnormal
        1e-320,
        127.0,
        128.0,
        -1.5,
        9007199254740992.0,
    ] {
        v.push(FieldValue::Float64(f));
    }
    v
}

fn scalar_pool_c18() -> Vec<FieldValue> {
    let mut v = vec![FieldValue::Null, FieldValue::Boolean(false), FieldValue::Boolean(true)];
    v.extend(int_pool());
    v.extend(float_pool());
    v.extend(boundary_strings());
    v.push(FieldValue::Enum(Arc::from("a")));
    v.push(FieldValue::Enum(Arc::from("Bc")));
    v.push(FieldValue::List(vec![].into()));
    v.push(FieldValue::List(vec![FieldValue::Null].into()));
    v.push(FieldValue::List(vec![FieldValue::Int64(1)].into()));
    v.push(FieldValue::List(vec![FieldValue::Uint64(1), FieldValue::Int64(2)].into()));
    v.push(FieldValue::List(vec![FieldValue::List(vec![FieldValue::Uint64(7)].into())].into()));
    v.push(FieldValue::List(vec![FieldValue::from("a"), FieldValue::Boolean(true), FieldValue::Null].into()));
    v.push(FieldValue::List(vec![FieldValue::Enum(Arc::from("a"))].into()));
    v
}

fn int_bounds(t: &str) -> Option<(i128, i128)> {
    Some(match t {
        "i8" => (i8::MIN as i128, i8::MAX as i128),
        "i16" => (i16::MIN as i128, i16::MAX as i128),
        "i32" => (i32::MIN as i128, i32::MAX as i128),
        "i64" | "isize" => (i64::MIN as i128, i64::MAX as i128),
        "u8" => (0, u8::MAX as i128),
        "u16" => (0, u16::MAX as i128),
        "u32" => (0, u32::MAX as i128),
        "u64" | "usize" => (0, u64::MAX as i128),
        "i128" => (i128::MIN, i128::MAX),
        "u128" => (0, i128::MAX), // every source number is below 2^64 anyway
        _ => return None,
    })
}

fn random_int_near(t: &str, rng: &mut Rng) -> FieldValue {
    let (lo, hi) = int_bounds(t).unwrap();
    let lo = lo.max(i64::MIN as i128);
    let hi = hi.min(u64::MAX as i128);
    let n: i128 = match rng.below(16) {
        0..=2 => lo + rng.below(3) as i128,
        3 => lo - 1 - rng.below(3) as i128,
        4..=6 => hi - rng.below(3) as i128,
        7 => hi + 1 + rng.below(3) as i128,
        8..=10 => rng.below(5) as i128 - 2,
        11..=13 => {
            // anywhere inside
            let span = (hi - lo) as u128 + 1;
            lo + ((rng.next_u64() as u128 * 0x1_0000_0001u128 + rng.next_u64() as u128) % span) as i128
        }
        14 => rng.next_u64() as i64 as i128,
        _ => rng.next_u64() as i128,
    };
    let n = n.clamp(i64::MIN as i128, u64::MAX as i128);
    let reps = iv(n);
    rng.pick(&reps).clone()
}

/// A value shaped for `target` (mostly), with boundary integers, sometimes a foreign kind.
fn shaped(target: &Sexp, rng: &mut Rng, depth: usize) -> FieldValue {
    if rng.chance(1, 14) {
        return rng.pick(&scalar_pool_c18()).clone();
    }
    if let Some(a) = target.as_atom() {
        return match a {
            "f32" | "f64" => match rng.below(5) {
                0 => random_int(rng),
                1 => {
                    let mut f = f64::from_bits(rng.next_u64());
                    if !f.is_finite() {
                        f = 2.5;
                    }
                    FieldValue::Float64(f)
                }
                2 => FieldValue::Float64((rng.next_u64() as f32 / 7.0) as f64),
                _ => rng.pick(&float_pool()).clone(),
            },
            "bool" => FieldValue::Boolean(rng.chance(1, 2)),
            "string" => rng.pick(&boundary_strings()).clone(),
            "char" => rng.pick(&boundary_strings()).clone(),
            "unit" => FieldValue::Null,
            t => random_int_near(t, rng),
        };
    }
    let (h, args) = target.as_call().unwrap();
    match h {
        "option" => {
            if rng.chance(1, 4) {
                FieldValue::Null
            } else {
                shaped(&args[0], rng, depth)
            }
        }
        "vec" => {
            let n = rng.below(5);
            FieldValue::List((0..n).map(|_| shaped(&args[0], rng, depth + 1)).collect::<Vec<_>>().into())
        }
        "tuple" => {
            let mut items: Vec<FieldValue> = args.iter().map(|t| shaped(t, rng, depth + 1)).collect();
            match rng.below(12) {
                0 => {
                    items.pop();
                }
                1 => items.push(FieldValue::Int64(1)),
                2 => items.clear(),
                _ => {}
            }
            FieldValue::List(items.into())
        }
        _ => FieldValue::Null,
    }
}

fn top_shape_matches(target: &Sexp, v: &FieldValue) -> bool {
    if let Some(a) = target.as_atom() {
        return match a {
            "f32" | "f64" => matches!(v, FieldValue::Float64(_) | FieldValue::Int64(_) | FieldValue::Uint64(_)),
            "bool" => matches!(v, FieldValue::Boolean(_)),
            "string" | "char" => matches!(v, FieldValue::String(_)),
            "unit" => matches!(v, FieldValue::Null),
            _ => matches!(v, FieldValue::Int64(_) | FieldValue::Uint64(_)),
        };
    }
    let (h, args) = target.as_call().unwrap();
    match h {
        "option" => matches!(v, FieldValue::Null) || top_shape_matches(&args[0], v),
        _ => matches!(v, FieldValue::List(_)),
    }
}

// ------------------------------------------------------------------------------------------------
// The property, evaluated independently of the Lean model: a specification of what a faithful
// decoder must answer, as a pattern (atom `_` = any sub-answer, used where rounding is allowed).

enum Spec {
    Pat(Sexp),
    Err(&'static str),
    /// target outside the property's quantifier and value of the matching kind: any answer but a panic
    NoClaim,
}

fn num(v: &FieldValue) -> Option<i128> {
    match v {
        FieldValue::Int64(i) => Some(*i as i128),
        FieldValue::Uint64(u) => Some(*u as i128),
        _ => None,
    }
}

fn at(s: &str) -> Sexp {
    Sexp::atom(s)
}

fn spec(target: &Sexp, v: &FieldValue) -> Spec {
    if let Some(a) = target.as_atom() {
        return match a {
            "f64" => match v {
                FieldValue::Float64(f) => Spec::Pat(Sexp::call("f64", vec![at(&float_key(*f).to_string())])),
                // an integer into a float target: exact when representable, otherwise outside the claim
                _ if num(v).is_some() => {
                    let n = num(v).unwrap();
                    if int_exact_in_bits(n, 53) {
                        Spec::Pat(Sexp::call("f64", vec![at(&float_key(n as f64).to_string())]))
                    } else {
                        Spec::Pat(Sexp::call("f64", vec![at("_")]))
                    }
                }
                _ => Spec::Err("wrong-kind"),
            },
            "f32" => match v {
                FieldValue::Float64(f) => {
                    // representable in f32 <=> narrowing and widening gives the number back
                    if ((*f as f32) as f64) == *f {
                        Spec::Pat(Sexp::call("f32", vec![at(&float_key(*f).to_string())]))
                    } else {
                        Spec::Pat(Sexp::call("f32", vec![at("_")]))
                    }
                }
                _ if num(v).is_some() => {
                    let n = num(v).unwrap();
                    if int_exact_in_bits(n, 24) {
                        Spec::Pat(Sexp::call("f32", vec![at(&float_key(n as f64).to_string())]))
                    } else {
                        Spec::Pat(Sexp::call("f32", vec![at("_")]))
                    }
                }
                _ => Spec::Err("wrong-kind"),
            },
            "bool" => match v {
                FieldValue::Boolean(b) => Spec::Pat(Sexp::call("b", vec![at(if *b { "1" } else { "0" })])),
                _ => Spec::Err("wrong-kind"),
            },
            "string" => match v {
                FieldValue::String(s) => Spec::Pat(Sexp::call("s", vec![at(&hex(s.as_bytes()))])),
                // an enum value is its name: representable in a string target
                FieldValue::Enum(s) => Spec::Pat(Sexp::call("s", vec![at(&hex(s.as_bytes()))])),
                _ => Spec::Err("wrong-kind"),
            },
            "char" => match v {
                FieldValue::String(s) if s.chars().count() == 1 => Spec::Pat(Sexp::call("c", vec![at(&hex(s.as_bytes()))])),
                _ => Spec::Err("wrong-kind"),
            },
            // serde's unit visitor accepts only `visit_unit`, which this deserializer never calls:
            // nothing is claimed for `()` except that no value of another kind is accepted.
            "unit" => match v {
                FieldValue::Null => Spec::NoClaim,
                _ => Spec::Err("wrong-kind"),
            },
            t => {
                let (lo, hi) = int_bounds(t).expect("integer target");
                match num(v) {
                    Some(n) if lo <= n && n <= hi => Spec::Pat(Sexp::call("int", vec![at(t), at(&n.to_string())])),
                    Some(_) => Spec::Err("out-of-range"),
                    None => Spec::Err("wrong-kind"),
                }
            }
        };
    }
    let (h, args) = target.as_call().unwrap();
    match h {
        "option" => match v {
            FieldValue::Null => Spec::Pat(at("none")),
            _ => match spec(&args[0], v) {
                Spec::Pat(p) => Spec::Pat(Sexp::call("some", vec![p])),
                e => e,
            },
        },
        "vec" => match v {
            FieldValue::List(l) => {
                let mut items = vec![];
                for x in l.iter() {
                    match spec(&args[0], x) {
                        Spec::Pat(p) => items.push(p),
                        e => return e,
                    }
                }
                Spec::Pat(Sexp::call("l", items))
            }
            _ => Spec::Err("wrong-kind"),
        },
        "tuple" => match v {
            FieldValue::List(l) if l.len() == args.len() => {
                let mut items = vec![];
                for (t, x) in args.iter().zip(l.iter()) {
                    match spec(t, x) {
                        Spec::Pat(p) => items.push(p),
                        e => return e,
                    }
                }
                Spec::Pat(Sexp::call("t", items))
            }
            FieldValue::List(_) => Spec::Err("length-mismatch"),
            _ => Spec::Err("wrong-kind"),
        },
        _ => Spec::Err("unknown-target"),
    }
}

fn int_exact_in_bits(n: i128, bits: u32) -> bool {
    let m = n.unsigned_abs();
    if m == 0 {
        return true;
    }
    let len = 128 - m.leading_zeros();
    len <= bits || (m & ((1u128 << (len - bits)) - 1)) == 0
}

/// first difference between a pattern and an answer → failure key
fn mismatch(pat: &Sexp, ans: &Sexp) -> Option<&'static str> {
    if pat.as_atom() == Some("_") {
        return None;
    }
    match (pat, ans) {
        (Sexp::Atom(a), Sexp::Atom(b)) => (a != b).then_some("wrong-value"),
        (Sexp::List(a), Sexp::List(b)) => {
            if a.first().and_then(|x| x.as_atom()) == Some("int") && b.first().and_then(|x| x.as_atom()) == Some("int") {
                return (a != b).then_some("int-truncated");
            }
            if a.len() != b.len() {
                return Some("wrong-value");
            }
            a.iter().zip(b.iter()).find_map(|(x, y)| mismatch(x, y))
        }
        _ => Some("wrong-value"),
    }
}

fn contains_enum(v: &FieldValue) -> bool {
    match v {
        FieldValue::Enum(_) => true,
        FieldValue::List(l) => l.iter().any(contains_enum),
        _ => false,
    }
}

fn judge(spec: Spec, answer: &str, e: &Evaluated) -> Option<(String, String)> {
    if answer == "panic" {
        let info = e.panic_info.clone().unwrap_or_default();
        return Some((panic_key(&info), info));
    }
    match (spec, answer) {
        (Spec::NoClaim, _) => None,
        (Spec::Err(_), "err") => None,
        (Spec::Err(why), _) => Some((format!("accepts-{why}"), format!("answer {answer}"))),
        (Spec::Pat(p), "err") => Some(("rejects-representable".into(), format!("expected {p}"))),
        (Spec::Pat(p), a) => {
            let ans = Sexp::parse(a)?;
            let (h, args) = ans.as_call()?;
            if h != "ok" {
                return Some(("bad-answer".into(), a.to_string()));
            }
            let body = if args.len() == 1 { args[0].clone() } else { Sexp::list(args.to_vec()) };
            mismatch(&p, &body).map(|k| (k.to_string(), format!("expected {p} got {body}")))
        }
    }
}

fn parse_fields(s: &Sexp) -> Option<Vec<(String, Sexp)>> {
    s.as_list()?
        .iter()
        .map(|p| {
            let l = p.as_list()?;
            if l.len() != 2 {
                return None;
            }
            Some((l[0].as_atom()?.to_string(), l[1].clone()))
        })
        .collect()
}

fn parse_row(s: &Sexp) -> Option<Vec<(String, FieldValue)>> {
    let mut out = vec![];
    let mut seen = std::collections::BTreeSet::new();
    for p in s.as_list()? {
        let l = p.as_list()?;
        if l.len() != 2 {
            return None;
        }
        let k = l[0].as_atom()?.to_string();
        if !seen.insert(k.clone()) {
            return None; // duplicate keys are not a row
        }
        out.push((k, sexp_to_value(&l[1])?));
    }
    Some(out)
}

/// what a faithful row decoder must answer (struct field order): every present field per `spec`,
/// extra keys ignored, a missing field only acceptable for an `Option` target (→ none).
fn spec_row(fields: &[(String, Sexp)], row: &[(String, FieldValue)]) -> Spec {
    let mut items = vec![];
    for (name, t) in fields {
        match row.iter().find(|(k, _)| k == name) {
            Some((_, v)) => match spec(t, v) {
                Spec::Pat(p) => items.push(Sexp::list(vec![at(name), p])),
                e => return e,
            },
            None => {
                if t.as_call().map(|c| c.0) == Some("option") {
                    items.push(Sexp::list(vec![at(name), at("none")]));
                } else {
                    return Spec::Err("missing-field");
                }
            }
        }
    }
    Spec::Pat(Sexp::list(items))
}

impl Prop for C18 {
    fn id(&self) -> &'static str {
        "C18"
    }
    fn rule(&self) -> &'static str {
        "(decode <target> <value>): every monomorphic target of the table (12 integer types, f32, f64, bool, String, char, (), Option/Vec/tuple compositions to depth 3) decoded through `#[derive(Deserialize)] struct S<T>{x:T}` with `try_into_struct` from the one-entry row {x: value}. Values: for every target the whole scalar pool (boundary integers of every width in both Int64/Uint64 representations incl. ±2^7, 2^8, 2^15, 2^16, 2^24, 2^31, 2^32, 2^53, 2^63 ± 1, float boundaries incl. f32 overflow/underflow/tie points, strings, bools, null, enums, small lists) plus seeded values shaped for the target (integers drawn at the target's own bounds ±3 in a random representation, lists/tuples with correct and off-by-one lengths, nulls and foreign kinds injected at every depth). (decode-row fields row) / (decode-params fields row): multi-field structs with present, missing (Option and non-Option), extra and ill-typed fields, through the BTreeMap impl and through &EdgeParameters. A case is non-trivial when the value has the target's top-level shape (integer into a numeric target, list into Vec/tuple, …), i.e. the outcome is decided by ranges, lengths or nested elements rather than by an immediate kind mismatch. Oracle (independent of the model): integer target => ok iff the source number lies in the target's range (i128 arithmetic) and the decoded number equals the source; other targets => the decoded value equals the source; Option <- Null is none; tuple needs equal length; a missing struct field is acceptable only for Option; panics are failures."
    }
    fn generate(&self, tier: Tier, rng: &mut Rng) -> Vec<Case> {
        let mut out = vec![];
        let pool = scalar_pool_c18();
        let per_target = if tier == Tier::Quick { 320 } else { 6000 };
        for (ty, _) in target_table() {
            let tsx = Sexp::parse(&ty).unwrap();
            let mut vals: Vec<FieldValue> = pool.clone();
            for _ in 0..per_target {
                vals.push(shaped(&tsx, rng, 0));
            }
            for v in vals {
                let mut tags = vec![format!("target:{}", ty.replace(' ', "_")), format!("value:{}", kind_name(&v))];
                if top_shape_matches(&tsx, &v) {
                    tags.push("nt:shape-match".into());
                }
                let tags: Vec<&str> = tags.iter().map(|s| s.as_str()).collect();
                out.push(Case::new(Sexp::call("decode", vec![tsx.clone(), value_to_sexp(&v)]), &tags));
            }
        }
        // rows
        let n_rows = if tier == Tier::Quick { 400 } else { 6000 };
        for (fields, _) in row_table() {
            let fsx = Sexp::parse(&fields).unwrap();
            let fl = parse_fields(&fsx).unwrap();
            for i in 0..n_rows {
                let mut row: BTreeMap<String, FieldValue> = BTreeMap::new();
                let mut shape_ok = true;
                for (name, t) in &fl {
                    // mostly present and well-shaped; sometimes missing
                    if rng.chance(1, 9) {
                        shape_ok = false;
                        continue;
                    }
                    let v = shaped(t, rng, 0);
                    shape_ok &= top_shape_matches(t, &v);
                    row.insert(name.clone(), v);
                }
                let mut extra = false;
                for k in ["aa", "extra", "x", "zz", "m0"] {
                    if rng.chance(1, 6) && !fl.iter().any(|(n, _)| n == k) {
                        row.insert(k.to_string(), rng.pick(&pool).clone());
                        extra = true;
                    }
                }
                let rsx = Sexp::list(row.iter().map(|(k, v)| Sexp::list(vec![at(k), value_to_sexp(v)])).collect());
                let cmd = if i % 3 == 2 { "decode-params" } else { "decode-row" };
                let mut tags = vec![cmd.to_string(), format!("fields:{}", fl.len())];
                if extra {
                    tags.push("extra-keys".into());
                }
                if shape_ok {
                    tags.push("nt:all-fields-shaped".into());
                }
                let tags: Vec<&str> = tags.iter().map(|s| s.as_str()).collect();
                out.push(Case::new(Sexp::call(cmd, vec![fsx.clone(), rsx]), &tags));
            }
        }
        out
    }
    fn eval(&self, request: &Sexp) -> Option<String> {
        thread_local! {
            static TARGETS: std::collections::HashMap<String, DecodeFn> = target_table().into_iter().collect();
            static ROWS: std::collections::HashMap<String, RowFn> = row_table().into_iter().collect();
        }
        let (h, args) = request.as_call()?;
        match (h, args) {
            ("decode", [t, v]) => {
                let f = TARGETS.with(|m| m.get(&t.to_string()).copied())?;
                let v = sexp_to_value(v)?;
                Some(match f(v) {
                    Ok(s) => format!("(ok {s})"),
                    Err(_) => "err".to_string(),
                })
            }
            ("decode-row" | "decode-params", [fields, row]) => {
                let f = ROWS.with(|m| m.get(&fields.to_string()).copied())?;
                let row = parse_row(row)?;
                let map: BTreeMap<Arc<str>, FieldValue> = row.into_iter().map(|(k, v)| (Arc::from(k.as_str()), v)).collect();
                Some(match f(map, h == "decode-params") {
                    Ok(s) if s.is_empty() => "(ok)".to_string(),
                    Ok(s) => format!("(ok {s})"),
                    Err(_) => "err".to_string(),
                })
            }
            _ => None,
        }
    }
    fn post_tags(&self, e: &Evaluated) -> Vec<String> {
        let mut t = vec![];
        if e.answer == "err" {
            t.push("answer:err".to_string());
        } else if e.answer == "panic" {
            t.push("answer:panic".to_string());
        } else if e.answer.starts_with("(ok") {
            t.push("answer:ok".to_string());
        }
        t
    }
    fn oracle(&self, evaluated: &[Evaluated]) -> Vec<OracleFailure> {
        let mut fails = vec![];
        for e in evaluated {
            let Some((h, args)) = e.request.as_call() else { continue };
            let verdict = match (h, args) {
                ("decode", [t, v]) => {
                    let Some(v) = sexp_to_value(v) else { continue };
                    if e.answer == "bad-op" {
                        continue;
                    }
                    judge(spec(t, &v), &e.answer, e)
                }
                ("decode-row" | "decode-params", [fields, row]) => {
                    let (Some(fl), Some(row)) = (parse_fields(fields), parse_row(row)) else { continue };
                    if e.answer == "bad-op" {
                        continue;
                    }
                    judge(spec_row(&fl, &row), &e.answer, e)
                }
                _ => None,
            };
            if let Some((key, detail)) = verdict {
                fails.push(OracleFailure { key, detail, requests: vec![e.line.clone()] });
            }
        }
        fails
    }
    fn extra_stats(&self, evaluated: &[Evaluated]) -> serde_json::Value {
        // observations that are outside the property's claim but worth counting
        let mut int_into_float_rounded = 0u64;
        let mut int_into_float_exact = 0u64;
        let mut f32_inf = 0u64;
        let mut enum_values = 0u64;
        for e in evaluated {
            if let Some(("decode", [t, v])) = e.request.as_call() {
                if let (Some(t), Some(v)) = (t.as_atom(), sexp_to_value(v)) {
                    if contains_enum(&v) {
                        enum_values += 1;
                    }
                    if (t == "f32" || t == "f64") && num(&v).is_some() {
                        if let Spec::Pat(p) = spec(&Sexp::atom(t), &v) {
                            if p.to_string().contains('_') { int_into_float_rounded += 1 } else { int_into_float_exact += 1 }
                        }
                    }
                    if e.answer.contains("inf") {
                        f32_inf += 1;
                    }
                }
            }
        }
        serde_json::json!({
            "targets": target_table().len(),
            "row_structs": row_table().len(),
            "int_into_float_exact": int_into_float_exact,
            "int_into_float_rounded_outside_claim": int_into_float_rounded,
            "f32_overflow_to_inf_outside_claim": f32_inf,
            "scalar_requests_with_enum_value": enum_values,
        })
    }
}

fn main() {
    main_for(vec![Box::new(C18)]);
}
