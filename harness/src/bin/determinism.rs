//! C14 — compilation and execution are deterministic: the same schema text, query text, arguments
//! and dataset give byte-identical IR / errors, identical rows in identical order and the identical
//! sequence of adapter calls — across repetitions in one process (fresh `Schema::parse`, so every
//! `HashMap` draws new `RandomState` keys) and across fresh processes (new hash seeds).
#[path = "../engine/mod.rs"]
#[allow(dead_code)]
mod engine;

use std::cell::RefCell;
use std::io::{BufRead, BufReader, Write};
use std::process::{Child, ChildStdin, ChildStdout, Command, Stdio};
use std::sync::Arc;

use trustfall_core::frontend;
use trustfall_core::schema::Schema;

use crate::engine::adapter::LoggingAdapter;
use crate::engine::common::*;
use crate::engine::data_gen::DataTable;
use crate::engine::ir_sexp::{args_from_sexp, args_to_sexp};
use crate::engine::run::execute;
use crate::engine::schema_gen::GenSchema;
use crate::engine::worlds::{GenStats, WorldKnobs};
use tfharness::framework::*;
use tfharness::rng::Rng;
use tfharness::sexp::{Sexp, hex, unhex};

/// FNV-1a 64: a digest that does not depend on any per-process state.
fn fnv(s: &str) -> String {
    let mut h: u64 = 0xcbf2_9ce4_8422_2325;
    for b in s.as_bytes() {
        h ^= *b as u64;
        h = h.wrapping_mul(0x0000_0100_0000_01b3);
    }
    format!("{h:016x}")
}

/// Everything observable of one compile + execute, as text.
#[derive(Debug, Clone, PartialEq)]
struct Artefacts {
    /// RON of the `IndexedQuery` (IR, vids, eids, declared outputs), or RON + Display of the error
    ir: String,
    /// rendered rows in engine order (or the argument error / panic text)
    rows: String,
    /// Debug rendering of the full adapter event sequence (calls, pulled contexts, pulled neighbours)
    calls: String,
}

impl Artefacts {
    fn digest(&self) -> String {
        format!("(det {} {} {})", fnv(&self.ir), fnv(&self.rows), fnv(&self.calls))
    }
}

/// One repetition of `(det <schema> <data> <text hex> <args>)`: nothing is cached, the schema is
/// parsed afresh.
fn artefacts_det(args: &[Sexp]) -> Option<Artefacts> {
    let [schema, data, text, qargs] = args else { return None };
    let text = String::from_utf8(unhex(text.as_atom()?)?).ok()?;
    let qargs = args_from_sexp(qargs)?;
    let gen_schema = GenSchema::from_sexp(schema)?;
    let table = DataTable::from_sexp(data)?;
    let real = Schema::parse(gen_schema.to_sdl()).ok()?;
    let compiled = guarded(|| frontend::parse(&real, &text));
    let q = match compiled {
        Err(info) => return Some(Artefacts { ir: format!("panic: {info}"), rows: String::new(), calls: String::new() }),
        Ok(Err(e)) => {
            let ron = ron::to_string(&e).unwrap_or_else(|x| format!("<ron: {x}>"));
            return Some(Artefacts { ir: format!("error: {ron}\n{e}"), rows: String::new(), calls: String::new() });
        }
        Ok(Ok(q)) => q,
    };
    let ir = ron::to_string(&*q).unwrap_or_else(|x| format!("<ron: {x}>"));
    let adapter = LoggingAdapter::new(engine::adapter::TableAdapter::new(&gen_schema, table));
    let log = adapter.log.clone();
    let rows = match guarded(|| execute(Arc::new(adapter), q, &qargs)) {
        Ok(answer) => answer.render(),
        Err(info) => format!("panic: {info}"),
    };
    let calls = format!("{:?}", log.borrow());
    Some(Artefacts { ir, rows, calls })
}

/// One repetition of `(det-schema <sdl hex>)`: `Schema::parse` outcome as text.
fn artefacts_schema(args: &[Sexp]) -> Option<Artefacts> {
    let [sdl] = args else { return None };
    let sdl = String::from_utf8(unhex(sdl.as_atom()?)?).ok()?;
    let ir = match guarded(|| Schema::parse(&sdl)) {
        Err(info) => format!("panic: {info}"),
        Ok(Err(e)) => format!("error: {e}"),
        Ok(Ok(schema)) => {
            // an accepted schema is also queried through the crate's own `SchemaAdapter` (a
            // deterministic adapter by documentation): rows in engine order are part of the artefacts
            return Some(Artefacts { ir: "ok".to_string(), rows: introspect(&schema), calls: String::new() });
        }
    };
    Some(Artefacts { ir, rows: String::new(), calls: String::new() })
}

const INTROSPECTION: [&str; 4] = [
    "{ VertexType { name @output } }",
    "{ VertexType { name @output implementer @fold { sub: name @output } property @fold { prop: name @output } edge @fold { edge: name @output parameter @fold { param: name @output } } } }",
    "{ Entrypoint { name @output parameter @fold { param: name @output } } }",
    "{ Schema { vertex_type { name @output implements @fold { sup: name @output } } } }",
];

/// Rows (in engine order) of the fixed introspection queries over `SchemaAdapter::new(schema)`.
fn introspect(schema: &Schema) -> String {
    use trustfall_core::schema::SchemaAdapter;
    let meta = match Schema::parse(SchemaAdapter::schema_text()) {
        Ok(m) => m,
        Err(e) => return format!("meta schema rejected: {e}"),
    };
    let mut out = String::new();
    for text in INTROSPECTION {
        let r = guarded(|| {
            let q = frontend::parse(&meta, text).map_err(|e| e.to_string())?;
            let adapter = Arc::new(SchemaAdapter::new(schema));
            let rows = trustfall_core::interpreter::execution::interpret_ir(adapter, q, Arc::new(Default::default())).map_err(|e| e.to_string())?;
            Ok::<String, String>(rows.map(|row| format!("{row:?}")).collect::<Vec<_>>().join("\n"))
        });
        out.push_str(&match r {
            Ok(Ok(rows)) => rows,
            Ok(Err(e)) => format!("error: {e}"),
            Err(info) => format!("panic: {info}"),
        });
        out.push_str("\n--\n");
    }
    out
}

fn artefacts(request: &Sexp) -> Option<Artefacts> {
    let (h, args) = request.as_call()?;
    match h {
        "det" => artefacts_det(args),
        "det-schema" => artefacts_schema(args),
        _ => None,
    }
}

/// A separate process (`<this binary> child`) answering one digest line per request line. Its hash
/// seeds differ from the parent's and from every other child's; it is replaced by a fresh process
/// every `REQUESTS_PER_CHILD` requests (process start-up costs ~50 ms here, two fresh processes per
/// request would dominate the run).
struct ChildServer {
    child: Child,
    stdin: ChildStdin,
    stdout: BufReader<ChildStdout>,
    served: usize,
}

impl ChildServer {
    fn spawn() -> Result<ChildServer, String> {
        let exe = std::env::current_exe().map_err(|e| e.to_string())?;
        let mut child = Command::new(exe)
            .arg("child")
            .stdin(Stdio::piped())
            .stdout(Stdio::piped())
            .stderr(Stdio::null())
            .spawn()
            .map_err(|e| e.to_string())?;
        let stdin = child.stdin.take().ok_or("no stdin")?;
        let stdout = BufReader::new(child.stdout.take().ok_or("no stdout")?);
        Ok(ChildServer { child, stdin, stdout, served: 0 })
    }
    fn ask(&mut self, line: &str) -> Result<String, String> {
        self.stdin.write_all(line.as_bytes()).map_err(|e| e.to_string())?;
        self.stdin.write_all(b"\n").map_err(|e| e.to_string())?;
        self.stdin.flush().map_err(|e| e.to_string())?;
        let mut answer = String::new();
        let n = self.stdout.read_line(&mut answer).map_err(|e| e.to_string())?;
        if n == 0 {
            return Err("child closed its output".into());
        }
        self.served += 1;
        Ok(answer.trim().to_string())
    }
}

impl Drop for ChildServer {
    fn drop(&mut self) {
        let _ = self.child.kill();
        let _ = self.child.wait();
    }
}

const REQUESTS_PER_CHILD: usize = 40;

thread_local! {
    static CHILDREN: RefCell<Vec<Option<ChildServer>>> = const { RefCell::new(Vec::new()) };
}

/// Digest of `line` computed by child process number `slot`.
fn child_digest(slot: usize, line: &str) -> Result<String, String> {
    CHILDREN.with(|c| {
        let mut c = c.borrow_mut();
        while c.len() <= slot {
            c.push(None);
        }
        if c[slot].as_ref().is_none_or(|s| s.served >= REQUESTS_PER_CHILD) {
            c[slot] = Some(ChildServer::spawn()?);
        }
        match c[slot].as_mut().unwrap().ask(line) {
            Ok(a) => Ok(a),
            Err(_) => {
                // one retry in a brand-new process
                c[slot] = Some(ChildServer::spawn()?);
                let r = c[slot].as_mut().unwrap().ask(line);
                if r.is_err() {
                    c[slot] = None;
                }
                r
            }
        }
    })
}

fn child_main() {
    install_quiet_panic_hook();
    let stdin = std::io::stdin();
    let mut out = std::io::stdout();
    for line in stdin.lock().lines() {
        let Ok(line) = line else { break };
        let answer = match guarded(|| Sexp::parse(line.trim()).as_ref().and_then(artefacts)) {
            Ok(Some(a)) => a.digest(),
            Ok(None) => "bad-request".to_string(),
            Err(info) => format!("(child-panic {})", fnv(&info)),
        };
        if writeln!(out, "{answer}").is_err() || out.flush().is_err() {
            break;
        }
    }
}

const IN_PROCESS_REPETITIONS: usize = 3;
const CHILD_PROCESSES: usize = 2;

thread_local! {
    /// outcome labels of the request evaluated last (so that `post_tags` need not recompute)
    static LAST_LABELS: RefCell<(String, Vec<String>)> = const { RefCell::new((String::new(), Vec::new())) };
}

fn labels(a: &Artefacts) -> Vec<String> {
    let mut t = vec![];
    if a.rows.starts_with("(rows (row") {
        t.push("nt:rows".into());
    }
    if a.rows.starts_with("panic") || a.ir.starts_with("panic") {
        t.push("outcome:panic".into());
    }
    if a.ir.starts_with("error") {
        t.push("outcome:error".into());
        if a.ir.contains("MultipleErrors") || a.ir.matches(";\n").count() >= 2 {
            t.push("nt:multi-error".into());
        }
    }
    t
}

fn eval_det(request: &Sexp) -> Option<String> {
    let first = artefacts(request)?;
    LAST_LABELS.with(|l| *l.borrow_mut() = (request.to_string(), labels(&first)));
    for _ in 1..IN_PROCESS_REPETITIONS {
        let again = artefacts(request)?;
        if again.ir != first.ir {
            return Some("(nondeterministic ir)".into());
        }
        if again.rows != first.rows {
            return Some("(nondeterministic rows)".into());
        }
        if again.calls != first.calls {
            return Some("(nondeterministic calls)".into());
        }
    }
    let line = request.to_string();
    let expect = first.digest();
    for slot in 0..CHILD_PROCESSES {
        match child_digest(slot, &line) {
            Err(_) => return Some("(nondeterministic child-failed)".into()),
            Ok(d) if d == expect => {}
            Ok(d) => {
                let parts: Vec<&str> = d.trim_matches(|c| c == '(' || c == ')').split(' ').collect();
                let mine: Vec<&str> = expect.trim_matches(|c| c == '(' || c == ')').split(' ').collect();
                let what = if parts.len() != 4 {
                    "child-answer"
                } else if parts[1] != mine[1] {
                    "child-ir"
                } else if parts[2] != mine[2] {
                    "child-rows"
                } else {
                    "child-calls"
                };
                return Some(format!("(nondeterministic {what})"));
            }
        }
    }
    Some("ok".into())
}

/// Several frontend errors at once: duplicated output names, unused tags, an undefined tag, an
/// unexpected edge parameter on the root.
fn break_query(text: &str, rng: &mut Rng) -> String {
    let mut t = text.to_string();
    // all outputs get one of two names → duplicates
    let mut out = String::new();
    let mut rest = t.as_str();
    while let Some(i) = rest.find("@output(name: \"") {
        let after = &rest[i + 15..];
        let end = after.find('"').unwrap_or(0);
        out.push_str(&rest[..i]);
        out.push_str(&format!("@output(name: \"dup{}\")", rng.below(2)));
        rest = &after[end + 2..];
    }
    out.push_str(rest);
    t = out;
    if rng.chance(2, 3) {
        t = t.replacen("@output(", "@tag(name: \"unused_b\") @tag(name: \"unused_a\") @output(", 1);
    }
    if rng.chance(1, 2) {
        t = t.replacen("@output(", "@filter(op: \"=\", value: [\"%undefined_tag\"]) @output(", 1);
    }
    if rng.chance(1, 2) {
        // `{ Root {` or `{ Root(k: 1) {`
        if let Some(i) = t[2..].find(' ') {
            let root_end = 2 + i;
            if !t[..root_end].contains('(') {
                t.insert_str(root_end, "(zz: 1, aa: 2)");
            }
        }
    }
    t
}

/// A schema text with several validation errors at once.
fn break_sdl(sdl: &str, rng: &mut Rng) -> String {
    let mut lines: Vec<String> = sdl.lines().map(str::to_string).collect();
    let mut i = 0;
    let mut in_type_with_supers = false;
    while i < lines.len() {
        let l = lines[i].clone();
        if l.starts_with("type ") || l.starts_with("interface ") {
            in_type_with_supers = l.contains(" implements ");
            if rng.chance(1, 3) {
                lines.insert(i + 1, "  __reserved: Int".to_string());
            }
        } else if in_type_with_supers && l.starts_with("  ") && rng.chance(1, 4) {
            // dropping an inherited field: MissingRequiredField; or widening it
            if rng.chance(1, 2) {
                lines.remove(i);
                continue;
            } else if l.contains(": Int") {
                lines[i] = l.replace(": Int", ": String");
            }
        } else if l.starts_with("  e") && l.contains("[") && rng.chance(1, 6) {
            lines[i] = l.replacen('[', "[[", 1).replacen(']', "]]", 1);
        }
        i += 1;
    }
    lines.join("\n")
}

/// Split a schema text into (prelude: schema block, directives, scalars; the root query type's
/// definition; all other type / interface definitions), by top-level definition.
fn split_sdl(sdl: &str) -> (String, String, String) {
    let root_name = sdl
        .lines()
        .find_map(|l| l.trim().strip_prefix("query:").map(|r| r.trim().trim_end_matches('}').trim().to_string()))
        .unwrap_or_else(|| "RootSchemaQuery".to_string());
    let (mut pre, mut root, mut body) = (String::new(), String::new(), String::new());
    let mut target = 0; // 0 prelude, 1 root, 2 body
    for line in sdl.lines() {
        let head = line.split(|c: char| !c.is_alphanumeric() && c != '_').find(|w| !w.is_empty());
        if !line.starts_with(' ') && !line.starts_with('\t') && !line.starts_with('}') {
            match head {
                Some("type") | Some("interface") => {
                    let name = line.split_whitespace().nth(1).unwrap_or("").trim_end_matches('{');
                    target = if name == root_name && line.starts_with("type") { 1 } else { 2 };
                }
                Some("schema") | Some("directive") | Some("scalar") => target = 0,
                _ => {}
            }
        }
        let dst = match target { 0 => &mut pre, 1 => &mut root, _ => &mut body };
        dst.push_str(line);
        dst.push('\n');
    }
    (pre, root, body)
}

/// `body` with every type / interface name it DEFINES suffixed (whole-word replacement).
fn rename_defs(body: &str, suffix: &str) -> String {
    let mut names: Vec<String> = vec![];
    for line in body.lines() {
        if line.starts_with("type ") || line.starts_with("interface ") {
            if let Some(n) = line.split_whitespace().nth(1) {
                let n = n.trim_end_matches('{').to_string();
                if !names.contains(&n) {
                    names.push(n);
                }
            }
        }
    }
    let is_word = |c: char| c.is_alphanumeric() || c == '_';
    let mut out = String::new();
    let chars: Vec<char> = body.chars().collect();
    let mut i = 0;
    while i < chars.len() {
        if is_word(chars[i]) {
            let mut j = i;
            while j < chars.len() && is_word(chars[j]) {
                j += 1;
            }
            let w: String = chars[i..j].iter().collect();
            out.push_str(&w);
            if names.contains(&w) {
                out.push_str(suffix);
            }
            i = j;
        } else {
            out.push(chars[i]);
            i += 1;
        }
    }
    out
}

#[derive(Default)]
pub struct C14 {
    stats: RefCell<GenStats>,
}

const EMPTY_DATA: &str = "(data (vertices) (adj) (starts) (rx))";

impl Prop for C14 {
    fn id(&self) -> &'static str {
        "C14"
    }
    fn rule(&self) -> &'static str {
        "the worlds of the engine generator. (det <schema> <data> <query> <args>): the query is compiled 3 times in one process, each time against a freshly parsed Schema (new RandomState keys in every HashMap), the RON of the IndexedQuery (or RON + Display of the error) compared byte for byte; executed 3 times over the logging table adapter, rows (in order) and the complete adapter event sequence (calls, pulled contexts, pulled neighbours) compared; then 2 fresh child processes recompute the same artefacts and their digests are compared. Besides the accepted queries, every world contributes broken queries with several frontend errors at once (duplicate output names, unused tags, undefined tag, unexpected edge parameters) and one schema text with several validation errors; (det-schema <sdl>) requests also cover every /repo/trustfall_core/test_data/tests/schema_errors/*.graphql, each also with its non-root definitions tripled under renamed copies (>= 3 errors of the same kind: the order of the error list is what hash-order dependence changes) and one document combining all of them (error Display text compared); for an ACCEPTED schema four fixed introspection queries (vertex types with implementers/properties/edges/parameters, entry points, Schema.vertex_type with implements) are run through the crate's own SchemaAdapter and their rows compared in order. The answer is `ok` iff all repetitions agree. Non-trivial: nt:rows (accepted query with >= 1 row), nt:multi-error (a compile or schema error listing >= 2 errors)."
    }
    fn generate(&self, tier: Tier, rng: &mut Rng) -> Vec<Case> {
        let (worlds, stats) = generate_worlds(rng, &WorldKnobs::for_tier(tier));
        *self.stats.borrow_mut() = stats;
        let mut out = vec![];
        let empty = Sexp::parse(EMPTY_DATA).unwrap();
        for w in &worlds {
            for q in &w.queries {
                let tags = feature_tags(&q.gq.features);
                let text = Sexp::atom(hex(q.gq.text.as_bytes()));
                let qargs = args_to_sexp(&q.gq.args);
                if q.compiled.is_ok() {
                    for d in 0..w.datasets.len() {
                        if let Some(data) = w.data_sexp(d, q) {
                            out.push(Case { request: Sexp::call("det", vec![w.schema_sexp.clone(), data, text.clone(), qargs.clone()]), tags: tags.clone() });
                        }
                    }
                } else {
                    out.push(Case::new(Sexp::call("det", vec![w.schema_sexp.clone(), empty.clone(), text.clone(), qargs.clone()]), &["rejected-query"]));
                }
            }
            // broken variants of the first queries
            for q in w.queries.iter().take(4) {
                let broken = break_query(&q.gq.text, rng);
                let text = Sexp::atom(hex(broken.as_bytes()));
                out.push(Case::new(
                    Sexp::call("det", vec![w.schema_sexp.clone(), empty.clone(), text, args_to_sexp(&q.gq.args)]),
                    &["broken-query"],
                ));
            }
            let sdl = w.schema.to_sdl();
            out.push(Case::new(Sexp::call("det-schema", vec![Sexp::atom(hex(sdl.as_bytes()))]), &["valid-schema"]));
            for _ in 0..2 {
                let broken = break_sdl(&sdl, rng);
                out.push(Case::new(Sexp::call("det-schema", vec![Sexp::atom(hex(broken.as_bytes()))]), &["broken-schema"]));
            }
        }
        // the repository's own invalid schemas
        let dir = "/repo/trustfall_core/test_data/tests/schema_errors";
        let mut files: Vec<_> = std::fs::read_dir(dir)
            .map(|d| d.filter_map(|e| e.ok()).map(|e| e.path()).filter(|p| p.extension().is_some_and(|x| x == "graphql")).collect())
            .unwrap_or_default();
        files.sort();
        let mut all_bodies: Vec<String> = vec![];
        let mut prelude = String::new();
        for (fi, f) in files.iter().enumerate() {
            if let Ok(sdl) = std::fs::read_to_string(f) {
                out.push(Case::new(Sexp::call("det-schema", vec![Sexp::atom(hex(sdl.as_bytes()))]), &["repo-schema-error"]));
                // the same error three times over (renamed copies of every non-root definition): the
                // ORDER of several errors of one kind is where hash-order dependence shows
                // (seeded change C14-2: AmbiguousFieldOrigin errors listed in HashMap order)
                let (pre, root, body) = split_sdl(&sdl);
                let mut text = format!("{pre}{root}{body}");
                for copy in 2..=3 {
                    text.push_str(&rename_defs(&body, &format!("X{copy}")));
                }
                out.push(Case::new(Sexp::call("det-schema", vec![Sexp::atom(hex(text.as_bytes()))]), &["repo-schema-error-x3"]));
                if prelude.is_empty() {
                    prelude = format!("{pre}{root}");
                }
                all_bodies.push(rename_defs(&body, &format!("F{fi}")));
                all_bodies.push(rename_defs(&body, &format!("G{fi}")));
            }
        }
        // every kind of error at once, each twice
        if !prelude.is_empty() {
            let text = format!("{prelude}{}", all_bodies.concat());
            out.push(Case::new(Sexp::call("det-schema", vec![Sexp::atom(hex(text.as_bytes()))]), &["repo-schema-errors-combined"]));
        }
        out
    }
    fn eval(&self, request: &Sexp) -> Option<String> {
        eval_det(request)
    }
    fn oracle(&self, evaluated: &[Evaluated]) -> Vec<OracleFailure> {
        evaluated
            .iter()
            .filter(|e| e.answer != "ok")
            .map(|e| {
                let what = e.answer.trim_matches(|c| c == '(' || c == ')').replace("nondeterministic ", "");
                let detail = match e.request.as_call() {
                    Some(("det", [_, _, text, _])) => text.as_atom().and_then(unhex).map(|b| String::from_utf8_lossy(&b).to_string()).unwrap_or_default(),
                    _ => String::new(),
                };
                OracleFailure { key: format!("nondeterministic:{what}"), detail, requests: vec![e.line.clone()] }
            })
            .collect()
    }
    fn post_tags(&self, e: &Evaluated) -> Vec<String> {
        let mut t = vec![format!("answer:{}", e.answer.chars().take(40).collect::<String>())];
        LAST_LABELS.with(|l| {
            let l = l.borrow();
            if l.0 == e.line {
                t.extend(l.1.iter().cloned());
            }
        });
        t
    }
    fn extra_stats(&self, _evaluated: &[Evaluated]) -> serde_json::Value {
        serde_json::json!({
            "generator": self.stats.borrow().to_json(),
            "in_process_repetitions": IN_PROCESS_REPETITIONS,
            "child_processes_per_request": CHILD_PROCESSES,
        })
    }
}

fn main() {
    if std::env::args().nth(1).as_deref() == Some("child") {
        child_main();
        return;
    }
    main_for(vec![Box::new(C14::default())]);
}
