//! Engine group: properties evaluated on generated worlds (schema + dataset + query + arguments).
//! C01 — results equal the declarative semantics (`exec` = correspondence with the Lean `Interp`,
//! `spec-exec` = the declarative `Spec`, whose mismatches `./check` classifies as violations).
#[path = "../engine/mod.rs"]
#[allow(dead_code)]
mod engine;

use std::cell::RefCell;
use std::collections::{BTreeMap, BTreeSet};

use trustfall_core::ir::FieldValue;

use crate::engine::ir_sexp::{args_from_sexp, ir_to_sexp};
use crate::engine::run::{Answer, execute, prepare};
use crate::engine::worlds::{GenStats, World, WorldKnobs, gen_worlds};
use tfharness::framework::*;
use tfharness::rng::Rng;
use tfharness::sexp::{Sexp, unhex};

/// The pieces every `(cmd <schema> <data> <query text hex> <ir|tree> <args>)` request shares.
struct EngineRequest<'a> {
    schema: &'a Sexp,
    data: &'a Sexp,
    text: String,
    fourth: &'a Sexp,
    args: BTreeMap<String, FieldValue>,
}

fn parse_request<'a>(args: &'a [Sexp]) -> Option<EngineRequest<'a>> {
    let [schema, data, text, fourth, a] = args else { return None };
    let text = String::from_utf8(unhex(text.as_atom()?)?).ok()?;
    Some(EngineRequest { schema, data, text, fourth, args: args_from_sexp(a)? })
}

/// Implementation side of `exec` / `spec-exec`.
fn eval_exec(cmd: &str, args: &[Sexp]) -> Option<String> {
    let r = parse_request(args)?;
    let p = prepare(r.schema, r.data, &r.text)?;
    let q = match &p.query {
        Err(names) => return Some(Answer::FrontendErr(names.clone()).render()),
        Ok(q) => q.clone(),
    };
    if cmd == "exec" && ir_to_sexp(&q.ir_query) != *r.fourth {
        return Some("(ir-mismatch)".to_string());
    }
    Some(execute(std::sync::Arc::new(p.adapter()), q, &r.args).render())
}

/// Tags of one generated case: the query's feature labels.
fn feature_tags(features: &BTreeSet<String>) -> Vec<String> {
    features.iter().cloned().collect()
}

const NT_FEATURES: [&str; 9] =
    ["fold", "opt", "recurse", "coerce", "tag-local", "tag-earlier", "tag-import", "count-tag", "count-tag-import"];

/// `nt:<reason>` tags: the query has at least one of {fold, optional, recurse, tag, coercion} and
/// returned at least one row on this dataset.
fn nontrivial_tags(e: &Evaluated) -> Vec<String> {
    if !e.answer.starts_with("(rows (row") {
        return vec![];
    }
    let mut out = vec![];
    for f in NT_FEATURES {
        if e.tags.iter().any(|t| t == f) {
            out.push(format!("nt:{f}+rows"));
        }
    }
    out
}

/// Every implementation panic, one failure per distinct (panic class, world+query).
fn panic_failures(evaluated: &[Evaluated]) -> Vec<OracleFailure> {
    let mut seen = BTreeSet::new();
    let mut out = vec![];
    for e in evaluated {
        let Some(info) = &e.panic_info else { continue };
        let Some((_, args)) = e.request.as_call() else { continue };
        let key = panic_key(info);
        let world: Vec<String> =
            [0usize, 1, 2, 4].iter().filter_map(|i| args.get(*i)).map(|s| s.to_string()).collect();
        if !seen.insert((key.clone(), world)) {
            continue;
        }
        let (text, qargs) = match parse_request(args) {
            Some(r) => (r.text, crate::engine::ir_sexp::args_to_sexp(&r.args).to_string()),
            None => (String::new(), String::new()),
        };
        out.push(OracleFailure { key, detail: format!("{info} | query: {text} | args: {qargs}"), requests: vec![e.line.clone()] });
    }
    out
}

/// A panic inside the generator is an infrastructure error: say where, then stop.
fn generate_worlds(rng: &mut Rng, knobs: &WorldKnobs) -> (Vec<World>, GenStats) {
    match guarded(|| gen_worlds(rng, knobs)) {
        Ok(x) => x,
        Err(info) => {
            eprintln!("engine generator panicked: {info}");
            std::process::exit(3);
        }
    }
}

/// Worlds of one run + the requests of C01 over them.
fn c01_cases(worlds: &[World]) -> Vec<Case> {
    let mut out = vec![];
    for w in worlds {
        for q in w.accepted() {
            let tags = feature_tags(&q.gq.features);
            for d in 0..w.datasets.len() {
                let (Some(exec), Some(spec)) = (w.exec_request(d, q), w.spec_exec_request(d, q)) else { continue };
                out.push(Case { request: exec, tags: tags.clone() });
                out.push(Case { request: spec, tags: tags.clone() });
            }
        }
    }
    out
}

#[derive(Default)]
pub struct C01 {
    stats: RefCell<GenStats>,
}

impl Prop for C01 {
    fn id(&self) -> &'static str {
        "C01"
    }
    fn rule(&self) -> &'static str {
        "per seed: generated schemas (objects, interfaces incl. interface-implements-interface, inherited property pool, edges to objects/interfaces/ancestors/self with parameters) x 2 datasets (<= 6 vertices per concrete type, boundary integers in both representations, nulls, strings with regex metacharacters, duplicate neighbours) x ~10 type-directed queries (depth <= 4: plain/optional/fold/recurse edges, coercions, every filter operator with variable and tag operands incl. tags imported into (nested) folds and fold-count tags, count outputs/filters, edge parameters explicit and defaulted). Only queries accepted by the real frontend and by argument validation are executed; each (schema, dataset, query, args) is sent as (exec ...) [model = Interp over the rendered real IR] and (spec-exec ...) [model = declarative Spec over the generator's tree]. A case is non-trivial (nt:<feature>+rows) when the query uses at least one of fold / optional / recurse / tag / coercion AND the implementation returned at least one row on that dataset. Oracle here: implementation panics on accepted queries (keyed by panic site); the declarative comparison is done by ./check on the spec-exec answers."
    }
    fn generate(&self, tier: Tier, rng: &mut Rng) -> Vec<Case> {
        let (worlds, stats) = generate_worlds(rng, &WorldKnobs::for_tier(tier));
        *self.stats.borrow_mut() = stats;
        c01_cases(&worlds)
    }
    fn eval(&self, request: &Sexp) -> Option<String> {
        let (h, args) = request.as_call()?;
        match h {
            "exec" | "spec-exec" => eval_exec(h, args),
            _ => None,
        }
    }
    fn oracle(&self, evaluated: &[Evaluated]) -> Vec<OracleFailure> {
        panic_failures(evaluated)
    }
    fn post_tags(&self, e: &Evaluated) -> Vec<String> {
        let mut t = nontrivial_tags(e);
        if e.answer == "(rows)" {
            t.push("rows:0".into());
        } else if e.answer.starts_with("(rows") {
            t.push("rows:>0".into());
        } else if e.answer.starts_with("(err") {
            t.push("answer:err".into());
        } else {
            t.push(format!("answer:{}", e.answer));
        }
        t
    }
    fn extra_stats(&self, evaluated: &[Evaluated]) -> serde_json::Value {
        let mut classes: BTreeMap<String, usize> = BTreeMap::new();
        for e in evaluated {
            if let Some(info) = &e.panic_info {
                *classes.entry(panic_key(info)).or_default() += 1;
            }
        }
        serde_json::json!({"generator": self.stats.borrow().to_json(), "panic_classes": classes})
    }
}

fn main() {
    main_for(vec![Box::new(C01::default())]);
}
