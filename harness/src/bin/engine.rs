//! Engine group: properties evaluated on generated worlds (schema + dataset + query + arguments).
//! C01 — results equal the declarative semantics (`exec` = correspondence with the Lean `Interp`,
//! `spec-exec` = the declarative `Spec`, whose mismatches `./check` classifies as violations).
#[path = "../engine/mod.rs"]
#[allow(dead_code)]
mod engine;

use std::cell::RefCell;
use std::collections::{BTreeMap, BTreeSet};


use std::rc::Rc;

use crate::engine::common::*;
use crate::engine::adapter::{CallKind, CallSig, Hooks, Info, LoggingAdapter};
use crate::engine::ir_sexp::{ir_to_sexp, outputs_to_sexp};
use crate::engine::query_gen::QueryKnobs;
use crate::engine::run::{Answer, compile, execute, load_schema, prepare};
use crate::engine::schema_gen::{EdgeDef, GenSchema};
use crate::engine::worlds::{GenStats, World, WorldKnobs};
use tfharness::framework::*;
use tfharness::rng::Rng;
use tfharness::sexp::{Sexp, unhex};

/// Worlds of one run + the requests of C01 over them.
fn c01_cases(worlds: &[World]) -> Vec<Case> {
    let mut out = vec![];
    for w in worlds {
        for q in w.accepted() {
            let tags = feature_tags(&q.gq.features);
            for d in 0..w.datasets.len() {
                let (Some(exec), Some(spec)) = (w.exec_request(d, q), w.spec_exec_request(d, q)) else { continue };
                out.push(Case { request: exec, tags: tags.clone() });
                out.push(Case { request: spec, tags: tags.clone() });
            }
        }
    }
    out
}

#[derive(Default)]
pub struct C01 {
    stats: RefCell<GenStats>,
}

impl Prop for C01 {
    fn id(&self) -> &'static str {
        "C01"
    }
    fn rule(&self) -> &'static str {
        "per seed: generated schemas (objects, interfaces incl. interface-implements-interface, inherited property pool, edges to objects/interfaces/ancestors/self with parameters) x 2 datasets (<= 6 vertices per concrete type, boundary integers in both representations, nulls, strings with regex metacharacters, duplicate neighbours) x ~10 type-directed queries (depth <= 4: plain/optional/fold/recurse edges, coercions, every filter operator with variable and tag operands incl. tags imported into (nested) folds and fold-count tags, count outputs/filters, edge parameters explicit and defaulted). Appended to these random worlds (after them in the one Rng stream, so they are unchanged): the DIRECTED tagged-regex worlds (quick 4, thorough 40; engine/tagged_regex.rs): schema I0 {id p s e0:[I0] e1:I0} / T0:I0 {e2:[T1]} / T1:I0, 2 datasets of 5..11 vertices whose tagged String property p comes in RUNS (length 1..3, in id order = start order) from a small pool of valid patterns that match some texts (a a.* ^b . \"\" b$ ^a ab), invalid patterns (( [a * \\) and null, biased to valid->invalid->valid alternation, texts s from a small pool; 8 queries, one per template: p @tag ... s @filter(op: regex|not_regex, value: [%tag]) with the filter on the same vertex / a neighbour / inside @optional / inside @fold (imported tag) / inside a nested fold, the tag on the root vertex / an inner vertex / inside an @optional scope (nonexistent-optional tag values), and the same tag used by two filters behind a variable filter and a coercion. These cases are tagged nt:tagged-regex-stream (whenever they executed; the regex table of each request lists every dataset string as a pattern, invalid ones as (<hex> 0)). Likewise appended: the DIRECTED recurse-from-strict-subtype worlds (same number; engine/recurse_subtype.rs; nt:recurse-from-strict-subtype): an edge e0 declared on interface I1 (implements I0) and inherited by T0 and T1, target = the super-interface I0 (implicit coercion to I1 at depth >= 2; every fourth world: target = I1 itself), @recurse(depth: 2|3) starting at a T0-typed vertex (entry point RT0, coercion ... on T0 from I1 / I0, inner vertex, inside @fold / @optional), data in which T0 vertices have T1 neighbours that have neighbours. Appended as well: the DIRECTED operand-type-matrix world (engine/operand_matrix.rs; nt:operand-type-matrix; quick 1 world, thorough 3 = all tag placements): over the fixed schema T0 {id:Int! n:Int s:String sn:String! f:Float b:Boolean li:[Int] ls:[String!] lsn:[String!]! lso:[String] lli:[[Int]] e0:[T0!]!} EVERY cell operator (all 20) x left property x right operand {variable, tag of each of the 11 properties on the same vertex / an earlier vertex / imported into a @fold} is written as a query (2398 cells), INCLUDING the cells that are ill-typed by the generator's rules, and compiled by the real frontend; rejected cells only count (extra.generator.operand_type_matrix: cells / accepted / rejected / kept per operator class x operand kind x well- or ill-typed), every accepted ill-typed cell is executed (nt:matrix-ill-typed-accepted: a frontend that accepts more than the typing rules allow is exercised), accepted well-typed cells are executed up to 96 per quick world (round-robin over the operators; thorough: all), over one dataset of 4..6 vertices with mostly non-null values from small pools so that the operators evaluate on operands of those types. Only queries accepted by the real frontend and by argument validation are executed; each (schema, dataset, query, args) is sent as (exec ...) [model = Interp over the rendered real IR] and (spec-exec ...) [model = declarative Spec over the generator's tree]. A case is non-trivial (nt:<feature>+rows) when the query uses at least one of fold / optional / recurse / tag / coercion AND the implementation returned at least one row on that dataset. Oracle here: implementation panics on accepted queries (keyed by panic site); the declarative comparison is done by ./check on the spec-exec answers."
    }
    fn generate(&self, tier: Tier, rng: &mut Rng) -> Vec<Case> {
        let (worlds, stats) = generate_worlds(rng, &WorldKnobs::for_tier(tier));
        *self.stats.borrow_mut() = stats;
        c01_cases(&worlds)
    }
    fn eval(&self, request: &Sexp) -> Option<String> {
        let (h, args) = request.as_call()?;
        match h {
            "exec" | "spec-exec" => eval_exec(h, args),
            _ => None,
        }
    }
    fn oracle(&self, evaluated: &[Evaluated]) -> Vec<OracleFailure> {
        panic_failures(evaluated)
    }
    fn post_tags(&self, e: &Evaluated) -> Vec<String> {
        let mut t = nontrivial_tags(e);
        // directed family: the tagged regex filter saw a stream of contexts (whatever it let through)
        for f in [engine::tagged_regex::FEATURE, engine::recurse_subtype::FEATURE, engine::operand_matrix::FEATURE, engine::operand_matrix::ILL_TYPED] {
            if e.answer.starts_with("(rows") && e.tags.iter().any(|t| t == f) {
                t.push(format!("nt:{f}"));
            }
        }
        if e.answer == "(rows)" {
            t.push("rows:0".into());
        } else if e.answer.starts_with("(rows") {
            t.push("rows:>0".into());
        } else if e.answer.starts_with("(err") {
            t.push("answer:err".into());
        } else {
            t.push(format!("answer:{}", e.answer));
        }
        t
    }
    fn extra_stats(&self, evaluated: &[Evaluated]) -> serde_json::Value {
        let mut classes: BTreeMap<String, usize> = BTreeMap::new();
        for e in evaluated {
            if let Some(info) = &e.panic_info {
                *classes.entry(panic_key(info)).or_default() += 1;
            }
        }
        serde_json::json!({"generator": self.stats.borrow().to_json(), "panic_classes": classes})
    }
}

// ------------------------------------------------------------------------------------------------
// C13 — rows carry exactly the declared outputs, typed as declared

/// `(outputs <schema> <query text hex> <ir>)` → `(outs (<name> <ty> <vid>)…)`
fn eval_outputs(args: &[Sexp]) -> Option<String> {
    let [schema, text, ir] = args else { return None };
    let text = String::from_utf8(unhex(text.as_atom()?)?).ok()?;
    let schema = load_schema(schema)?;
    let q = match compile(&schema.real, &text) {
        Err(names) => return Some(Answer::FrontendErr(names).render()),
        Ok(q) => q,
    };
    if ir_to_sexp(&q.ir_query) != *ir {
        return Some("(ir-mismatch)".to_string());
    }
    Some(outputs_to_sexp(&q).to_string())
}

/// The property on one executed request: every row has exactly the declared names, every value is valid
/// for the declared type. Returns (clause key, detail) per violation.
fn check_rows_typed(args: &[Sexp], answer: &str) -> Vec<(String, String)> {
    let mut out = vec![];
    let Some(rows) = Sexp::parse(answer) else { return out };
    let Some(("rows", rows)) = rows.as_call() else { return out };
    let Some(r) = parse_request(args) else { return out };
    let Some(schema) = load_schema(r.schema) else { return out };
    let Ok(q) = compile(&schema.real, &r.text) else { return out };
    let declared: BTreeSet<&str> = q.outputs.keys().map(|k| k.as_ref()).collect();
    for row in rows {
        let Some(("row", cols)) = row.as_call() else { continue };
        let mut names = BTreeSet::new();
        for c in cols {
            let Some([n, v]) = c.as_list() else { continue };
            let (Some(n), Some(v)) = (n.as_atom(), tfharness::values::sexp_to_value(v)) else { continue };
            names.insert(n);
            match q.outputs.get(n) {
                None => out.push(("undeclared-output".to_string(), format!("column {n} is not a declared output"))),
                Some(o) => {
                    if !o.value_type.is_valid_value(&v) {
                        out.push((
                            "output-value-not-of-declared-type".to_string(),
                            format!("output {n}: value {} is not valid for declared type {}", tfharness::values::render_value(&v), o.value_type),
                        ));
                    }
                }
            }
        }
        if names != declared {
            let missing: Vec<&&str> = declared.difference(&names).collect();
            out.push(("row-keys-differ-from-declared-outputs".to_string(), format!("missing {missing:?}")));
        }
    }
    out
}

#[derive(Default)]
pub struct C13 {
    stats: RefCell<GenStats>,
    checked: RefCell<(usize, usize)>,
}

impl Prop for C13 {
    fn id(&self) -> &'static str {
        "C13"
    }
    fn rule(&self) -> &'static str {
        "the worlds of C01 (same generator, same seed => same schemas, datasets, queries). Per accepted query one (outputs <schema> <query> <ir>) request (declared output names, types, vertices from IndexedQuery::outputs: model = the Lean get_output_type) and per dataset one (exec ...) request. Oracle on the implementation: every returned row has exactly the declared output names and every value satisfies Type::is_valid_value for its declared type. A case is non-trivial when the query has an output inside an optional scope, a fold or a nested fold, or a fold-count output (nt:<feature>), and for exec requests additionally returned at least one row."
    }
    fn generate(&self, tier: Tier, rng: &mut Rng) -> Vec<Case> {
        let (worlds, stats) = generate_worlds(rng, &WorldKnobs::for_tier(tier));
        *self.stats.borrow_mut() = stats;
        let mut out = vec![];
        for w in &worlds {
            for q in w.accepted() {
                let tags = feature_tags(&q.gq.features);
                let Some(ir) = q.ir.clone() else { continue };
                let text = Sexp::atom(tfharness::sexp::hex(q.gq.text.as_bytes()));
                out.push(Case { request: Sexp::call("outputs", vec![w.schema_sexp.clone(), text, ir]), tags: tags.clone() });
                for d in 0..w.datasets.len() {
                    if let Some(exec) = w.exec_request(d, q) {
                        out.push(Case { request: exec, tags: tags.clone() });
                    }
                }
            }
        }
        out
    }
    fn eval(&self, request: &Sexp) -> Option<String> {
        let (h, args) = request.as_call()?;
        match h {
            "outputs" => eval_outputs(args),
            "exec" => eval_exec(h, args),
            _ => None,
        }
    }
    fn oracle(&self, evaluated: &[Evaluated]) -> Vec<OracleFailure> {
        let mut fails = panic_failures(evaluated);
        let (mut rows_checked, mut requests_checked) = (0usize, 0usize);
        for e in evaluated {
            let Some(("exec", args)) = e.request.as_call() else { continue };
            if !e.answer.starts_with("(rows") {
                continue;
            }
            requests_checked += 1;
            rows_checked += e.answer.matches("(row ").count();
            match guarded(|| check_rows_typed(args, &e.answer)) {
                Ok(v) => {
                    let mut seen = BTreeSet::new();
                    for (key, detail) in v {
                        if seen.insert(key.clone()) {
                            let text = parse_request(args).map(|r| r.text).unwrap_or_default();
                            fails.push(OracleFailure { key, detail: format!("{detail} | query: {text}"), requests: vec![e.line.clone()] });
                        }
                    }
                }
                Err(info) => fails.push(OracleFailure { key: format!("oracle-{}", panic_key(&info)), detail: info, requests: vec![e.line.clone()] }),
            }
        }
        *self.checked.borrow_mut() = (requests_checked, rows_checked);
        fails
    }
    fn post_tags(&self, e: &Evaluated) -> Vec<String> {
        let is_exec = matches!(e.request.as_call(), Some(("exec", _)));
        if is_exec && !e.answer.starts_with("(rows (row") {
            return vec![];
        }
        ["opt", "output-in-fold", "output-in-nested-fold", "count-output", "fold-in-opt"]
            .iter()
            .filter(|f| e.tags.iter().any(|t| t == *f))
            .map(|f| format!("nt:{f}"))
            .collect()
    }
    fn extra_stats(&self, _evaluated: &[Evaluated]) -> serde_json::Value {
        let (requests, rows) = *self.checked.borrow();
        serde_json::json!({"generator": self.stats.borrow().to_json(), "exec_requests_checked": requests, "rows_checked": rows})
    }
}

// ------------------------------------------------------------------------------------------------
// C21 — adapters are only called with arguments the contract promises

type Violations = Rc<RefCell<Vec<(String, String)>>>;

fn sig_sexp(c: &CallSig) -> Sexp {
    let a = |s: &str| Sexp::atom(s);
    Sexp::call(
        "sig",
        vec![
            a(c.kind.name()),
            a(c.type_name.as_deref().unwrap_or("-")),
            a(&c.name),
            engine::params_sexp(c.params.iter().map(|(k, v)| (k.as_str(), v))),
            a(c.coerce_to.as_deref().unwrap_or("-")),
        ],
    )
}

/// Clause-by-clause validation of one call against the schema.
fn check_call(schema: &GenSchema, c: &CallSig, bad: &mut Vec<(String, String)>) {
    let mut fail = |key: &str, detail: String| bad.push((key.to_string(), format!("{detail} in {}", sig_sexp(c))));
    let check_params = |edge: &EdgeDef, fail: &mut dyn FnMut(&str, String)| {
        let declared: BTreeSet<&str> = edge.params.iter().map(|p| p.name.as_str()).collect();
        let given: BTreeSet<&str> = c.params.keys().map(|k| k.as_str()).collect();
        if declared != given {
            fail("contract:params-mismatch", format!("declared {declared:?}, given {given:?}"));
        }
        for p in &edge.params {
            if let Some(v) = c.params.get(&p.name) {
                if !p.ty.to_real().is_valid_value(v) {
                    fail("contract:param-value-not-of-declared-type", format!("{} = {v:?} for type {}", p.name, p.ty));
                }
            }
        }
    };
    match c.kind {
        CallKind::Start => match schema.root(&c.name) {
            None => fail("contract:starting-edge-not-on-root-type", c.name.clone()),
            Some(e) => check_params(e, &mut fail),
        },
        _ => {
            let tname = c.type_name.as_deref().unwrap_or("");
            let Some(tdef) = schema.ty(tname) else {
                fail("contract:type-not-defined", tname.to_string());
                return;
            };
            match c.kind {
                CallKind::Property => {
                    if c.name != "__typename" && !tdef.props.iter().any(|(p, _)| *p == c.name) {
                        fail("contract:property-not-on-type", format!("{tname}.{}", c.name));
                    }
                }
                CallKind::Neighbors => match schema.edge(tname, &c.name) {
                    None => fail("contract:edge-not-on-type", format!("{tname}.{}", c.name)),
                    Some(e) => check_params(e, &mut fail),
                },
                CallKind::Coercion => {
                    let to = c.coerce_to.as_deref().unwrap_or("");
                    if !tdef.is_iface {
                        fail("contract:coercion-from-non-interface", tname.to_string());
                    }
                    if schema.ty(to).is_none() {
                        fail("contract:coercion-target-not-defined", to.to_string());
                    } else if to == tname || !schema.is_subtype(to, tname) {
                        fail("contract:coercion-target-not-subtype", format!("{tname} -> {to}"));
                    }
                }
                CallKind::Start => unreachable!(),
            }
        }
    }
}

/// Run one `(contract-exec …)` request under the contract-checking adapter.
/// Returns (rendered rows answer, violations) or the error answer.
fn run_contract(args: &[Sexp]) -> Option<Result<(String, Vec<(String, String)>), String>> {
    let r = parse_request(args)?;
    let p = prepare(r.schema, r.data, &r.text)?;
    let q = match &p.query {
        Err(names) => return Some(Err(Answer::FrontendErr(names.clone()).render())),
        Ok(q) => q.clone(),
    };
    if ir_to_sexp(&q.ir_query) != *r.fourth {
        return Some(Err("(ir-mismatch)".to_string()));
    }
    let violations: Violations = Rc::new(RefCell::new(vec![]));
    let schema = p.schema.gen_schema.clone();
    let inner = p.adapter();
    let (v1, s1) = (violations.clone(), schema.clone());
    let (v2, s2, types) = (violations.clone(), schema.clone(), inner.clone());
    let hooks = Hooks {
        on_call: Some(Box::new(move |c: &CallSig, _info: Info<'_>| check_call(&s1, c, &mut v1.borrow_mut()))),
        on_context: Some(Box::new(move |c: &CallSig, active: Option<u32>| {
            let (Some(v), Some(tname)) = (active, c.type_name.as_deref()) else { return };
            match types.concrete_type(v) {
                None => v2.borrow_mut().push(("contract:vertex-unknown".into(), format!("vertex {v} in {}", sig_sexp(c)))),
                Some(conc) => {
                    if !s2.is_subtype(conc, tname) {
                        v2.borrow_mut().push((
                            "contract:vertex-not-instance-of-type".into(),
                            format!("vertex {v} of type {conc} in {}", sig_sexp(c)),
                        ));
                    }
                }
            }
        })),
    };
    let adapter = LoggingAdapter::with_hooks(inner, hooks);
    let answer = execute(std::sync::Arc::new(adapter), q, &r.args);
    if let Answer::ArgsErr(_) = answer {
        return Some(Err(answer.render()));
    }
    let v = violations.borrow().clone();
    Some(Ok((answer.render(), v)))
}

#[derive(Default)]
pub struct C21 {
    stats: RefCell<GenStats>,
    checked: RefCell<usize>,
}

impl Prop for C21 {
    fn id(&self) -> &'static str {
        "C21"
    }
    fn rule(&self) -> &'static str {
        "the worlds of C01 (incl. its directed worlds; those of the family recurse-from-strict-subtype - @recurse(depth: 2|3) over an edge declared on an interface and inherited by two implementors, starting at one implementor, data mixing the implementors along the recursion path, nt:recurse-from-strict-subtype - exist for this property: there the type named in the deeper resolve_coercion / resolve_neighbors calls must be the declaring interface, and a vertex of the other implementor is pulled through them); per accepted (query, dataset) one (contract-exec <schema> <data> <query> <ir> <args>) request: the implementation runs the query under the contract-checking adapter and answers the rows exactly like exec (model = rows of the Lean Interp). Oracle on the implementation: the contract-checking wrapper adapter validates every real call against the generated schema and the dataset's typing: type defined; property defined on it or __typename; edge defined on it; coercion only from an interface to a strict subtype; parameters = exactly the declared names with values valid for the declared types (explicit / default / null); every non-None active vertex pulled through a call is an instance of the named type. Non-trivial (nt:<feature>): the query has a recursion with implicit coercion or from a subtype, a coercion, a fold inside an optional scope, an imported tag, or an edge parameter."
    }
    fn generate(&self, tier: Tier, rng: &mut Rng) -> Vec<Case> {
        let (worlds, stats) = generate_worlds(rng, &WorldKnobs::for_tier(tier));
        *self.stats.borrow_mut() = stats;
        let mut out = vec![];
        for w in &worlds {
            for q in w.accepted() {
                let tags = feature_tags(&q.gq.features);
                for d in 0..w.datasets.len() {
                    if let Some(r) = w.request("contract-exec", d, q) {
                        out.push(Case { request: r, tags: tags.clone() });
                    }
                }
            }
        }
        out
    }
    fn eval(&self, request: &Sexp) -> Option<String> {
        let (h, args) = request.as_call()?;
        match h {
            "contract-exec" => Some(match run_contract(args)? {
                Ok((rows, _)) => rows,
                Err(answer) => answer,
            }),
            _ => None,
        }
    }
    fn oracle(&self, evaluated: &[Evaluated]) -> Vec<OracleFailure> {
        let mut fails = panic_failures(evaluated);
        let mut checked = 0usize;
        for e in evaluated {
            let Some(("contract-exec", args)) = e.request.as_call() else { continue };
            if e.panic_info.is_some() {
                continue;
            }
            if let Ok(Some(Ok((_, violations)))) = guarded(|| run_contract(args)) {
                checked += 1;
                let mut seen = BTreeSet::new();
                for (key, detail) in violations {
                    if seen.insert(key.clone()) {
                        let text = parse_request(args).map(|r| r.text).unwrap_or_default();
                        fails.push(OracleFailure { key, detail: format!("{detail} | query: {text}"), requests: vec![e.line.clone()] });
                    }
                }
            }
        }
        *self.checked.borrow_mut() = checked;
        fails
    }
    fn post_tags(&self, e: &Evaluated) -> Vec<String> {
        ["recurse-implicit-coercion", "recurse-4a", "coerce", "fold-in-opt", "tag-import", "param-explicit", "param-defaulted", engine::recurse_subtype::FEATURE]
            .iter()
            .filter(|f| e.tags.iter().any(|t| t == *f))
            .map(|f| format!("nt:{f}"))
            .chain(std::iter::once(if e.answer.starts_with("(rows (row") { "rows:>0".to_string() } else { format!("answer:{}", e.answer.chars().take(12).collect::<String>()) }))
            .collect()
    }
    fn extra_stats(&self, _evaluated: &[Evaluated]) -> serde_json::Value {
        serde_json::json!({"generator": self.stats.borrow().to_json(), "requests_contract_checked": *self.checked.borrow()})
    }
}

// ------------------------------------------------------------------------------------------------
// C09 — executing an accepted query never panics

#[derive(Default)]
pub struct C09 {
    stats: RefCell<GenStats>,
}

impl Prop for C09 {
    fn id(&self) -> &'static str {
        "C09"
    }
    fn rule(&self) -> &'static str {
        "the world generator of C01 with the wide query settings (QueryKnobs::wide): invalid regex arguments (1/3 of regex variables), ordering operators on list-typed operands (1/3), the same tag imported several times into one fold, fold-count filters inside optional scopes, besides everything C01 generates (incl. its directed worlds). Appended as well: the DIRECTED operand-type-matrix world (engine/operand_matrix.rs; nt:operand-type-matrix; quick 1 world, thorough 3 = all tag placements): over the fixed schema T0 {id:Int! n:Int s:String sn:String! f:Float b:Boolean li:[Int] ls:[String!] lsn:[String!]! lso:[String] lli:[[Int]] e0:[T0!]!} EVERY cell operator (all 20) x left property x right operand {variable, tag of each of the 11 properties on the same vertex / an earlier vertex / imported into a @fold} is written as a query (2398 cells), INCLUDING the cells that are ill-typed by the generator's rules, and compiled by the real frontend; rejected cells only count (extra.generator.operand_type_matrix: cells / accepted / rejected / kept per operator class x operand kind x well- or ill-typed), every accepted ill-typed cell is executed (nt:matrix-ill-typed-accepted: a frontend that accepts more than the typing rules allow is exercised), accepted well-typed cells are executed up to 96 per quick world (round-robin over the operators; thorough: all), over one dataset of 4..6 vertices with mostly non-null values from small pools so that the operators evaluate on operands of those types. Every accepted (schema, dataset, query, args) is sent as (exec ...). Oracle: any panic of the implementation on an accepted query + accepted arguments is a failure keyed by its panic site. Non-trivial (nt:<trigger>): the query contains one of the known-defect triggers or a fold / optional / recursion / tag."
    }
    fn generate(&self, tier: Tier, rng: &mut Rng) -> Vec<Case> {
        let mut knobs = WorldKnobs::for_tier(tier);
        knobs.query = QueryKnobs::wide();
        let (worlds, stats) = generate_worlds(rng, &knobs);
        *self.stats.borrow_mut() = stats;
        let mut out = vec![];
        for w in &worlds {
            for q in w.accepted() {
                let tags = feature_tags(&q.gq.features);
                for d in 0..w.datasets.len() {
                    if let Some(r) = w.exec_request(d, q) {
                        out.push(Case { request: r, tags: tags.clone() });
                    }
                }
            }
        }
        out
    }
    fn eval(&self, request: &Sexp) -> Option<String> {
        let (h, args) = request.as_call()?;
        match h {
            "exec" => eval_exec(h, args),
            _ => None,
        }
    }
    fn oracle(&self, evaluated: &[Evaluated]) -> Vec<OracleFailure> {
        panic_failures(evaluated)
    }
    fn post_tags(&self, e: &Evaluated) -> Vec<String> {
        let mut t: Vec<String> = ["invalid-regex", "list-ordering-used", "dup-import", "count-filter-in-opt", "fold", "opt", "recurse", "tag-import", "count-tag", engine::operand_matrix::FEATURE, engine::operand_matrix::ILL_TYPED]
            .iter()
            .filter(|f| e.tags.iter().any(|t| t == *f))
            .map(|f| format!("nt:{f}"))
            .collect();
        t.push(if e.answer == "panic" { "answer:panic".into() } else if e.answer.starts_with("(rows") { "answer:rows".into() } else { "answer:other".into() });
        t
    }
    fn extra_stats(&self, evaluated: &[Evaluated]) -> serde_json::Value {
        let mut classes: BTreeMap<String, usize> = BTreeMap::new();
        for e in evaluated {
            if let Some(info) = &e.panic_info {
                *classes.entry(panic_key(info)).or_default() += 1;
            }
        }
        serde_json::json!({"generator": self.stats.borrow().to_json(), "panic_classes": classes})
    }
}

fn main() {
    main_for(vec![Box::new(C01::default()), Box::new(C13::default()), Box::new(C21::default()), Box::new(C09::default())]);
}
