//! C07 — `@filter` operators decide their mathematical definition: correspondence requests
//! against `trustfall_core::interpreter::filtering` and the definition oracle.
//!
//! Request grammar (one line each):
//!   (filter <op> <left> <right>)            op ∈ eq neq lt le gt ge one_of not_one_of contains
//!                                           not_contains has_prefix not_has_prefix has_suffix
//!                                           not_has_suffix has_substring not_has_substring
//!   (filter <op> <left> <right> <c> <m>)    op ∈ regex_slow not_regex_slow regex_opt not_regex_opt;
//!                                           c = the pattern compiles, m = it matches the left string
//!                                           (the regex engine's verdict; the Lean driver has no engine)
//!   (filter is_null <v>) (filter is_not_null <v>)
//!   (tagged-stream <op> <pair>…)            a whole stream of contexts through ONE call of the real
//!                                           `apply_filter_with_tagged_argument_value`; <pair> is
//!                                           `(p <left> <right|none>)` for the plain binary operators,
//!                                           `(p <left> <right|none> <c> <m>)` for regex_slow /
//!                                           not_regex_slow; `none` = TaggedValue::NonexistentOptional
//!   (static-stream <op> <right> <left>…)    a stream of left values against one variable value through
//!   (static-stream <op> <right> <c> (h <left> <m>)…)   ONE `apply_filter_with_static_argument_value`
//!                                           call (second form: regex_opt / not_regex_opt)
//! Answers: `1`, `0`, `panic` (and `mismatch:…` when the code paths of the implementation that must
//! select the same operator function disagree with each other); streams: `(bits b…)`, one bit per
//! context in stream order (1 = the context survived the stage), or `panic`.
use std::collections::{BTreeMap, HashMap, HashSet};
use std::sync::{Arc, OnceLock};

use regex::Regex;
use trustfall_core::interpreter::verif_filtering as hooks;
use trustfall_core::ir::{Argument, FieldValue, Operation, Type, VariableRef};

use tfharness::framework::*;
use tfharness::rng::Rng;
use tfharness::sexp::Sexp;
use tfharness::values::*;

pub struct C07;

const ORD_OPS: [&str; 4] = ["lt", "le", "gt", "ge"];
const EQ_OPS: [&str; 2] = ["eq", "neq"];
const STRING_OPS: [&str; 6] =
    ["has_prefix", "not_has_prefix", "has_suffix", "not_has_suffix", "has_substring", "not_has_substring"];
const REGEX_OPS: [&str; 4] = ["regex_slow", "not_regex_slow", "regex_opt", "not_regex_opt"];
const ONE_OF_OPS: [&str; 2] = ["one_of", "not_one_of"];
const CONTAINS_OPS: [&str; 2] = ["contains", "not_contains"];
const UNARY_OPS: [&str; 2] = ["is_null", "is_not_null"];

type BinFn = fn(&FieldValue, &FieldValue) -> bool;

/// (positive operator name, is this the negated form, direct hook of the positive operator)
fn plain_op(name: &str) -> Option<(&'static str, bool, BinFn)> {
    Some(match name {
        "eq" => ("eq", false, hooks::equals as BinFn),
        "neq" => ("eq", true, hooks::equals as BinFn),
        "lt" => ("lt", false, hooks::less_than as BinFn),
        "le" => ("le", false, hooks::less_than_or_equal as BinFn),
        "gt" => ("gt", false, hooks::greater_than as BinFn),
        "ge" => ("ge", false, hooks::greater_than_or_equal as BinFn),
        "one_of" => ("one_of", false, hooks::one_of as BinFn),
        "not_one_of" => ("one_of", true, hooks::one_of as BinFn),
        "contains" => ("contains", false, hooks::contains as BinFn),
        "not_contains" => ("contains", true, hooks::contains as BinFn),
        "has_prefix" => ("has_prefix", false, hooks::has_prefix as BinFn),
        "not_has_prefix" => ("has_prefix", true, hooks::has_prefix as BinFn),
        "has_suffix" => ("has_suffix", false, hooks::has_suffix as BinFn),
        "not_has_suffix" => ("has_suffix", true, hooks::has_suffix as BinFn),
        "has_substring" => ("has_substring", false, hooks::has_substring as BinFn),
        "not_has_substring" => ("has_substring", true, hooks::has_substring as BinFn),
        _ => return None,
    })
}

fn positive_name(name: &str) -> Option<&'static str> {
    Some(match name {
        "neq" => "eq",
        "not_one_of" => "one_of",
        "not_contains" => "contains",
        "not_has_prefix" => "has_prefix",
        "not_has_suffix" => "has_suffix",
        "not_has_substring" => "has_substring",
        "not_regex_slow" => "regex_slow",
        "not_regex_opt" => "regex_opt",
        "is_not_null" => "is_null",
        _ => return None,
    })
}

fn dummy_argument() -> &'static Argument {
    static ARG: OnceLock<&'static Argument> = OnceLock::new();
    ARG.get_or_init(|| {
        Box::leak(Box::new(Argument::Variable(VariableRef {
            variable_name: Arc::from("v"),
            variable_type: Type::new_named_type("String", false),
        })))
    })
}

/// The `ir::Operation` the frontend produces for an operator name (the operands inside it are not
/// looked at by the dispatch functions under test).
fn operation(name: &str) -> Option<Operation<(), &'static Argument>> {
    let a = dummy_argument();
    Some(match name {
        "is_null" => Operation::IsNull(()),
        "is_not_null" => Operation::IsNotNull(()),
        "eq" => Operation::Equals((), a),
        "neq" => Operation::NotEquals((), a),
        "lt" => Operation::LessThan((), a),
        "le" => Operation::LessThanOrEqual((), a),
        "gt" => Operation::GreaterThan((), a),
        "ge" => Operation::GreaterThanOrEqual((), a),
        "contains" => Operation::Contains((), a),
        "not_contains" => Operation::NotContains((), a),
        "one_of" => Operation::OneOf((), a),
        "not_one_of" => Operation::NotOneOf((), a),
        "has_prefix" => Operation::HasPrefix((), a),
        "not_has_prefix" => Operation::NotHasPrefix((), a),
        "has_suffix" => Operation::HasSuffix((), a),
        "not_has_suffix" => Operation::NotHasSuffix((), a),
        "has_substring" => Operation::HasSubstring((), a),
        "not_has_substring" => Operation::NotHasSubstring((), a),
        "regex_slow" | "regex_opt" => Operation::RegexMatches((), a),
        "not_regex_slow" | "not_regex_opt" => Operation::NotRegexMatches((), a),
        _ => return None,
    })
}

fn bit(b: bool) -> String {
    if b { "1" } else { "0" }.to_string()
}

/// The regex engine's verdict on `(haystack, pattern)`: (compiles, matches).
fn regex_bits(l: &FieldValue, r: &FieldValue) -> (bool, bool) {
    match r {
        FieldValue::String(p) => match Regex::new(p) {
            Ok(re) => (true, matches!(l, FieldValue::String(s) if re.is_match(s))),
            Err(_) => (false, false),
        },
        _ => (false, false),
    }
}

/// Run the real code on one request.
fn eval_request(op: &str, args: &[Sexp]) -> Option<String> {
    match args {
        [v] if UNARY_OPS.contains(&op) => {
            let v = sexp_to_value(v)?;
            let negated = op == "is_not_null";
            let direct = hooks::is_null(&v) ^ negated;
            let dispatched = hooks::apply_unary(&operation(op)?, v.clone());
            // a binary operation must not be taken for a unary one
            let not_unary = hooks::apply_unary(&operation("eq")?, v).is_none();
            Some(if dispatched == Some(direct) && not_unary {
                bit(direct)
            } else {
                format!("mismatch:direct={direct},dispatched={dispatched:?},eq-is-unary={}", !not_unary)
            })
        }
        [l, r] => {
            let (_, negated, direct_fn) = plain_op(op)?;
            let (l, r) = (sexp_to_value(l)?, sexp_to_value(r)?);
            let operation = operation(op)?;
            let s = hooks::apply_static(&operation, l.clone(), r.clone());
            let t = hooks::apply_tagged(&operation, l.clone(), r.clone());
            let d = direct_fn(&l, &r) ^ negated;
            Some(if s == t && s == d { bit(s) } else { format!("mismatch:static={s},tagged={t},direct={d}") })
        }
        [l, r, c, m] if REGEX_OPS.contains(&op) => {
            let (l, r) = (sexp_to_value(l)?, sexp_to_value(r)?);
            // the bits must be the engine's verdict, otherwise the request is malformed
            let (compiles, matches) = regex_bits(&l, &r);
            if c.as_atom()? != bit(compiles) || m.as_atom()? != bit(matches) {
                return None;
            }
            let operation = operation(op)?;
            let negated = op.starts_with("not_");
            if op.ends_with("_slow") {
                let t = hooks::apply_tagged(&operation, l.clone(), r.clone());
                let d = hooks::regex_matches_slow_path(&l, &r) ^ negated;
                Some(if t == d { bit(t) } else { format!("mismatch:tagged={t},direct={d}") })
            } else {
                // `Regex::new(..).expect(..)` happens inside the real
                // `apply_filter_with_static_argument_value`, reached through the hook
                let s = hooks::apply_static(&operation, l.clone(), r.clone());
                let d = match &r {
                    FieldValue::String(p) => {
                        Regex::new(p).ok().map(|re| hooks::regex_matches_optimized(&l, &re) ^ negated)
                    }
                    _ => None,
                };
                Some(if d.is_none_or(|d| d == s) { bit(s) } else { format!("mismatch:static={s},direct={d:?}") })
            }
        }
        _ => None,
    }
}

// ---------------------------------------------------------------------------------------------
// streams: many contexts through ONE filter stage

const TAGGED_REGEX_OPS: [&str; 2] = ["regex_slow", "not_regex_slow"];
const STATIC_REGEX_OPS: [&str; 2] = ["regex_opt", "not_regex_opt"];

/// A parsed `tagged-stream` / `static-stream` request (regex bits already checked against the
/// engine).
struct StreamReq {
    tagged: bool,
    op: String,
    /// the one right operand of a static stream
    static_right: Option<FieldValue>,
    /// (left, right); `None` = nonexistent optional (tagged streams only)
    pairs: Vec<(FieldValue, Option<FieldValue>)>,
}

fn pattern_compiles(r: &FieldValue) -> bool {
    matches!(r, FieldValue::String(p) if Regex::new(p).is_ok())
}

fn right_operand(s: &Sexp) -> Option<Option<FieldValue>> {
    if s.as_atom() == Some("none") { Some(None) } else { Some(Some(sexp_to_value(s)?)) }
}

fn parse_stream(request: &Sexp) -> Option<StreamReq> {
    let (h, args) = request.as_call()?;
    let (op, rest) = args.split_first()?;
    let op = op.as_atom()?;
    match h {
        "tagged-stream" => {
            let is_regex = TAGGED_REGEX_OPS.contains(&op);
            if !is_regex {
                plain_op(op)?;
            }
            let mut pairs = vec![];
            for p in rest {
                let (ph, pa) = p.as_call()?;
                if ph != "p" {
                    return None;
                }
                match (is_regex, pa) {
                    (false, [l, r]) => pairs.push((sexp_to_value(l)?, right_operand(r)?)),
                    (true, [l, r, c, m]) => {
                        let (l, r) = (sexp_to_value(l)?, right_operand(r)?);
                        let (compiles, matches) = match &r {
                            Some(r) => regex_bits(&l, r),
                            None => (false, false),
                        };
                        if c.as_atom()? != bit(compiles) || m.as_atom()? != bit(matches) {
                            return None;
                        }
                        pairs.push((l, r));
                    }
                    _ => return None,
                }
            }
            Some(StreamReq { tagged: true, op: op.to_string(), static_right: None, pairs })
        }
        "static-stream" => {
            let is_regex = STATIC_REGEX_OPS.contains(&op);
            if !is_regex {
                plain_op(op)?;
            }
            let (r, mut lefts) = rest.split_first()?;
            let r = sexp_to_value(r)?;
            let mut pairs = vec![];
            if is_regex {
                let (c, ls) = lefts.split_first()?;
                if c.as_atom()? != bit(pattern_compiles(&r)) {
                    return None;
                }
                lefts = ls;
                for x in lefts {
                    let (xh, xa) = x.as_call()?;
                    let [l, m] = xa else { return None };
                    if xh != "h" {
                        return None;
                    }
                    let l = sexp_to_value(l)?;
                    if m.as_atom()? != bit(regex_bits(&l, &r).1) {
                        return None;
                    }
                    pairs.push((l, Some(r.clone())));
                }
            } else {
                for x in lefts {
                    pairs.push((sexp_to_value(x)?, Some(r.clone())));
                }
            }
            Some(StreamReq { tagged: false, op: op.to_string(), static_right: Some(r), pairs })
        }
        _ => None,
    }
}

fn render_stream(tagged: bool, op: &str, static_right: Option<&FieldValue>, pairs: &[(FieldValue, Option<FieldValue>)]) -> Sexp {
    let mut args = vec![Sexp::atom(op)];
    if tagged {
        let is_regex = TAGGED_REGEX_OPS.contains(&op);
        for (l, r) in pairs {
            let mut p = vec![value_to_sexp_exact(l), r.as_ref().map(value_to_sexp_exact).unwrap_or(Sexp::atom("none"))];
            if is_regex {
                let (c, m) = r.as_ref().map(|r| regex_bits(l, r)).unwrap_or((false, false));
                p.push(Sexp::atom(bit(c)));
                p.push(Sexp::atom(bit(m)));
            }
            args.push(Sexp::call("p", p));
        }
        Sexp::call("tagged-stream", args)
    } else {
        let r = static_right.expect("static stream without a right operand");
        args.push(value_to_sexp_exact(r));
        if STATIC_REGEX_OPS.contains(&op) {
            args.push(Sexp::atom(bit(pattern_compiles(r))));
            for (l, _) in pairs {
                args.push(Sexp::call("h", vec![value_to_sexp_exact(l), Sexp::atom(bit(regex_bits(l, r).1))]));
            }
        } else {
            for (l, _) in pairs {
                args.push(value_to_sexp_exact(l));
            }
        }
        Sexp::call("static-stream", args)
    }
}

fn render_bits(bits: &[bool]) -> String {
    let mut s = String::from("(bits");
    for b in bits {
        s.push_str(if *b { " 1" } else { " 0" });
    }
    s.push(')');
    s
}

/// ALL pairs of the request through ONE call of the real filter stage.
fn eval_stream(sr: &StreamReq) -> Option<String> {
    let operation = operation(&sr.op)?;
    let bits = if sr.tagged {
        hooks::apply_tagged_stream(&operation, sr.pairs.clone())
    } else {
        let lefts = sr.pairs.iter().map(|(l, _)| l.clone()).collect();
        hooks::apply_static_stream(&operation, sr.static_right.clone()?, lefts)
    };
    Some(render_bits(&bits))
}

/// The single-pair request whose answer position `i` of a stream must repeat.
fn pair_request(op: &str, lv: &FieldValue, rv: &FieldValue) -> Sexp {
    let mut args = vec![Sexp::atom(op), value_to_sexp_exact(lv), value_to_sexp_exact(rv)];
    if REGEX_OPS.contains(&op) {
        let (c, m) = regex_bits(lv, rv);
        args.push(Sexp::atom(bit(c)));
        args.push(Sexp::atom(bit(m)));
    }
    Sexp::call("filter", args)
}

// ---------------------------------------------------------------------------------------------
// typing of operand pairs (value-kind content of the frontend's `operand_types_valid`)

#[derive(Clone, Copy, PartialEq, Eq, Debug)]
enum Base {
    Int,
    Float,
    Str,
}

fn inhabits(base: Base, depth: usize, v: &FieldValue) -> bool {
    match v {
        FieldValue::Null => true,
        FieldValue::Int64(_) | FieldValue::Uint64(_) => depth == 0 && base == Base::Int,
        FieldValue::Float64(_) => depth == 0 && base == Base::Float,
        FieldValue::String(_) => depth == 0 && base == Base::Str,
        FieldValue::List(vs) => depth > 0 && vs.iter().all(|x| inhabits(base, depth - 1, x)),
        _ => false,
    }
}

fn typed_ordering(l: &FieldValue, r: &FieldValue) -> bool {
    [Base::Int, Base::Float, Base::Str]
        .iter()
        .any(|b| (0..=6).any(|d| inhabits(*b, d, l) && inhabits(*b, d, r)))
}

fn is_list(v: &FieldValue) -> bool {
    matches!(v, FieldValue::List(_))
}
fn str_or_null(v: &FieldValue) -> bool {
    matches!(v, FieldValue::String(_) | FieldValue::Null)
}
fn list_or_null(v: &FieldValue) -> bool {
    matches!(v, FieldValue::List(_) | FieldValue::Null)
}

#[derive(Clone, Copy, PartialEq, Eq, Debug)]
enum Class {
    /// admitted by the frontend's typing (or the operator is total): the definition must hold
    Typed,
    /// admitted by the frontend (`is_orderable` looks at the base type name only), documented as
    /// lexicographic, panics in the implementation (F-5)
    TypedListOrdering,
    /// refused by the frontend; the implementation has `unreachable!` there — correspondence only
    Untyped,
}

fn classify(op: &str, l: &FieldValue, r: &FieldValue) -> Class {
    let ok = match op {
        "eq" | "neq" | "is_null" | "is_not_null" => true,
        "lt" | "le" | "gt" | "ge" => {
            if typed_ordering(l, r) {
                if is_list(l) && is_list(r) {
                    return Class::TypedListOrdering;
                }
                true
            } else {
                false
            }
        }
        "contains" | "not_contains" => list_or_null(l),
        "one_of" | "not_one_of" => list_or_null(r),
        "regex_opt" | "not_regex_opt" => str_or_null(l) && matches!(r, FieldValue::String(_)),
        _ => str_or_null(l) && str_or_null(r),
    };
    if ok { Class::Typed } else { Class::Untyped }
}

// ---------------------------------------------------------------------------------------------
// the mathematical definitions, computed independently of trustfall_core's operators

fn num(v: &FieldValue) -> Option<i128> {
    match v {
        FieldValue::Int64(i) => Some(*i as i128),
        FieldValue::Uint64(u) => Some(*u as i128),
        _ => None,
    }
}

fn math_eq(a: &FieldValue, b: &FieldValue) -> bool {
    if let (Some(x), Some(y)) = (num(a), num(b)) {
        return x == y;
    }
    match (a, b) {
        (FieldValue::Null, FieldValue::Null) => true,
        (FieldValue::Float64(x), FieldValue::Float64(y)) => float_key(*x) == float_key(*y),
        (FieldValue::String(x), FieldValue::String(y)) => x.as_bytes() == y.as_bytes(),
        (FieldValue::Enum(x), FieldValue::Enum(y)) => x.as_bytes() == y.as_bytes(),
        (FieldValue::Boolean(x), FieldValue::Boolean(y)) => x == y,
        (FieldValue::List(x), FieldValue::List(y)) => {
            x.len() == y.len() && x.iter().zip(y.iter()).all(|(p, q)| math_eq(p, q))
        }
        _ => false,
    }
}

/// Order of two operands of one orderable scalar kind; lists lexicographically (documented on
/// `Type::is_orderable`); `None` when null is involved or the kinds differ.
fn math_cmp(a: &FieldValue, b: &FieldValue) -> Option<std::cmp::Ordering> {
    if let (Some(x), Some(y)) = (num(a), num(b)) {
        return Some(x.cmp(&y));
    }
    match (a, b) {
        (FieldValue::Float64(x), FieldValue::Float64(y)) => Some(float_key(*x).cmp(&float_key(*y))),
        (FieldValue::String(x), FieldValue::String(y)) => Some(x.as_bytes().cmp(y.as_bytes())),
        (FieldValue::List(x), FieldValue::List(y)) => {
            for (p, q) in x.iter().zip(y.iter()) {
                match math_cmp(p, q)? {
                    std::cmp::Ordering::Equal => {}
                    o => return Some(o),
                }
            }
            Some(x.len().cmp(&y.len()))
        }
        _ => None,
    }
}

fn bytes_infix(hay: &[u8], needle: &[u8]) -> bool {
    needle.is_empty() || hay.windows(needle.len()).any(|w| w == needle)
}

/// What the documented definition of `op` gives on a *typed* operand pair.
fn expected(op: &str, l: &FieldValue, r: &FieldValue) -> Option<bool> {
    use std::cmp::Ordering::*;
    let negated = positive_name(op).is_some();
    let pos = positive_name(op).unwrap_or(op);
    let v = match pos {
        "eq" => math_eq(l, r),
        "lt" | "le" | "gt" | "ge" => {
            if matches!(l, FieldValue::Null) || matches!(r, FieldValue::Null) {
                false
            } else {
                let o = math_cmp(l, r)?;
                match pos {
                    "lt" => o == Less,
                    "le" => o != Greater,
                    "gt" => o == Greater,
                    _ => o != Less,
                }
            }
        }
        "one_of" | "contains" => {
            let (x, coll) = if pos == "one_of" { (l, r) } else { (r, l) };
            match coll {
                FieldValue::Null => false,
                FieldValue::List(vs) => vs.iter().any(|e| math_eq(x, e)),
                _ => return None,
            }
        }
        "has_prefix" | "has_suffix" | "has_substring" => match (l, r) {
            (FieldValue::String(l), FieldValue::String(r)) => {
                let (l, r) = (l.as_bytes(), r.as_bytes());
                match pos {
                    "has_prefix" => l.len() >= r.len() && &l[..r.len()] == r,
                    "has_suffix" => l.len() >= r.len() && &l[l.len() - r.len()..] == r,
                    _ => bytes_infix(l, r),
                }
            }
            _ => false,
        },
        // valid pattern: the engine's answer; invalid pattern: "does not match"; null: false
        "regex_slow" | "regex_opt" => regex_bits(l, r).1,
        "is_null" => matches!(l, FieldValue::Null),
        _ => return None,
    };
    Some(v ^ negated)
}

// ---------------------------------------------------------------------------------------------
// generation

fn l(v: Vec<FieldValue>) -> FieldValue {
    FieldValue::List(v.into())
}

fn extra_patterns() -> Vec<FieldValue> {
    // compile: ^a  b$  \d+  (?i)A  a{2}  .*   — do not compile: *  (  \  [a-  a{2,1}  (?P<n>
    ["^a", "b$", "\\d+", "(?i)A", "a{2}", ".*", "*", "(", "\\", "[a-", "a{2,1}", "(?P<n>"]
        .iter()
        .map(|s| FieldValue::from(*s))
        .collect()
}

fn list_pool(pool: &[FieldValue]) -> Vec<FieldValue> {
    use FieldValue::*;
    let mut out = vec![l(vec![])];
    for v in pool {
        out.push(l(vec![v.clone()]));
    }
    out.push(l(vec![Int64(1), Uint64(2)]));
    out.push(l(vec![Uint64(1), Int64(2)]));
    out.push(l(vec![Null, Int64(1)]));
    out.push(l(vec![Int64(-1), Uint64(u64::MAX)]));
    out.push(l(vec![Uint64(i64::MAX as u64 + 1), Int64(i64::MIN), Uint64(0)]));
    out.push(l(vec![Int64(i64::MAX), Uint64(i64::MAX as u64), Null]));
    out.push(l(vec![FieldValue::from("a"), Null, FieldValue::from("ab")]));
    out.push(l(vec![Float64(0.0), Float64(1.0)]));
    out.push(l(vec![Float64(-0.0)]));
    out.push(l(vec![Boolean(true), Boolean(false)]));
    out.push(l(vec![Null, Null]));
    out.extend(nested_lists());
    out
}

fn nested_lists() -> Vec<FieldValue> {
    use FieldValue::*;
    vec![
        l(vec![l(vec![Int64(1)])]),
        l(vec![l(vec![Uint64(1)])]),
        l(vec![l(vec![]), l(vec![Int64(1)])]),
        l(vec![l(vec![Uint64(1), Int64(2)])]),
        l(vec![l(vec![Int64(1), Uint64(2)]), Null]),
        l(vec![Null, l(vec![Int64(1)])]),
        l(vec![l(vec![l(vec![Uint64(0)])])]),
        l(vec![l(vec![l(vec![Int64(0)])])]),
    ]
}

/// the same value with every integer that fits both representations switched to the other one
fn flip_repr(v: &FieldValue) -> FieldValue {
    match v {
        FieldValue::Int64(i) if *i >= 0 => FieldValue::Uint64(*i as u64),
        FieldValue::Uint64(u) if *u <= i64::MAX as u64 => FieldValue::Int64(*u as i64),
        FieldValue::List(vs) => l(vs.iter().map(flip_repr).collect()),
        other => other.clone(),
    }
}

fn int_of(n: i128, rng: &mut Rng) -> FieldValue {
    let can_i = n >= i64::MIN as i128 && n <= i64::MAX as i128;
    let can_u = n >= 0 && n <= u64::MAX as i128;
    if can_i && (!can_u || rng.chance(1, 2)) { FieldValue::Int64(n as i64) } else { FieldValue::Uint64(n as u64) }
}

fn random_string(rng: &mut Rng) -> FieldValue {
    const TOKENS: [&str; 8] = ["a", "b", "ab", "é", "日", " ", ".", "aa"];
    let n = rng.below(5);
    let mut s = String::new();
    for _ in 0..n {
        s.push_str(TOKENS[rng.below(TOKENS.len())]);
    }
    FieldValue::from(s)
}

fn random_float(rng: &mut Rng) -> FieldValue {
    if rng.chance(1, 3) {
        return rng.pick(&boundary_floats()).clone();
    }
    let mut f = f64::from_bits(rng.next_u64());
    if !f.is_finite() {
        f = -2.5;
    }
    FieldValue::Float64(f)
}

struct Gen {
    out: Vec<Case>,
    /// single-pair requests already emitted for some stream
    stream_pairs_seen: HashSet<String>,
}

impl Gen {
    fn push(&mut self, op: &str, lv: &FieldValue, rv: &FieldValue, stream: &str) {
        let request = pair_request(op, lv, rv);
        let class = classify(op, lv, rv);
        let kinds = format!("{}-{}", kind_name(lv), kind_name(rv));
        let opk = format!("op:{op}");
        let mut tags: Vec<&str> = vec![stream, &opk, &kinds];
        match class {
            Class::Untyped => tags.push("untyped"),
            Class::TypedListOrdering => {
                tags.push("typed");
                tags.push("typed-list-ordering");
            }
            Class::Typed => tags.push("typed"),
        }
        let null_involved = matches!(lv, FieldValue::Null) || matches!(rv, FieldValue::Null);
        let same_class = kind_class(lv) == kind_class(rv);
        let collection = ONE_OF_OPS.contains(&op) || CONTAINS_OPS.contains(&op);
        if class != Class::Untyped && !null_involved && (same_class || collection) {
            // the operator's payload comparison decides (not a null short-circuit, not a
            // discriminant mismatch)
            tags.push("nt:payload-decides");
        }
        if num(lv).is_some() && num(rv).is_some() && kind_name(lv) != kind_name(rv) {
            tags.push("mixed-int-representation");
        }
        self.out.push(Case::new(request, &tags));
    }
    /// A stream request, preceded by the single-pair requests its positions must repeat (those not
    /// yet emitted by this generator run).
    fn push_stream(
        &mut self,
        tagged: bool,
        op: &str,
        static_right: Option<&FieldValue>,
        pairs: &[(FieldValue, Option<FieldValue>)],
        family: &str,
    ) {
        for (l, r) in pairs {
            if let Some(r) = r {
                if self.stream_pairs_seen.insert(pair_request(op, l, r).to_string()) {
                    self.push(op, l, r, "stream-pairs");
                }
            }
        }
        let opk = format!("op:{op}");
        let lenk = format!("stream-len:{}", pairs.len());
        let tags: Vec<&str> =
            vec!["streams", family, &opk, &lenk, if tagged { "path:tagged" } else { "path:static" }];
        self.out.push(Case::new(render_stream(tagged, op, static_right, pairs), &tags));
    }
    fn push_unary(&mut self, op: &str, v: &FieldValue, stream: &str) {
        let opk = format!("op:{op}");
        let tags: Vec<&str> = vec![stream, &opk, kind_name(v), "typed", "nt:payload-decides"];
        self.out.push(Case::new(Sexp::call("filter", vec![Sexp::atom(op), value_to_sexp_exact(v)]), &tags));
    }
}

fn kind_class(v: &FieldValue) -> u8 {
    match v {
        FieldValue::Null => 0,
        FieldValue::Int64(_) | FieldValue::Uint64(_) => 1,
        FieldValue::Float64(_) => 3,
        FieldValue::String(_) => 4,
        FieldValue::Boolean(_) => 5,
        FieldValue::Enum(_) => 6,
        _ => 7,
    }
}

// ---------------------------------------------------------------------------------------------
// stream generation

fn strs(xs: &[&str]) -> Vec<FieldValue> {
    xs.iter().map(|s| FieldValue::from(*s)).collect()
}

const VALID_PATTERNS: [&str; 10] = ["a", "^a", "b$", ".*", "(a|b)+", "a.c", "\\d+", "(?i)A", "a{2}", ""];
/// none of these compiles
const INVALID_PATTERNS: [&str; 6] = ["(", "[a", "*", "\\", "a{2,1}", "(?P<n>"];
const HAYSTACKS: [&str; 10] = ["", "a", "ab", "b", "A", "a.c", "aa", "ba", "é", "12"];

/// (left pool, right pool) of typed operands for one operator (the ordering operators pick one
/// orderable kind per stream).
fn stream_pools(op: &str, rng: &mut Rng) -> (Vec<FieldValue>, Vec<FieldValue>) {
    let null = FieldValue::Null;
    let with_null = |mut v: Vec<FieldValue>| {
        v.push(null.clone());
        v
    };
    match op {
        "eq" | "neq" => (scalar_pool(), scalar_pool()),
        "lt" | "le" | "gt" | "ge" => {
            let kind = match rng.below(3) {
                0 => boundary_ints(),
                1 => boundary_floats(),
                _ => boundary_strings(),
            };
            (with_null(kind.clone()), with_null(kind))
        }
        "one_of" | "not_one_of" | "contains" | "not_contains" => {
            let pool = scalar_pool();
            let mut elems = pool.clone();
            elems.extend(nested_lists());
            let colls = with_null(list_pool(&pool));
            if op.ends_with("one_of") { (elems, colls) } else { (colls, elems) }
        }
        "regex_slow" | "not_regex_slow" | "regex_opt" | "not_regex_opt" => {
            let mut rights = strs(&VALID_PATTERNS);
            rights.extend(strs(&INVALID_PATTERNS));
            if op.ends_with("_slow") {
                rights.push(null.clone());
            }
            (with_null(strs(&HAYSTACKS)), rights)
        }
        _ => {
            let mut s = boundary_strings();
            s.extend(strs(&HAYSTACKS));
            (with_null(s.clone()), with_null(s))
        }
    }
}

/// The next right operand of a regex stream: valid and invalid patterns alternate often, so that
/// valid→invalid→valid sequences (and invalid→valid→invalid) are the norm.
fn next_pattern(rng: &mut Rng, previous_valid: Option<bool>, allow_null: bool) -> FieldValue {
    let valid = match previous_valid {
        Some(v) => {
            if rng.chance(3, 4) {
                !v
            } else {
                v
            }
        }
        None => rng.chance(2, 3),
    };
    if allow_null && rng.chance(1, 10) {
        FieldValue::Null
    } else if valid {
        FieldValue::from(*rng.pick(&VALID_PATTERNS))
    } else {
        FieldValue::from(*rng.pick(&INVALID_PATTERNS))
    }
}

fn generate_streams(g: &mut Gen, quick: bool, rng: &mut Rng) {
    let null = FieldValue::Null;
    let plain: Vec<&str> = ORD_OPS
        .iter()
        .chain(&EQ_OPS)
        .chain(&STRING_OPS)
        .chain(&ONE_OF_OPS)
        .chain(&CONTAINS_OPS)
        .copied()
        .collect();
    let tagged_ops: Vec<&str> = plain.iter().chain(&TAGGED_REGEX_OPS).copied().collect();
    let static_ops: Vec<&str> = plain.iter().chain(&STATIC_REGEX_OPS).copied().collect();

    // ---- directed: tagged regex, a valid pattern, then one that does not compile, then a valid one
    // again, the haystack held fixed (a stage that keeps anything of the previous pattern shows here)
    let valid = ["a", "^a", ".*", "b$"];
    let invalid = ["(", "[a", "*", "\\"];
    for op in TAGGED_REGEX_OPS {
        for (k, v) in valid.iter().enumerate() {
            for i in invalid {
                for h in ["a", "ab", "b"] {
                    let (h, v, i) = (FieldValue::from(h), FieldValue::from(*v), FieldValue::from(i));
                    let v2 = FieldValue::from(valid[(k + 1) % valid.len()]);
                    let some = |x: &FieldValue| Some(x.clone());
                    g.push_stream(
                        true,
                        op,
                        None,
                        &[(h.clone(), some(&v)), (h.clone(), some(&i)), (h.clone(), some(&v))],
                        "stream:valid-invalid-valid",
                    );
                    g.push_stream(
                        true,
                        op,
                        None,
                        &[
                            (h.clone(), some(&v)),
                            (h.clone(), some(&v)),
                            (h.clone(), some(&i)),
                            (h.clone(), some(&i)),
                            (h.clone(), None),
                            (h.clone(), some(&i)),
                            (h.clone(), some(&v2)),
                            (h.clone(), some(&null)),
                        ],
                        "stream:valid-invalid-valid",
                    );
                    g.push_stream(
                        true,
                        op,
                        None,
                        &[(h.clone(), some(&i)), (h.clone(), some(&v)), (null.clone(), some(&v)), (h.clone(), some(&i))],
                        "stream:valid-invalid-valid",
                    );
                }
            }
        }
    }
    // ---- directed: streams of length 0 and 1 (incl. a lone nonexistent-optional entry), and the
    // variable-path regex stage built over no context at all
    for op in &tagged_ops {
        let (ls, rs) = stream_pools(op, rng);
        g.push_stream(true, op, None, &[], "stream:short");
        g.push_stream(true, op, None, &[(rng.pick(&ls).clone(), None)], "stream:short");
        g.push_stream(true, op, None, &[(rng.pick(&ls).clone(), Some(rng.pick(&rs).clone()))], "stream:short");
    }
    for op in &static_ops {
        let (ls, rs) = stream_pools(op, rng);
        let r = rng.pick(&rs).clone();
        g.push_stream(false, op, Some(&r), &[], "stream:short");
        g.push_stream(false, op, Some(&r), &[(rng.pick(&ls).clone(), Some(r.clone()))], "stream:short");
    }
    for op in STATIC_REGEX_OPS {
        for p in ["a", "(", ""] {
            g.push_stream(false, op, Some(&FieldValue::from(p)), &[], "stream:short");
        }
    }
    // ---- directed: a panic anywhere in the stream is the answer of the whole call
    let li = |n: i64| l(vec![FieldValue::Int64(n)]);
    g.push_stream(
        true,
        "lt",
        None,
        &[
            (FieldValue::Int64(1), Some(FieldValue::Int64(2))),
            (li(1), Some(li(2))),
            (FieldValue::Int64(3), Some(FieldValue::Int64(2))),
        ],
        "stream:panic-inside",
    );
    g.push_stream(
        true,
        "has_prefix",
        None,
        &[
            (FieldValue::from("ab"), Some(FieldValue::from("a"))),
            (FieldValue::from("ab"), None),
            (FieldValue::Int64(1), Some(FieldValue::from("a"))),
        ],
        "stream:panic-inside",
    );
    g.push_stream(
        false,
        "ge",
        Some(&li(1)),
        &[(null.clone(), Some(li(1))), (li(2), Some(li(1)))],
        "stream:panic-inside",
    );

    // ---- random: 2–8 contexts, right operands repeated in runs
    let per_op = if quick { 40 } else { 1_500 };
    for op in &tagged_ops {
        let is_regex = TAGGED_REGEX_OPS.contains(op);
        for _ in 0..per_op {
            let (ls, rs) = stream_pools(op, rng);
            let n = 2 + rng.below(7);
            let mut pairs: Vec<(FieldValue, Option<FieldValue>)> = vec![];
            let mut previous_valid: Option<bool> = None;
            let mut held: Option<FieldValue> = None;
            while pairs.len() < n {
                let r = if rng.chance(1, 8) {
                    None
                } else if is_regex {
                    let p = next_pattern(rng, previous_valid, true);
                    if !matches!(p, FieldValue::Null) {
                        previous_valid = Some(pattern_compiles(&p));
                    }
                    Some(p)
                } else {
                    Some(rng.pick(&rs).clone())
                };
                for _ in 0..1 + rng.below(3) {
                    if pairs.len() == n {
                        break;
                    }
                    // half of the time the left value of the previous context comes again
                    let left = match &held {
                        Some(h) if rng.chance(1, 2) => h.clone(),
                        _ => rng.pick(&ls).clone(),
                    };
                    held = Some(left.clone());
                    pairs.push((left, r.clone()));
                }
            }
            g.push_stream(true, op, None, &pairs, "stream:random");
        }
    }
    for op in &static_ops {
        let is_regex = STATIC_REGEX_OPS.contains(op);
        for _ in 0..per_op {
            let (ls, rs) = stream_pools(op, rng);
            let r = if is_regex {
                // mostly patterns that compile: the others panic while the stage is built (F-4)
                if rng.chance(7, 8) { FieldValue::from(*rng.pick(&VALID_PATTERNS)) } else { FieldValue::from(*rng.pick(&INVALID_PATTERNS)) }
            } else {
                rng.pick(&rs).clone()
            };
            let n = 2 + rng.below(7);
            let pairs: Vec<(FieldValue, Option<FieldValue>)> =
                (0..n).map(|_| (rng.pick(&ls).clone(), Some(r.clone()))).collect();
            g.push_stream(false, op, Some(&r), &pairs, "stream:random");
        }
    }
}

impl Prop for C07 {
    fn id(&self) -> &'static str {
        "C07"
    }
    fn rule(&self) -> &'static str {
        "Streams: (grid) every ordered pair of the scalar boundary pool (null, booleans, 9 signed + 9 unsigned integer boundary points incl. i64::MIN, i64::MAX±1, u64::MAX, 13 finite floats incl. ±0 and subnormals, 14 strings, 2 enums) under eq/neq; every same-orderable-kind-or-null pair under lt/le/gt/ge; (string-or-null)² under the six prefix/suffix/substring operators; (string-or-null) × (patterns that compile, patterns that do not, null) under the four regex forms; pool × (null, [], all singletons, mixed-representation integer lists, lists with nulls, nested lists) under one_of/not_one_of and mirrored under contains/not_contains; is_null/is_not_null on everything. (kinds) one representative per value kind, all 8×8 pairs under every binary operator: the pairs the frontend's typing refuses are tagged `untyped` — the implementation has unreachable! there, the model must answer `panic` too, and the definition oracle is not applied. (list-ordering) lt/le/gt/ge on null-free lists of one orderable type, tagged `typed-list-ordering`: admitted by the frontend (is_orderable looks at the base type name), documented as lexicographic, the implementation panics (F-5). (random) seeded pairs: 64-bit integers in random representation incl. near pairs n, n+δ (|δ|≤2) across the signed/unsigned boundary; floats; short strings over a small alphabet with multi-byte characters (so that prefix/suffix/substring/order relations hold non-trivially often); random nested values against a copy with every integer switched to its other representation (must be equal) and against unrelated values. Each binary request is evaluated on the real code three ways that must select the same operator function — `apply_filter_with_static_argument_value` (variable argument), `apply_filter_with_tagged_argument_value` (tag argument), both through add-only hooks that run the real dispatch table with its `not!` negations on a one-context iterator, and the operator function itself (negated forms: `!positive`) — any difference is the answer `mismatch:…`. regex_opt goes through the real static dispatch, so `Regex::new(..).expect(..)` is the real line 460/466 (nothing is transcribed); regex_slow through the tagged dispatch. The two regex bits in a request are the regex crate's verdict (checked again at evaluation; inconsistent bits answer bad-op). ORACLE, on every typed request: the mathematical definition computed in the harness (i128 integer comparison, float keys, byte-wise string comparison / prefix / suffix / window search, structural list equality with numeric integers, one_of/contains as existence of an equal element, regex: engine's answer, invalid pattern or null ⇒ false) must equal the implementation's answer (`<op>-wrong`); a panic on a typed request is `panic@file:message`; every negated request is also compared with its positive twin in the same run (`neg-not-complement`). (streams) STATELESSNESS OF THE STAGE: `(tagged-stream op (p l r|none)…)` pushes ALL its contexts through ONE call of the real `apply_filter_with_tagged_argument_value` (hook `apply_tagged_stream`: context i carries l_i, the tag value is `TaggedValue::Some(r_i)` or, for `none`, `TaggedValue::NonexistentOptional`; the surviving contexts are identified by an index carried as their active vertex) and `(static-stream op r l…)` one call of `apply_filter_with_static_argument_value`; the answer is one bit per context. For every binary operator on both paths (tag path: the 16 plain operators + regex_slow/not_regex_slow; variable path: + regex_opt/not_regex_opt): random streams of 2–8 contexts drawn from the typed operand pools of the operator, the right operand repeated in runs of 1–3, the previous left value repeated half of the time, `none` entries (1/8) and null rights; for the regex forms the patterns alternate between ones that compile and ones that do not (`(`, `[a`, `*`, `\\`, `a{2,1}`, `(?P<n>`), plus the directed family valid→invalid→valid / valid,valid,invalid,invalid,none,invalid,valid',null / invalid,valid,valid,invalid with the haystack held fixed over 4 valid × 4 invalid patterns × 3 haystacks; streams of length 0 and 1; the variable-path regex stage built over no context (a pattern that does not compile panics there, F-4); streams with a panicking pair inside (the whole call panics). Every pair of a stream is also sent as a single-pair `filter` request (stream `stream-pairs`). ORACLE on the implementation: the stream's answer must be, position by position, the answer of the single-pair request of that position (`none`: 1), `panic` iff some pair panics (`stream-differs-from-pairwise`) — so what the definition oracle establishes pair by pair holds of the stage over a stream, and a stage that carries anything from one context to the next (a cached compiled pattern, a remembered operand) fails. A stream is non-trivial (`nt:stream-state`) when it has at least two distinct right operands, at least one survivor and at least one non-survivor (static streams: `nt:stream-static-mixed`, a survivor and a non-survivor). A case is non-trivial (`nt:payload-decides`) when it is typed, no operand is null and the operands are of one kind class (or the operator is a collection operator), i.e. the answer is decided by comparing payloads rather than by a null short-circuit or a discriminant mismatch."
    }
    fn generate(&self, tier: Tier, rng: &mut Rng) -> Vec<Case> {
        let quick = tier == Tier::Quick;
        let mut g = Gen { out: vec![], stream_pairs_seen: HashSet::new() };
        let pool = scalar_pool();
        let ints = boundary_ints();
        let floats = boundary_floats();
        let mut strings = boundary_strings();
        let null = FieldValue::Null;

        // ---- grid: equality over all scalar pairs
        for a in &pool {
            for b in &pool {
                for op in EQ_OPS {
                    g.push(op, a, b, "grid");
                }
            }
        }
        // ---- grid: ordering over same-kind-or-null pairs
        for kind in [&ints, &floats, &strings] {
            let mut vs: Vec<FieldValue> = vec![null.clone()];
            vs.extend(kind.iter().cloned());
            for a in &vs {
                for b in &vs {
                    for op in ORD_OPS {
                        g.push(op, a, b, "grid");
                    }
                }
            }
        }
        // ---- grid: string operators and regex
        strings.extend(extra_patterns());
        let mut sn: Vec<FieldValue> = vec![null.clone()];
        sn.extend(strings.iter().cloned());
        for a in &sn {
            for b in &sn {
                for op in STRING_OPS {
                    g.push(op, a, b, "grid");
                }
                for op in REGEX_OPS {
                    g.push(op, a, b, "grid");
                }
            }
        }
        // ---- grid: collections
        let lists = list_pool(&pool);
        let mut elems: Vec<FieldValue> = pool.clone();
        elems.extend(nested_lists());
        elems.push(l(vec![FieldValue::Int64(1)]));
        elems.push(l(vec![FieldValue::Uint64(1), FieldValue::Int64(2)]));
        elems.push(l(vec![]));
        let mut colls = lists.clone();
        colls.push(null.clone());
        for x in &elems {
            for c in &colls {
                for op in ONE_OF_OPS {
                    g.push(op, x, c, "grid");
                }
                for op in CONTAINS_OPS {
                    g.push(op, c, x, "grid");
                }
            }
        }
        // ---- grid: list equality (nested, mixed representations, length mismatch)
        for a in &lists {
            for b in &lists {
                if kind_class_of_first(a) == kind_class_of_first(b) {
                    for op in EQ_OPS {
                        g.push(op, a, b, "grid");
                    }
                }
            }
        }
        // ---- unary
        for v in elems.iter().chain(lists.iter()) {
            for op in UNARY_OPS {
                g.push_unary(op, v, "grid");
            }
        }
        // ---- kinds: one representative per kind, every pair, every binary operator
        let reps = vec![
            null.clone(),
            FieldValue::Int64(-3),
            FieldValue::Uint64(u64::MAX),
            FieldValue::Float64(1.5),
            FieldValue::from("a"),
            FieldValue::Boolean(true),
            FieldValue::Enum(Arc::from("a")),
            l(vec![FieldValue::Int64(1)]),
        ];
        for a in &reps {
            for b in &reps {
                for op in ORD_OPS.iter().chain(&STRING_OPS).chain(&REGEX_OPS).chain(&ONE_OF_OPS).chain(&CONTAINS_OPS) {
                    g.push(op, a, b, "kinds");
                }
            }
        }
        // ---- list ordering (F-5)
        let lo = [
            (l(vec![FieldValue::Int64(1)]), l(vec![FieldValue::Int64(2)])),
            (l(vec![FieldValue::Int64(1), FieldValue::Int64(2), FieldValue::Int64(3)]), l(vec![FieldValue::Int64(3)])),
            (l(vec![]), l(vec![])),
            (l(vec![FieldValue::Uint64(1)]), l(vec![FieldValue::Int64(1)])),
            (l(vec![FieldValue::from("a")]), l(vec![FieldValue::from("b")])),
            (l(vec![FieldValue::Float64(0.5)]), l(vec![])),
            (l(vec![l(vec![FieldValue::Int64(1)])]), l(vec![l(vec![FieldValue::Int64(0)])])),
        ];
        for (a, b) in &lo {
            for op in ORD_OPS {
                g.push(op, a, b, "list-ordering");
            }
        }

        // ---- random integers
        let n_int = if quick { 3_000 } else { 110_000 };
        for i in 0..n_int {
            let (a, b) = if i % 2 == 0 {
                (random_int(rng), random_int(rng))
            } else {
                let a = random_int(rng);
                let n = num(&a).unwrap();
                let delta = rng.below(5) as i128 - 2;
                let m = (n + delta).clamp(i64::MIN as i128, u64::MAX as i128);
                (int_of(n, rng), int_of(m, rng))
            };
            let (a, b) = if rng.chance(1, 32) { (a, null.clone()) } else { (a, b) };
            for op in ORD_OPS.iter().chain(&EQ_OPS) {
                g.push(op, &a, &b, "random-int");
            }
        }
        // ---- random strings
        let n_str = if quick { 900 } else { 30_000 };
        for _ in 0..n_str {
            let a = random_string(rng);
            let b = if rng.chance(1, 24) { null.clone() } else { random_string(rng) };
            for op in STRING_OPS.iter().chain(&ORD_OPS).chain(&EQ_OPS) {
                g.push(op, &a, &b, "random-str");
            }
            // a random string as a pattern: most compile, some (`.` + nothing special) do not matter
            for op in REGEX_OPS {
                g.push(op, &a, &b, "random-str");
            }
        }
        // ---- random floats
        let n_f = if quick { 500 } else { 15_000 };
        for _ in 0..n_f {
            let a = random_float(rng);
            let b = if rng.chance(1, 4) { a.clone() } else { random_float(rng) };
            for op in ORD_OPS.iter().chain(&EQ_OPS) {
                g.push(op, &a, &b, "random-float");
            }
        }
        // ---- random nested values
        let n_v = if quick { 700 } else { 15_000 };
        for _ in 0..n_v {
            let a = random_value(rng, 3);
            let f = flip_repr(&a);
            let c = random_value(rng, 3);
            for op in EQ_OPS {
                g.push(op, &a, &f, "random-value");
                g.push(op, &a, &c, "random-value");
            }
            let coll = l(vec![c.clone(), f.clone()]);
            let coll2 = l(vec![c.clone(), FieldValue::Null]);
            for op in ONE_OF_OPS {
                g.push(op, &a, &coll, "random-value");
                g.push(op, &a, &coll2, "random-value");
            }
            for op in CONTAINS_OPS {
                g.push(op, &coll, &a, "random-value");
                g.push(op, &coll2, &a, "random-value");
            }
        }
        generate_streams(&mut g, quick, rng);
        g.out
    }
    fn eval(&self, request: &Sexp) -> Option<String> {
        let (h, args) = request.as_call()?;
        if h == "tagged-stream" || h == "static-stream" {
            return eval_stream(&parse_stream(request)?);
        }
        if h != "filter" {
            return None;
        }
        let (op, rest) = args.split_first()?;
        eval_request(op.as_atom()?, rest)
    }
    fn oracle(&self, evaluated: &[Evaluated]) -> Vec<OracleFailure> {
        let mut fails: Vec<OracleFailure> = vec![];
        let mut per_key: BTreeMap<String, usize> = BTreeMap::new();
        let mut fail = |key: String, detail: String, requests: Vec<String>| {
            let n = per_key.entry(key.clone()).or_default();
            *n += 1;
            if *n <= 40 {
                fails.push(OracleFailure { key, detail, requests });
            }
        };
        // answers by (op, operands) for the complement check
        let mut by_req: HashMap<(String, String), &Evaluated> = HashMap::new();
        for e in evaluated {
            if let Some((op, operands)) = split_request(&e.request) {
                by_req.insert((op, operands), e);
            }
        }
        // streams: position i of ONE call of the stage over the whole stream must repeat the answer
        // of the single-pair request for pair i
        for e in evaluated {
            let Some((h, _)) = e.request.as_call() else { continue };
            if h != "tagged-stream" && h != "static-stream" {
                continue;
            }
            let Some(sr) = parse_stream(&e.request) else {
                fail("malformed-request".into(), e.answer.clone(), vec![e.line.clone()]);
                continue;
            };
            // (answer, request line) per position; a nonexistent-optional tag passes the context
            let mut pairwise: Vec<(String, Option<String>)> = vec![];
            for (lv, rv) in &sr.pairs {
                let Some(rv) = rv else {
                    pairwise.push(("1".into(), None));
                    continue;
                };
                let req = pair_request(&sr.op, lv, rv);
                let line = req.to_string();
                let answer = match split_request(&req).and_then(|k| by_req.get(&k)) {
                    Some(pe) => pe.answer.clone(),
                    // not in this run (replay of the stream line alone): ask the implementation now
                    None => match guarded(|| self.eval(&req)) {
                        Ok(Some(a)) => a,
                        Ok(None) => "bad-op".into(),
                        Err(_) => "panic".into(),
                    },
                };
                pairwise.push((answer, Some(line)));
            }
            if pairwise.iter().any(|(a, _)| a != "0" && a != "1" && a != "panic") {
                continue; // the pair request itself is reported (paths-disagree / malformed-request)
            }
            // the variable-path regex stage compiles its pattern while it is built: a pattern that
            // does not compile panics whatever the stream is (F-4, reported on the pair requests)
            let built_panics =
                !sr.tagged && STATIC_REGEX_OPS.contains(&sr.op.as_str()) && !sr.static_right.as_ref().is_some_and(pattern_compiles);
            let expected = if built_panics || pairwise.iter().any(|(a, _)| a == "panic") {
                "panic".to_string()
            } else {
                render_bits(&pairwise.iter().map(|(a, _)| a == "1").collect::<Vec<_>>())
            };
            if e.answer != expected {
                let got: Vec<&str> = e.answer.trim_start_matches("(bits").trim_end_matches(')').split_whitespace().collect();
                let mut requests = vec![e.line.clone()];
                let mut positions = vec![];
                for (i, (a, line)) in pairwise.iter().enumerate() {
                    if got.get(i).copied() != Some(a.as_str()) && positions.len() < 3 {
                        positions.push(i.to_string());
                        if let Some(line) = line {
                            if !requests.contains(line) {
                                requests.push(line.clone());
                            }
                        }
                    }
                }
                fail(
                    "stream-differs-from-pairwise".into(),
                    format!(
                        "op={} path={} one call of the stage over the stream answered {} but pair by pair the answers are {} (first differing positions: {})",
                        sr.op,
                        if sr.tagged { "tagged" } else { "static" },
                        e.answer,
                        expected,
                        positions.join(" ")
                    ),
                    requests,
                );
            }
        }
        for e in evaluated {
            let Some(p) = parse_request(&e.request) else { continue };
            if e.answer.starts_with("mismatch") || e.answer == "bad-op" {
                fail(
                    if e.answer == "bad-op" { "malformed-request".into() } else { "paths-disagree".into() },
                    e.answer.clone(),
                    vec![e.line.clone()],
                );
                continue;
            }
            let class = classify(&p.op, &p.l, &p.r);
            if class == Class::Untyped {
                continue;
            }
            let detail = format!(
                "kinds={}/{} class={} answer={}",
                kind_name(&p.l),
                kind_name(&p.r),
                if class == Class::TypedListOrdering { "typed-list-ordering" } else { "typed" },
                e.answer
            );
            if e.answer == "panic" {
                let info = e.panic_info.clone().unwrap_or_default();
                fail(panic_key(&info), format!("{detail} {info}"), vec![e.line.clone()]);
                continue;
            }
            if let Some(exp) = expected(&p.op, &p.l, &p.r) {
                if e.answer != bit(exp) {
                    fail(format!("{}-wrong", p.op), format!("{detail} definition={}", bit(exp)), vec![e.line.clone()]);
                }
            }
            if let Some(pos) = positive_name(&p.op) {
                if let Some((_, operands)) = split_request(&e.request) {
                    if let Some(pe) = by_req.get(&(pos.to_string(), operands)) {
                        let complement = match (pe.answer.as_str(), e.answer.as_str()) {
                            ("1", "0") | ("0", "1") | ("panic", "panic") => true,
                            _ => false,
                        };
                        if !complement {
                            fail(
                                "neg-not-complement".into(),
                                format!("{detail} positive={}", pe.answer),
                                vec![pe.line.clone(), e.line.clone()],
                            );
                        }
                    }
                }
            }
        }
        fails
    }
    fn post_tags(&self, e: &Evaluated) -> Vec<String> {
        let a = if e.answer.starts_with("mismatch") {
            "mismatch"
        } else if e.answer.starts_with("(bits") {
            "bits"
        } else {
            e.answer.as_str()
        };
        let mut tags = vec![format!("answer:{a}")];
        if a == "bits" {
            if let Some(sr) = parse_stream(&e.request) {
                let survivors = e.answer.contains('1');
                let dropped = e.answer.contains('0');
                let rights: HashSet<String> =
                    sr.pairs.iter().filter_map(|(_, r)| r.as_ref()).map(|r| value_to_sexp_exact(r).to_string()).collect();
                if survivors && dropped {
                    if sr.tagged && rights.len() >= 2 {
                        tags.push("nt:stream-state".into());
                    } else if !sr.tagged {
                        tags.push("nt:stream-static-mixed".into());
                    }
                }
            }
        }
        tags
    }
    fn extra_stats(&self, evaluated: &[Evaluated]) -> serde_json::Value {
        let mut typed = 0usize;
        let mut untyped = 0usize;
        let mut list_ordering = 0usize;
        let mut untyped_panics = 0usize;
        let mut typed_panics = 0usize;
        for e in evaluated {
            if let Some(p) = parse_request(&e.request) {
                match classify(&p.op, &p.l, &p.r) {
                    Class::Typed => {
                        typed += 1;
                        if e.answer == "panic" {
                            typed_panics += 1;
                        }
                    }
                    Class::TypedListOrdering => {
                        list_ordering += 1;
                        if e.answer == "panic" {
                            typed_panics += 1;
                        }
                    }
                    Class::Untyped => {
                        untyped += 1;
                        if e.answer == "panic" {
                            untyped_panics += 1;
                        }
                    }
                }
            }
        }
        let streams = evaluated.iter().filter(|e| e.tags.iter().any(|t| t == "streams")).count();
        let stream_contexts: usize = evaluated
            .iter()
            .filter(|e| e.tags.iter().any(|t| t == "streams"))
            .filter_map(|e| parse_stream(&e.request))
            .map(|sr| sr.pairs.len())
            .sum();
        serde_json::json!({
            "streams_through_one_stage_call": streams,
            "contexts_in_streams": stream_contexts,
            "typed_requests_checked_against_definition": typed,
            "typed_list_ordering_requests": list_ordering,
            "untyped_requests_correspondence_only": untyped,
            "panics_on_typed_requests": typed_panics,
            "panics_on_untyped_requests": untyped_panics,
        })
    }
}

fn kind_class_of_first(v: &FieldValue) -> u8 {
    match v {
        FieldValue::List(vs) => vs.iter().find(|x| !matches!(x, FieldValue::Null)).map(kind_class).unwrap_or(0),
        other => kind_class(other),
    }
}

struct Parsed {
    op: String,
    l: FieldValue,
    r: FieldValue,
}

/// (op, operand text) of a request, the regex bits dropped
fn split_request(s: &Sexp) -> Option<(String, String)> {
    let (h, args) = s.as_call()?;
    if h != "filter" {
        return None;
    }
    let op = args.first()?.as_atom()?.to_string();
    let operands: Vec<String> = args.iter().skip(1).take(2).map(|x| x.to_string()).collect();
    Some((op, operands.join(" ")))
}

fn parse_request(s: &Sexp) -> Option<Parsed> {
    let (h, args) = s.as_call()?;
    if h != "filter" {
        return None;
    }
    let op = args.first()?.as_atom()?.to_string();
    match &args[1..] {
        [v] => Some(Parsed { op, l: sexp_to_value(v)?, r: FieldValue::Null }),
        [l, r] | [l, r, _, _] => Some(Parsed { op, l: sexp_to_value(l)?, r: sexp_to_value(r)? }),
        _ => None,
    }
}

fn main() {
    main_for(vec![Box::new(C07)]);
}
