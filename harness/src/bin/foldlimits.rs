//! C22 — fold-count early termination is invisible in results.
//!
//! Metamorphic oracle on the real engine: every generated query that has a fold with count filters is
//! run (i) as is, (ii) with `@output` added on the count of every such fold (this disables the
//! min-fold-size shortcut of `compute_fold`), (iii) with an output added inside every such fold (ditto).
//! The rows of (ii)/(iii) restricted to the columns of (i) must be the rows of (i).
//! Correspondence: `(exec …)` against the Lean `Interp`, and `(spec-nolimits …)` whose implementation
//! answer is the real engine's rows and whose model answer is `Interp` with `useLimits := false` — the
//! reference semantics of C22; `./check` treats a mismatch on a `(spec-…)` request as a property violation.
//!
//! Extra commands of this binary (not used by `./check`):
//!   foldlimits probe           F-23 / F-29 on the numbers adapter of the repository's own test suite
//!   foldlimits corpus          prints the request lines of `corpus/C22.cases`
#[path = "../engine/mod.rs"]
#[allow(dead_code)]
mod engine;

use std::cell::RefCell;
use std::collections::{BTreeMap, BTreeSet};
use std::sync::Arc;

use trustfall_core::ir::FieldValue;

use crate::engine::Ty;
use crate::engine::data_gen::{DataKnobs, Dataset, VertexData};
use crate::engine::ir_sexp::{args_from_sexp, ir_to_sexp};
use crate::engine::query_gen::{Arg, Dir, FDir, Field, GenQuery, Kind, Node, Op, Query, QueryKnobs};
use crate::engine::run::{Answer, execute, prepare};
use crate::engine::schema_gen::{EdgeDef, GenSchema, SchemaKnobs, TypeDef};
use crate::engine::worlds::{GenStats, World, WorldKnobs, WorldQuery, compile_query, gen_world};
use tfharness::framework::*;
use tfharness::rng::Rng;
use tfharness::sexp::{Sexp, unhex};

// ------------------------------------------------------------------------------------------------
// implementation side

/// `(exec|spec-nolimits <schema> <data> <query text hex> <ir> <args>)` → rows of the real engine.
fn eval_exec(args: &[Sexp]) -> Option<String> {
    let [schema, data, text, ir, a] = args else { return None };
    let text = String::from_utf8(unhex(text.as_atom()?)?).ok()?;
    let qargs = args_from_sexp(a)?;
    let p = prepare(schema, data, &text)?;
    let q = match &p.query {
        Err(names) => return Some(Answer::FrontendErr(names.clone()).render()),
        Ok(q) => q.clone(),
    };
    if ir_to_sexp(&q.ir_query) != *ir {
        return Some("(ir-mismatch)".to_string());
    }
    Some(execute(Arc::new(p.adapter()), q, &qargs).render())
}

// ------------------------------------------------------------------------------------------------
// analysis of the IR text of a request (pure function of the request)

#[derive(Debug, Default, Clone, PartialEq)]
struct IrFacts {
    folds: usize,
    count_filters: usize,
    /// folds that pass the engine's own eligibility test for the min shortcut as far as the fold itself is
    /// concerned: post-filters non-empty and all `>=`/`>` against a variable, no output in the fold's own
    /// component, no count output
    min_eligible: usize,
    max_limited: usize,
    /// an eligible fold's count tag is used in a sibling fold's post-filter (F-23)
    sibling_post_tag: bool,
    /// an eligible fold's count tag is imported into a sibling fold (F-23)
    sibling_import_tag: bool,
    /// an eligible fold's count tag is used in a filter of a vertex of the parent component (the case the
    /// engine does check: `has_tag_on_fold_count`)
    same_comp_vertex_tag: bool,
    /// an eligible fold contains (at any depth) a fold with outputs (F-29)
    nested_output_in_eligible: bool,
    nested_folds: bool,
}

fn call_args<'a>(s: &'a Sexp, head: &str) -> Option<&'a [Sexp]> {
    match s.as_call() {
        Some((h, a)) if h == head => Some(a),
        _ => None,
    }
}

/// `(tag (fcount <eid> <vid>))` → eid
fn fcount_tag_eid(arg: &Sexp) -> Option<&str> {
    let t = call_args(arg, "tag")?;
    let f = call_args(t.first()?, "fcount")?;
    f.first()?.as_atom()
}

struct FoldView<'a> {
    eid: &'a str,
    comp: &'a Sexp,
    imports: &'a [Sexp],
    fouts: &'a [Sexp],
    post: &'a [Sexp],
}

fn fold_view(f: &Sexp) -> Option<FoldView<'_>> {
    let a = call_args(f, "fold")?;
    Some(FoldView {
        eid: a.first()?.as_atom()?,
        comp: a.get(5)?,
        imports: call_args(a.get(6)?, "imports")?,
        fouts: call_args(a.get(7)?, "fouts")?,
        post: call_args(a.get(8)?, "post")?,
    })
}

fn comp_parts(c: &Sexp) -> Option<(&[Sexp], &[Sexp], &[Sexp])> {
    let a = call_args(c, "comp")?;
    Some((call_args(a.get(1)?, "vertices")?, call_args(a.get(3)?, "folds")?, call_args(a.get(4)?, "outputs")?))
}

fn has_outputs_deep(c: &Sexp) -> bool {
    let Some((_, folds, outs)) = comp_parts(c) else { return false };
    !outs.is_empty()
        || folds.iter().filter_map(fold_view).any(|f| !f.fouts.is_empty() || has_outputs_deep(f.comp))
}

fn is_min_filter(p: &Sexp) -> bool {
    let Some(l) = p.as_list() else { return false };
    matches!(l.first().and_then(|x| x.as_atom()), Some("ge" | "gt")) && l.get(2).is_some_and(|r| call_args(r, "var").is_some())
}

fn is_max_filter(p: &Sexp) -> bool {
    let Some(l) = p.as_list() else { return false };
    matches!(l.first().and_then(|x| x.as_atom()), Some("eq" | "le" | "lt" | "one_of"))
        && l.get(2).is_some_and(|r| call_args(r, "var").is_some())
}

fn analyse_comp(c: &Sexp, depth: usize, out: &mut IrFacts) {
    let Some((vertices, folds, _)) = comp_parts(c) else { return };
    let views: Vec<FoldView<'_>> = folds.iter().filter_map(fold_view).collect();
    for f in &views {
        out.folds += 1;
        out.count_filters += f.post.len();
        if depth > 0 {
            out.nested_folds = true;
        }
        if f.post.iter().any(is_max_filter) {
            out.max_limited += 1;
        }
        let own_outputs = comp_parts(f.comp).is_some_and(|(_, _, o)| !o.is_empty());
        let eligible = !f.post.is_empty() && f.post.iter().all(is_min_filter) && f.fouts.is_empty() && !own_outputs;
        if eligible {
            out.min_eligible += 1;
            if comp_parts(f.comp).is_some_and(|(_, inner, _)| {
                inner.iter().filter_map(fold_view).any(|g| !g.fouts.is_empty() || has_outputs_deep(g.comp))
            }) {
                out.nested_output_in_eligible = true;
            }
            for g in &views {
                if g.post.iter().any(|p| p.as_list().and_then(|l| l.get(2)).and_then(fcount_tag_eid) == Some(f.eid)) {
                    out.sibling_post_tag = true;
                }
                if g.imports.iter().any(|i| call_args(i, "fcount").and_then(|a| a.first()).and_then(|e| e.as_atom()) == Some(f.eid)) {
                    out.sibling_import_tag = true;
                }
            }
            for v in vertices {
                let Some(va) = call_args(v, "v") else { continue };
                let Some(filters) = va.get(3).and_then(|x| call_args(x, "filters")) else { continue };
                if filters.iter().any(|p| p.as_list().and_then(|l| l.get(2)).and_then(fcount_tag_eid) == Some(f.eid)) {
                    out.same_comp_vertex_tag = true;
                }
            }
        }
        analyse_comp(f.comp, depth + 1, out);
    }
}

fn ir_facts(ir: &Sexp) -> IrFacts {
    let mut out = IrFacts::default();
    if let Some(a) = call_args(ir, "ir") {
        if let Some(c) = a.get(2) {
            analyse_comp(c, 0, &mut out);
        }
    }
    out
}

/// The class of a difference, from the base query's IR: which known trigger is present.
fn classify(facts: &IrFacts) -> String {
    let mut parts = vec![];
    if facts.sibling_post_tag || facts.sibling_import_tag {
        parts.push("sibling-count-tag");
    }
    if facts.nested_output_in_eligible {
        parts.push("nested-fold-output");
    }
    if parts.is_empty() { "unexplained".to_string() } else { parts.join("+") }
}

// ------------------------------------------------------------------------------------------------
// the directed generator: queries built around fold-count filters

const ADDED_COUNT_PREFIX: &str = "zc";
const ADDED_INNER_PREFIX: &str = "zi";

fn count_arg_pool() -> Vec<FieldValue> {
    vec![
        FieldValue::Int64(i64::MIN),
        FieldValue::Int64(-1),
        FieldValue::Int64(0),
        FieldValue::Int64(1),
        FieldValue::Int64(2),
        FieldValue::Int64(3),
        FieldValue::Uint64(0),
        FieldValue::Uint64(1),
        FieldValue::Uint64(2),
        FieldValue::Uint64(3),
        FieldValue::Uint64(1 << 63),
    ]
}

struct Directed<'a> {
    schema: &'a GenSchema,
    rng: &'a mut Rng,
    next: usize,
    args: BTreeMap<String, FieldValue>,
    features: BTreeSet<String>,
}

#[derive(Clone, Copy, PartialEq)]
enum Inner {
    /// no output anywhere inside (the fold stays eligible for the min shortcut)
    NoOutput,
    Output,
    /// a nested fold with an output, nothing else output (F-29 shape)
    NestedOutput,
    /// a nested fold whose count is output
    NestedCountOutput,
}

impl<'a> Directed<'a> {
    fn fresh(&mut self, p: &str) -> String {
        let n = self.next;
        self.next += 1;
        format!("{p}{n}")
    }
    fn feat(&mut self, f: &str) {
        self.features.insert(f.to_string());
    }
    fn params_for(&mut self, e: &EdgeDef) -> Vec<(String, FieldValue)> {
        let mut out = vec![];
        for p in &e.params {
            let must = p.default.is_none() && !p.ty.is_nullable();
            if must || self.rng.chance(1, 3) {
                out.push((p.name.clone(), FieldValue::Int64(1 + self.rng.below(3) as i64)));
            }
        }
        out
    }
    fn count_var(&mut self, list: bool) -> Arg {
        let pool = count_arg_pool();
        let name = self.fresh("v");
        let v = if list {
            let n = self.rng.below(4);
            FieldValue::List((0..n).map(|_| self.rng.pick(&pool).clone()).collect::<Vec<_>>().into())
        } else {
            self.rng.pick(&pool).clone()
        };
        self.args.insert(name.clone(), v);
        Arg::Var(name)
    }
    /// one count filter; `tag`: the count tag of an earlier sibling fold that may be used as operand
    fn count_filter(&mut self, min_only: bool, tag: Option<&str>) -> FDir {
        use Op::*;
        let op = if min_only {
            *self.rng.pick(&[Ge, Ge, Gt])
        } else {
            *self.rng.pick(&[Eq, Eq, Neq, Lt, Lt, Le, Le, Gt, Ge, Ge, OneOf, OneOf, NotOneOf])
        };
        self.feat(&format!("cf:{}", op.proto()));
        let list = matches!(op, OneOf | NotOneOf);
        let arg = match tag {
            Some(t) if !list => {
                self.feat("count-tag-in-sibling-post-filter");
                Arg::Tag(t.to_string())
            }
            _ => self.count_var(list),
        };
        FDir::CountFilter(op, arg)
    }
    fn string_var(&mut self) -> Arg {
        let name = self.fresh("v");
        let pool = ["zz", "T0", "T1", "I0"];
        let s = *self.rng.pick(&pool);
        self.args.insert(name.clone(), FieldValue::from(s));
        Arg::Var(name)
    }
    fn prop_no_output(&mut self) -> Field {
        let arg = self.string_var();
        Field::Prop { name: "__typename".into(), dirs: vec![Dir::Filter(Op::Neq, arg)] }
    }
    fn prop_output(&mut self, ty: &str) -> Field {
        let name = if self.schema.prop_ty(ty, "id").is_some() && self.rng.chance(1, 2) { "id" } else { "__typename" };
        Field::Prop { name: name.into(), dirs: vec![Dir::Output(self.fresh("o"))] }
    }
    fn edges_of(&self, ty: &str) -> Vec<EdgeDef> {
        self.schema.ty(ty).map(|t| t.edges.clone()).unwrap_or_default()
    }
    fn inner_node(&mut self, ty: &str, inner: Inner, extra_filter_tag: Option<&str>) -> Node {
        let mut fields = vec![];
        // a filter inside the fold against an imported count tag (needs an Int property)
        if let Some(t) = extra_filter_tag {
            if self.schema.prop_ty(ty, "id").is_some() {
                let op = *self.rng.pick(&[Op::Ge, Op::Le, Op::Eq, Op::Neq, Op::Gt, Op::Lt]);
                fields.push(Field::Prop { name: "id".into(), dirs: vec![Dir::Filter(op, Arg::Tag(t.to_string()))] });
                self.feat("count-tag-imported-into-sibling");
            }
        }
        match inner {
            Inner::NoOutput => {
                if fields.is_empty() {
                    fields.push(self.prop_no_output());
                }
            }
            Inner::Output => {
                self.feat("output-in-fold");
                fields.push(self.prop_output(ty));
            }
            Inner::NestedOutput | Inner::NestedCountOutput => {
                let edges = self.edges_of(ty);
                if edges.is_empty() {
                    if fields.is_empty() {
                        fields.push(self.prop_no_output());
                    }
                } else {
                    let e = edges[self.rng.below(edges.len())].clone();
                    let params = self.params_for(&e);
                    self.feat("nested-fold");
                    let (fdirs, node) = if inner == Inner::NestedCountOutput {
                        self.feat("nested-count-output");
                        (vec![FDir::CountOutput(self.fresh("o"))], Node { coerce_to: None, fields: vec![self.prop_no_output()] })
                    } else {
                        self.feat("output-in-nested-fold");
                        (vec![], Node { coerce_to: None, fields: vec![self.prop_output(&e.target)] })
                    };
                    if self.rng.chance(1, 3) {
                        fields.push(self.prop_no_output());
                    }
                    fields.push(Field::Edge { name: e.name, params, kind: Kind::Fold(fdirs), node });
                }
            }
        }
        Node { coerce_to: None, fields }
    }
    /// A fold over `e` with `n_filters` count filters.
    #[allow(clippy::too_many_arguments)]
    fn fold(
        &mut self,
        e: &EdgeDef,
        n_filters: usize,
        min_only: bool,
        tag: Option<String>,
        count_output: bool,
        inner: Inner,
        use_tag_in_post: Option<&str>,
        use_tag_inside: Option<&str>,
    ) -> Field {
        self.feat("fold");
        let params = self.params_for(e);
        let mut fdirs = vec![];
        for i in 0..n_filters {
            let t = if i == 0 { use_tag_in_post } else { None };
            fdirs.push(self.count_filter(min_only, t));
        }
        if n_filters > 1 {
            self.feat("several-count-filters");
        }
        if let Some(t) = tag {
            let pos = self.rng.below(fdirs.len() + 1);
            fdirs.insert(pos, FDir::CountTag(t));
            self.feat("count-tag");
        }
        if count_output {
            let pos = self.rng.below(fdirs.len() + 1);
            fdirs.insert(pos, FDir::CountOutput(self.fresh("o")));
            self.feat("count-output");
        }
        let node = self.inner_node(&e.target, inner, use_tag_inside);
        Field::Edge { name: e.name.clone(), params, kind: Kind::Fold(fdirs), node }
    }
}

/// One directed query over `schema`; `None` when the schema offers no edge at the chosen root.
fn gen_directed(rng: &mut Rng, schema: &GenSchema) -> Option<GenQuery> {
    let root = schema.roots[rng.below(schema.roots.len())].clone();
    let mut g = Directed { schema, rng, next: 0, args: BTreeMap::new(), features: BTreeSet::new() };
    let edges = g.edges_of(&root.target);
    if edges.is_empty() {
        return None;
    }
    let root_params = g.params_for(&root);
    let mut fields = vec![g.prop_output(&root.target)];
    let ea = edges[g.rng.below(edges.len())].clone();
    let eb = edges[g.rng.below(edges.len())].clone();
    let shape = g.rng.below(7);
    let inner_a = match g.rng.below(8) {
        0 => Inner::Output,
        1 | 2 => Inner::NestedOutput,
        3 => Inner::NestedCountOutput,
        _ => Inner::NoOutput,
    };
    let n_a = 1 + usize::from(g.rng.chance(1, 3)) + usize::from(g.rng.chance(1, 6));
    let min_only_a = g.rng.chance(2, 3);
    let count_out_a = g.rng.chance(1, 8);
    match shape {
        // S1: the count tag of fold A used in a sibling fold's post-filter
        0 | 1 => {
            g.feat("shape:sibling-post-filter");
            let t = g.fresh("t");
            fields.push(g.fold(&ea, n_a, min_only_a, Some(t.clone()), count_out_a, inner_a, None, None));
            let n_b = 1 + usize::from(g.rng.chance(1, 3));
            let out_b = g.rng.chance(1, 2);
            let inner_b = if g.rng.chance(1, 2) { Inner::Output } else { Inner::NoOutput };
            fields.push(g.fold(&eb, n_b, false, None, out_b, inner_b, Some(&t), None));
        }
        // S2: … imported into a sibling fold
        2 => {
            g.feat("shape:sibling-import");
            let t = g.fresh("t");
            fields.push(g.fold(&ea, n_a, min_only_a, Some(t.clone()), count_out_a, inner_a, None, None));
            let n_b = usize::from(g.rng.chance(1, 2));
            let out_b = g.rng.chance(1, 2);
            fields.push(g.fold(&eb, n_b, false, None, out_b, Inner::Output, None, Some(&t)));
        }
        // S3: … used in a filter of a later vertex of the same component (the case the engine checks)
        3 => {
            g.feat("shape:same-component-vertex-filter");
            let t = g.fresh("t");
            fields.push(g.fold(&ea, n_a, min_only_a, Some(t.clone()), count_out_a, inner_a, None, None));
            if g.schema.prop_ty(&eb.target, "id").is_some() {
                let op = *g.rng.pick(&[Op::Ge, Op::Le, Op::Neq, Op::Gt, Op::Lt, Op::Eq]);
                let params = g.params_for(&eb);
                let o = g.fresh("o");
                let kind = if g.rng.chance(1, 2) { Kind::Optional } else { Kind::Plain };
                fields.push(Field::Edge {
                    name: eb.name.clone(),
                    params,
                    kind,
                    node: Node {
                        coerce_to: None,
                        fields: vec![Field::Prop { name: "id".into(), dirs: vec![Dir::Filter(op, Arg::Tag(t)), Dir::Output(o)] }],
                    },
                });
                g.feat("count-tag-same-comp");
            }
        }
        // S4: nested folds under a fold with count filters
        4 => {
            g.feat("shape:nested");
            let inner = if g.rng.chance(1, 2) { Inner::NestedOutput } else { Inner::NestedCountOutput };
            fields.push(g.fold(&ea, n_a, min_only_a, None, count_out_a, inner, None, None));
        }
        // S6: a lower-bound filter (>=, >) next to an exclusion filter (!=, not_one_of), both on variables
        // with small operands, nothing observed inside (added after seeded change C22-5: an exclusion
        // filter that no longer switches the min-fold-size shortcut off is evaluated on a truncated count)
        6 => {
            g.feat("shape:min-plus-exclusion");
            let small = |g: &mut Directed, list: bool| {
                let name = g.fresh("v");
                let one = |g: &mut Directed| {
                    let x = g.rng.below(4) as i64;
                    if g.rng.chance(1, 2) { FieldValue::Int64(x) } else { FieldValue::Uint64(x as u64) }
                };
                let v = if list {
                    let n = 1 + g.rng.below(2);
                    FieldValue::List((0..n).map(|_| one(g)).collect::<Vec<_>>().into())
                } else {
                    one(g)
                };
                g.args.insert(name.clone(), v);
                Arg::Var(name)
            };
            let lo = *g.rng.pick(&[Op::Ge, Op::Ge, Op::Gt]);
            let ex = *g.rng.pick(&[Op::Neq, Op::NotOneOf]);
            let a_lo = small(&mut g, false);
            let a_ex = small(&mut g, ex == Op::NotOneOf);
            g.feat(&format!("cf:{}", lo.proto()));
            g.feat(&format!("cf:{}", ex.proto()));
            g.feat("several-count-filters");
            let mut fdirs = vec![FDir::CountFilter(lo, a_lo), FDir::CountFilter(ex, a_ex)];
            if g.rng.chance(1, 2) {
                fdirs.swap(0, 1);
            }
            if g.rng.chance(1, 4) {
                let extra = g.count_filter(true, None);
                fdirs.push(extra);
            }
            g.feat("fold");
            let params = g.params_for(&ea);
            let inner = if g.rng.chance(1, 6) { inner_a } else { Inner::NoOutput };
            let node = g.inner_node(&ea.target, inner, None);
            fields.push(Field::Edge { name: ea.name.clone(), params, kind: Kind::Fold(fdirs), node });
        }
        // S5: a single fold with several filters of any kind
        _ => {
            g.feat("shape:single");
            let n = 1 + g.rng.below(3);
            fields.push(g.fold(&ea, n, false, None, count_out_a, inner_a, None, None));
        }
    }
    let query = Query { root: root.name.clone(), root_params, node: Node { coerce_to: None, fields } };
    let text = query.to_graphql();
    g.feat("count-filter");
    g.feat("directed");
    Some(GenQuery { query, text, args: g.args, features: g.features })
}

// ------------------------------------------------------------------------------------------------
// the two observing variants of a query

fn has_count_filter(fdirs: &[FDir]) -> bool {
    fdirs.iter().any(|d| matches!(d, FDir::CountFilter(..)))
}

/// (ii): `@output` on the count of every fold that has count filters and no count output yet.
fn add_count_outputs(n: &mut Node, counter: &mut usize) {
    for f in &mut n.fields {
        if let Field::Edge { kind, node, .. } = f {
            if let Kind::Fold(fdirs) = kind {
                if has_count_filter(fdirs) && !fdirs.iter().any(|d| matches!(d, FDir::CountOutput(_))) {
                    fdirs.push(FDir::CountOutput(format!("{ADDED_COUNT_PREFIX}{counter}")));
                    *counter += 1;
                }
            }
            add_count_outputs(node, counter);
        }
    }
}

/// (iii): an output inside every fold that has count filters.
fn add_inner_outputs(n: &mut Node, counter: &mut usize) {
    for f in &mut n.fields {
        if let Field::Edge { kind, node, .. } = f {
            if let Kind::Fold(fdirs) = kind {
                if has_count_filter(fdirs) {
                    let name = format!("{ADDED_INNER_PREFIX}{counter}");
                    *counter += 1;
                    // inside a type coercion the field goes inside it as well (node_text handles that)
                    node.fields.insert(0, Field::Prop { name: "__typename".into(), dirs: vec![Dir::Output(name)] });
                }
            }
            add_inner_outputs(node, counter);
        }
    }
}

fn variant(gq: &GenQuery, f: fn(&mut Node, &mut usize)) -> Option<GenQuery> {
    let mut query = gq.query.clone();
    let mut counter = 0;
    f(&mut query.node, &mut counter);
    if counter == 0 {
        return None;
    }
    let text = query.to_graphql();
    Some(GenQuery { query, text, args: gq.args.clone(), features: gq.features.clone() })
}

fn tree_has_count_filter(n: &Node) -> bool {
    n.fields.iter().any(|f| match f {
        Field::Edge { kind, node, .. } => matches!(kind, Kind::Fold(d) if has_count_filter(d)) || tree_has_count_filter(node),
        _ => false,
    })
}

// ------------------------------------------------------------------------------------------------
// rows

type RowSet = BTreeMap<String, usize>;

/// rows of an answer as a multiset of canonical row texts, the columns added by the variants removed
fn row_multiset(answer: &str) -> Option<RowSet> {
    let s = Sexp::parse(answer)?;
    let rows = call_args(&s, "rows")?;
    let mut out = RowSet::new();
    for r in rows {
        let cols = call_args(r, "row")?;
        let kept: Vec<String> = cols
            .iter()
            .filter(|c| {
                let name = c.as_list().and_then(|l| l.first()).and_then(|n| n.as_atom()).unwrap_or("");
                !(is_added(name))
            })
            .map(|c| c.to_string())
            .collect();
        *out.entry(kept.join(" ")).or_default() += 1;
    }
    Some(out)
}

fn is_added(name: &str) -> bool {
    let digits = |p: &str| name.strip_prefix(p).is_some_and(|r| !r.is_empty() && r.bytes().all(|b| b.is_ascii_digit()));
    digits(ADDED_COUNT_PREFIX) || digits(ADDED_INNER_PREFIX)
}

/// does the query text contain an `@output(name: "zc<N>")` / `"zi<N>"` added by a variant?
fn text_has_added_output(text: &str) -> bool {
    text.split('"').any(is_added)
}

fn request_text(args: &[Sexp]) -> String {
    args.get(2).and_then(|t| t.as_atom()).and_then(unhex).and_then(|b| String::from_utf8(b).ok()).unwrap_or_default()
}

// ------------------------------------------------------------------------------------------------
// the property

#[derive(Default)]
pub struct C22 {
    stats: RefCell<serde_json::Value>,
    oracle_stats: RefCell<serde_json::Value>,
}

fn knobs(tier: Tier) -> (WorldKnobs, usize) {
    let query = QueryKnobs {
        w_fold: 16,
        w_plain: 6,
        w_optional: 3,
        w_recurse: 2,
        p_count_filter: (4, 5),
        p_count_output: (1, 4),
        p_tag_operand: (2, 3),
        p_tag_operand_in_fold: (3, 4),
        ..QueryKnobs::clean()
    };
    let quick = tier == Tier::Quick;
    (
        WorldKnobs {
            n_schemas: if quick { 30 } else { 300 },
            n_datasets: 2,
            n_queries: 8,
            schema: SchemaKnobs::default(),
            data: DataKnobs::default(),
            query,
        },
        // directed queries per schema
        10,
    )
}

impl Prop for C22 {
    fn id(&self) -> &'static str {
        "C22"
    }
    fn rule(&self) -> &'static str {
        "per seed: generated schemas x 2 datasets (fold sizes 0..4) x (8 type-directed random queries with folds and count filters frequent + 10 directed queries built around a fold with 1-3 count filters: operators = != < <= > >= one_of not_one_of, arguments from {-2^63,-1,0,1,2,3 as Int64; 0,1,2,3,2^63 as Uint64}, one_of lists of 0-3 such values, count tag used in a sibling fold's post-filter / imported into a sibling fold / used in a filter of a later vertex of the same component, nested folds with outputs or count outputs, with and without outputs inside the fold, with and without count output). Kept: queries accepted by the real frontend and argument validation that contain a fold with a count filter. Each kept query Q is sent per dataset as (exec Q) [model = Interp], (spec-nolimits Q) [model = Interp with useLimits := false = every fold fully materialised], and its observing variants Q+count-outputs (exec, spec-nolimits) and Q+inner-outputs (exec). Oracle on the implementation: the rows of each variant, restricted to Q's columns, equal Q's rows as a multiset. Non-trivial (nt:*): nt:min-eligible+rows (a fold passes the engine's own eligibility test for the min shortcut and Q returned rows), nt:max-limited (some fold has an = < <= one_of filter against a variable), nt:variant-rows (a variant returned rows)."
    }
    fn generate(&self, tier: Tier, rng: &mut Rng) -> Vec<Case> {
        let (wk, n_directed) = knobs(tier);
        let mut gstats = GenStats::default();
        let mut out = vec![];
        let (mut directed_generated, mut directed_accepted, mut bases, mut variants_rejected) = (0usize, 0usize, 0usize, 0usize);
        for _ in 0..wk.n_schemas {
            let generated = guarded(|| {
                let mut w = gen_world(rng, &wk, &mut gstats);
                for _ in 0..n_directed {
                    if let Some(gq) = gen_directed(rng, &w.schema) {
                        let wq = compile_query(&w.schema, &w.real, gq);
                        w.queries.push(wq);
                    }
                }
                w
            });
            let w: World = match generated {
                Ok(w) => w,
                Err(info) => {
                    eprintln!("C22 generator panicked: {info}");
                    std::process::exit(3);
                }
            };
            for q in &w.queries {
                let directed = q.gq.features.contains("directed");
                directed_generated += usize::from(directed);
                if q.compiled.is_err() || !tree_has_count_filter(&q.gq.query.node) {
                    continue;
                }
                directed_accepted += usize::from(directed);
                bases += 1;
                let mut vs: Vec<(&str, WorldQuery)> = vec![];
                for (role, f) in [("count-out", add_count_outputs as fn(&mut Node, &mut usize)), ("inner-out", add_inner_outputs)] {
                    if let Some(v) = variant(&q.gq, f) {
                        let wq = compile_query(&w.schema, &w.real, v);
                        if wq.compiled.is_ok() {
                            vs.push((role, wq));
                        } else {
                            variants_rejected += 1;
                        }
                    }
                }
                let mut tags: Vec<String> = q.gq.features.iter().cloned().collect();
                for d in 0..w.datasets.len() {
                    let mut push = |cmd: &str, wq: &WorldQuery, role: &str, tags: &[String]| {
                        if let Some(r) = w.request(cmd, d, wq) {
                            let mut t = tags.to_vec();
                            t.push(format!("role:{role}"));
                            out.push(Case { request: r, tags: t });
                        }
                    };
                    push("exec", q, "base", &tags);
                    push("spec-nolimits", q, "base-nolimits", &tags);
                    for (role, v) in &vs {
                        push("exec", v, role, &tags);
                        if *role == "count-out" {
                            push("spec-nolimits", v, "count-out-nolimits", &tags);
                        }
                    }
                }
                tags.clear();
            }
        }
        *self.stats.borrow_mut() = serde_json::json!({
            "random_generator": gstats.to_json(),
            "directed_generated": directed_generated,
            "directed_accepted_with_count_filter": directed_accepted,
            "base_queries": bases,
            "variants_rejected_by_frontend": variants_rejected,
        });
        out
    }
    fn eval(&self, request: &Sexp) -> Option<String> {
        let (h, args) = request.as_call()?;
        match h {
            "exec" | "spec-nolimits" => eval_exec(args),
            _ => None,
        }
    }
    fn oracle(&self, evaluated: &[Evaluated]) -> Vec<OracleFailure> {
        // groups: consecutive `exec` lines over the same (schema, data, args); a line tagged `role:base`
        // always starts a new group. The first line of a group is the base query.
        let mut fails = vec![];
        let mut cur_key: Option<String> = None;
        let mut base: Option<(&Evaluated, RowSet)> = None;
        let (mut groups, mut compared, mut skipped) = (0usize, 0usize, 0usize);
        let mut seen = BTreeSet::new();
        for e in evaluated {
            let Some(("exec", args)) = e.request.as_call() else { continue };
            if args.len() != 5 {
                continue;
            }
            let key = format!("{} {} {}", args[0], args[1], args[4]);
            let has_role = e.tags.iter().any(|t| t.starts_with("role:"));
            let starts_group = if has_role {
                e.tags.iter().any(|t| t == "role:base")
            } else {
                // corpus / replay lines: a variant carries one of the added output names
                cur_key.as_deref() != Some(key.as_str()) || !text_has_added_output(&request_text(args))
            };
            let rows = row_multiset(&e.answer);
            if starts_group {
                cur_key = Some(key.clone());
                base = rows.map(|r| (e, r));
                groups += 1;
                continue;
            }
            let Some((b, brows)) = &base else {
                skipped += 1;
                continue;
            };
            let Some(vrows) = rows else {
                skipped += 1;
                continue;
            };
            compared += 1;
            if vrows != *brows {
                let Some((_, bargs)) = b.request.as_call() else { continue };
                let facts = ir_facts(&bargs[3]);
                let class = classify(&facts);
                let (btext, vtext) = (request_text(bargs), request_text(args));
                if !seen.insert((class.clone(), btext.clone(), vtext.clone(), key.clone())) {
                    continue;
                }
                let only_base: Vec<&String> = brows.keys().filter(|k| brows.get(*k) != vrows.get(*k)).take(3).collect();
                let only_var: Vec<&String> = vrows.keys().filter(|k| brows.get(*k) != vrows.get(*k)).take(3).collect();
                fails.push(OracleFailure {
                    key: format!("count-observation-changes-rows:{class}"),
                    detail: format!(
                        "query: {btext} | observing variant: {vtext} | args: {} | rows {} vs {} | differing rows of the query: {only_base:?} | of the variant: {only_var:?}",
                        args[4],
                        brows.values().sum::<usize>(),
                        vrows.values().sum::<usize>()
                    ),
                    requests: vec![b.line.clone(), e.line.clone()],
                });
            }
        }
        *self.oracle_stats.borrow_mut() = serde_json::json!({"groups": groups, "variant_comparisons": compared, "variants_not_rows": skipped});
        fails
    }
    fn post_tags(&self, e: &Evaluated) -> Vec<String> {
        let Some((_, args)) = e.request.as_call() else { return vec![] };
        let Some(ir) = args.get(3) else { return vec![] };
        let f = ir_facts(ir);
        let rows = e.answer.starts_with("(rows (row");
        if let Some(info) = &e.panic_info {
            return vec![format!("impl-{}", panic_key(info))];
        }
        let is_base = !e.tags.iter().any(|t| t.starts_with("role:") && t != "role:base" && t != "role:base-nolimits");
        let mut t = vec![];
        if f.min_eligible > 0 {
            t.push("min-eligible".to_string());
            if rows && is_base {
                t.push("nt:min-eligible+rows".into());
            }
        }
        if f.max_limited > 0 {
            t.push("nt:max-limited".into());
        }
        if !is_base && rows {
            t.push("nt:variant-rows".into());
        }
        for (b, name) in [
            (f.sibling_post_tag, "trigger:sibling-post-tag"),
            (f.sibling_import_tag, "trigger:sibling-import-tag"),
            (f.same_comp_vertex_tag, "same-comp-vertex-tag"),
            (f.nested_output_in_eligible, "trigger:nested-output-in-eligible"),
            (f.nested_folds, "nested-folds"),
        ] {
            if b {
                t.push(name.to_string());
            }
        }
        t.push(if e.answer == "(rows)" {
            "rows:0".into()
        } else if rows {
            "rows:>0".into()
        } else {
            format!("answer:{}", e.answer.chars().take(14).collect::<String>())
        });
        t
    }
    fn extra_stats(&self, _evaluated: &[Evaluated]) -> serde_json::Value {
        serde_json::json!({"generator": self.stats.borrow().clone(), "oracle": self.oracle_stats.borrow().clone()})
    }
}

// ------------------------------------------------------------------------------------------------
// witnesses: a numbers-like world written by hand (corpus lines) and the probe on the numbers adapter

fn witness_world() -> (GenSchema, Dataset) {
    let number = "Number".to_string();
    let list_edge = |name: &str| EdgeDef {
        name: name.to_string(),
        target: number.clone(),
        ty: Ty::named("Number", false).list_of(false),
        params: vec![],
    };
    let schema = GenSchema {
        types: vec![TypeDef {
            name: number.clone(),
            is_iface: false,
            supers: vec![],
            props: vec![("value".to_string(), Ty::named("Int", true))],
            edges: vec![list_edge("divisor"), list_edge("multiple")],
        }],
        roots: vec![EdgeDef { name: "Four".into(), target: number.clone(), ty: Ty::named("Number", true), params: vec![] }],
    };
    let v = |id: u32| VertexData { id, ty: number.clone(), props: vec![("value".to_string(), FieldValue::Int64(id as i64))] };
    let mut adj = BTreeMap::new();
    adj.insert((4u32, "divisor".to_string()), vec![1u32, 2]);
    adj.insert((4u32, "multiple".to_string()), vec![4u32, 8]);
    adj.insert((2u32, "multiple".to_string()), vec![2u32, 4, 6]);
    let mut starts = BTreeMap::new();
    starts.insert("Four".to_string(), vec![4u32]);
    (schema, Dataset { vertices: vec![v(1), v(2), v(4), v(6), v(8)], adj, starts })
}

const F23_QUERY: &str = r#"{ Four { value @output divisor @fold @transform(op: "count") @filter(op: ">=", value: ["$one"]) @tag(name: "c") multiple @fold @transform(op: "count") @output(name: "m") @filter(op: "=", value: ["%c"]) } }"#;
const F23_QUERY_OBSERVED: &str = r#"{ Four { value @output divisor @fold @transform(op: "count") @filter(op: ">=", value: ["$one"]) @tag(name: "c") @output(name: "zc0") multiple @fold @transform(op: "count") @output(name: "m") @filter(op: "=", value: ["%c"]) } }"#;
const F29_QUERY: &str = r#"{ Four { value @output divisor @fold @transform(op: "count") @filter(op: ">=", value: ["$one"]) { multiple @fold { value @output(name: "inner") } } } }"#;
const F29_QUERY_OBSERVED: &str = r#"{ Four { value @output divisor @fold @transform(op: "count") @filter(op: ">=", value: ["$one"]) @output(name: "zc0") { multiple @fold { value @output(name: "inner") } } } }"#;

fn corpus_lines() -> Vec<String> {
    let (schema, data) = witness_world();
    let real = schema.to_real();
    let w = World { schema_sexp: schema.to_sexp(), schema, real, datasets: vec![data], queries: vec![] };
    let mut args = BTreeMap::new();
    args.insert("one".to_string(), FieldValue::Int64(1));
    let mut out = vec![];
    for (text, cmds) in [
        (F23_QUERY, vec!["exec", "spec-nolimits"]),
        (F23_QUERY_OBSERVED, vec!["exec"]),
        (F29_QUERY, vec!["exec", "spec-nolimits"]),
        (F29_QUERY_OBSERVED, vec!["exec"]),
    ] {
        let gq = GenQuery {
            query: Query { root: "Four".into(), root_params: vec![], node: Node { coerce_to: None, fields: vec![] } },
            text: text.to_string(),
            args: args.clone(),
            features: BTreeSet::new(),
        };
        let wq = compile_query(&w.schema, &w.real, gq);
        assert!(wq.compiled.is_ok(), "witness query rejected: {text}");
        for cmd in cmds {
            out.push(w.request(cmd, 0, &wq).expect("request").to_string());
        }
    }
    out
}

fn probe() {
    use trustfall_core::frontend;
    use trustfall_core::interpreter::execution::interpret_ir;
    use trustfall_core::numbers_interpreter::NumbersAdapter;
    let run = |text: &str| -> String {
        let adapter = NumbersAdapter::new();
        let q = match frontend::parse(adapter.schema(), text) {
            Ok(q) => q,
            Err(e) => return format!("frontend error: {e:?}"),
        };
        let mut a: BTreeMap<Arc<str>, FieldValue> = BTreeMap::new();
        a.insert(Arc::from("one"), FieldValue::Int64(1));
        match interpret_ir(Arc::new(adapter), q, Arc::new(a)) {
            Err(e) => format!("args error: {e:?}"),
            Ok(rows) => {
                let rows: Vec<_> = rows.collect();
                format!("{} rows: {rows:?}", rows.len())
            }
        }
    };
    let qs = [
        ("F-23", r#"{ Four { value @output divisor @fold @transform(op:"count") @filter(op:">=",value:["$one"]) @tag(name:"c") multiple(max:2) @fold @transform(op:"count") @output(name:"m") @filter(op:"=",value:["%c"]) } }"#),
        ("F-23 observed", r#"{ Four { value @output divisor @fold @transform(op:"count") @filter(op:">=",value:["$one"]) @tag(name:"c") @output(name:"cc") multiple(max:2) @fold @transform(op:"count") @output(name:"m") @filter(op:"=",value:["%c"]) } }"#),
        ("F-29", r#"{ Four { value @output divisor @fold @transform(op:"count") @filter(op:">=",value:["$one"]) { multiple(max:3) @fold { value @output(name:"inner") } } } }"#),
        ("F-29 observed", r#"{ Four { value @output divisor @fold @transform(op:"count") @filter(op:">=",value:["$one"]) @output(name:"cnt") { multiple(max:3) @fold { value @output(name:"inner") } } } }"#),
        ("F-29 nested count", r#"{ Four { value @output divisor @fold @transform(op:"count") @filter(op:">=",value:["$one"]) { multiple(max:3) @fold @transform(op:"count") @output(name:"innercount") } } }"#),
        ("F-29 nested count observed", r#"{ Four { value @output divisor @fold @transform(op:"count") @filter(op:">=",value:["$one"]) { value @output(name:"dv") multiple(max:3) @fold @transform(op:"count") @output(name:"innercount") } } }"#),
    ];
    for (name, q) in qs {
        println!("{name}: {q}\n  => {}", run(q));
    }
}

fn main() {
    match std::env::args().nth(1).as_deref() {
        Some("probe") => probe(),
        Some("corpus") => {
            println!("# C22 corpus: the F-23 witness (count tag of a min-eligible fold used in a sibling fold's post-filter) and");
            println!("# the F-29 witness (outputs of a fold nested in a min-eligible fold), each followed by its observing variant.");
            for l in corpus_lines() {
                println!("{l}");
            }
        }
        _ => main_for(vec![Box::new(C22::default())]),
    }
}
