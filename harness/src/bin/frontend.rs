//! C10 probe skeleton (replaced below by the full harness).
use tfharness::framework::*;
use trustfall_core::schema::Schema;

fn main() {
    let args: Vec<String> = std::env::args().collect();
    if args.len() >= 3 && args[1] == "probe" {
        install_quiet_panic_hook();
        let sdl = std::fs::read_to_string(&args[2]).unwrap();
        let schema = Schema::parse(sdl).unwrap();
        use std::io::BufRead;
        for line in std::io::stdin().lock().lines() {
            let line = line.unwrap();
            if line.trim().is_empty() {
                continue;
            }
            let r = guarded(|| match trustfall_core::frontend::parse(&schema, &line) {
                Ok(_) => "ok".to_string(),
                Err(e) => format!("err {:?}", e).chars().take(200).collect(),
            });
            match r {
                Ok(s) => println!("{line}\n   => {s}"),
                Err(p) => println!("{line}\n   => PANIC {p}"),
            }
        }
    }
}
