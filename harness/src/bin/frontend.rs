//! C10 — the frontend never panics on any query text.
//!
//! Requests (group `frontend`, Lean driver `drv_frontend`):
//!   `(parse-doc <doc>)`      outcome class of `graphql_query::query::parse_document` on the abstract
//!                            document: `panic` | `ok` | `(err <ParseErrorVariant>)`
//!   `(text-nopanic <hex>)`   byte-level exploration of the unmodelled text parser: both sides answer
//!                            `nopanic`; panics are found by the oracle
//! The abstract document is sent to the model as an s-expression; the implementation is run on the
//! `ExecutableDocument` built *directly* from it, and (oracle) on the document's rendered GraphQL text
//! through `async_graphql_parser::parse_query` + `frontend::parse`.
use std::collections::{BTreeMap, HashMap};

use async_graphql_parser::types as gt;
use async_graphql_parser::{Pos, Positioned};
use async_graphql_value::{Name, Value as GV};

use tfharness::framework::*;
use tfharness::rng::Rng;
use tfharness::sexp::{Sexp, hex, unhex};
use trustfall_core::frontend::error::FrontendError;
use trustfall_core::graphql_query::error::ParseError;
use trustfall_core::schema::Schema;

// ------------------------------------------------------------------------------------------------
// abstract document (mirror of lean/TrustfallModel/Model/QueryParse.lean)

#[derive(Clone, Debug, PartialEq)]
pub enum GVal {
    Var(String),
    Null,
    /// integer literal in [-2^63, 2^64)
    Int(i128),
    /// any other number literal, by its text
    Float(String),
    Str(String),
    Bool(bool),
    Enum(String),
    List(Vec<GVal>),
    Object(Vec<(String, GVal)>),
}

#[derive(Clone, Debug, PartialEq)]
pub struct Arg {
    pub name: String,
    pub value: GVal,
}

#[derive(Clone, Debug, PartialEq)]
pub struct Dir {
    pub name: String,
    pub args: Vec<Arg>,
}

#[derive(Clone, Debug, PartialEq)]
pub struct FieldSel {
    pub alias: Option<String>,
    pub name: String,
    pub args: Vec<Arg>,
    pub dirs: Vec<Dir>,
    pub sels: Vec<Sel>,
}

#[derive(Clone, Debug, PartialEq)]
pub enum Sel {
    Field(FieldSel),
    Spread { name: String, dirs: Vec<Dir> },
    Inline { tc: Option<String>, dirs: Vec<Dir>, sels: Vec<Sel> },
}

#[derive(Clone, Debug, PartialEq)]
pub struct Op {
    /// 'q' | 'm' | 's'
    pub kind: char,
    pub nvars: usize,
    pub dirs: Vec<Dir>,
    pub sels: Vec<Sel>,
}

#[derive(Clone, Debug, PartialEq)]
pub struct Frag {
    pub name: String,
    pub tc: String,
    pub dirs: Vec<Dir>,
    pub sels: Vec<Sel>,
}

#[derive(Clone, Debug, PartialEq)]
pub enum Ops {
    Single(Op),
    Multi(Vec<(String, Op)>),
}

#[derive(Clone, Debug, PartialEq)]
pub struct Doc {
    pub ops: Ops,
    pub frags: Vec<Frag>,
}

fn d(name: &str, args: Vec<(&str, GVal)>) -> Dir {
    Dir { name: name.into(), args: args.into_iter().map(|(n, v)| Arg { name: n.into(), value: v }).collect() }
}
fn s(x: &str) -> GVal {
    GVal::Str(x.into())
}

// ---- s-expression encoding

fn hx(s: &str) -> Sexp {
    Sexp::atom(hex(s.as_bytes()))
}
fn opt_hx(s: &Option<String>) -> Sexp {
    match s {
        None => Sexp::atom("~"),
        Some(x) => hx(x),
    }
}

fn val_to_sexp(v: &GVal) -> Sexp {
    match v {
        GVal::Var(n) => Sexp::call("v", vec![hx(n)]),
        GVal::Null => Sexp::atom("n"),
        GVal::Int(i) => Sexp::call("i", vec![Sexp::atom(i.to_string())]),
        GVal::Float(t) => Sexp::call("fl", vec![hx(t)]),
        GVal::Str(x) => Sexp::call("s", vec![hx(x)]),
        GVal::Bool(b) => Sexp::call("b", vec![Sexp::atom(if *b { "1" } else { "0" })]),
        GVal::Enum(n) => Sexp::call("e", vec![hx(n)]),
        GVal::List(l) => Sexp::call("l", l.iter().map(val_to_sexp).collect()),
        GVal::Object(kv) => Sexp::call("o", kv.iter().map(|(k, v)| Sexp::list(vec![hx(k), val_to_sexp(v)])).collect()),
    }
}
fn args_to_sexp(a: &[Arg]) -> Sexp {
    Sexp::list(a.iter().map(|a| Sexp::list(vec![hx(&a.name), val_to_sexp(&a.value)])).collect())
}
fn dirs_to_sexp(ds: &[Dir]) -> Sexp {
    Sexp::list(ds.iter().map(|d| Sexp::list(vec![Sexp::atom("d"), hx(&d.name), args_to_sexp(&d.args)])).collect())
}
fn sels_to_sexp(ss: &[Sel]) -> Sexp {
    Sexp::list(ss.iter().map(sel_to_sexp).collect())
}
fn sel_to_sexp(s: &Sel) -> Sexp {
    match s {
        Sel::Field(f) => Sexp::list(vec![
            Sexp::atom("f"),
            opt_hx(&f.alias),
            hx(&f.name),
            args_to_sexp(&f.args),
            dirs_to_sexp(&f.dirs),
            sels_to_sexp(&f.sels),
        ]),
        Sel::Spread { name, dirs } => Sexp::list(vec![Sexp::atom("sp"), hx(name), dirs_to_sexp(dirs)]),
        Sel::Inline { tc, dirs, sels } => Sexp::list(vec![Sexp::atom("in"), opt_hx(tc), dirs_to_sexp(dirs), sels_to_sexp(sels)]),
    }
}
fn op_to_sexp(o: &Op) -> Sexp {
    Sexp::list(vec![
        Sexp::atom("op"),
        Sexp::atom(o.kind.to_string()),
        Sexp::atom(o.nvars.to_string()),
        dirs_to_sexp(&o.dirs),
        sels_to_sexp(&o.sels),
    ])
}
pub fn doc_to_sexp(doc: &Doc) -> Sexp {
    let ops = match &doc.ops {
        Ops::Single(o) => Sexp::call("single", vec![op_to_sexp(o)]),
        Ops::Multi(m) => Sexp::call("multi", m.iter().map(|(n, o)| Sexp::list(vec![hx(n), op_to_sexp(o)])).collect()),
    };
    let frags = Sexp::list(
        doc.frags
            .iter()
            .map(|f| Sexp::list(vec![Sexp::atom("frag"), hx(&f.name), hx(&f.tc), dirs_to_sexp(&f.dirs), sels_to_sexp(&f.sels)]))
            .collect(),
    );
    Sexp::call("doc", vec![ops, frags])
}

fn un(s: &Sexp) -> Option<String> {
    String::from_utf8(unhex(s.as_atom()?)?).ok()
}
fn opt_un(s: &Sexp) -> Option<Option<String>> {
    if s.as_atom()? == "~" { Some(None) } else { Some(Some(un(s)?)) }
}
fn sexp_to_val(s: &Sexp) -> Option<GVal> {
    if s.as_atom() == Some("n") {
        return Some(GVal::Null);
    }
    let (h, a) = s.as_call()?;
    Some(match (h, a) {
        ("v", [x]) => GVal::Var(un(x)?),
        ("i", [x]) => GVal::Int(x.as_atom()?.parse().ok()?),
        ("fl", [x]) => GVal::Float(un(x)?),
        ("s", [x]) => GVal::Str(un(x)?),
        ("b", [x]) => GVal::Bool(x.as_atom()? == "1"),
        ("e", [x]) => GVal::Enum(un(x)?),
        ("l", xs) => GVal::List(xs.iter().map(sexp_to_val).collect::<Option<_>>()?),
        ("o", kvs) => GVal::Object(
            kvs.iter()
                .map(|kv| {
                    let l = kv.as_list()?;
                    if l.len() != 2 {
                        return None;
                    }
                    Some((un(&l[0])?, sexp_to_val(&l[1])?))
                })
                .collect::<Option<_>>()?,
        ),
        _ => return None,
    })
}
fn sexp_to_args(s: &Sexp) -> Option<Vec<Arg>> {
    s.as_list()?
        .iter()
        .map(|a| {
            let l = a.as_list()?;
            if l.len() != 2 {
                return None;
            }
            Some(Arg { name: un(&l[0])?, value: sexp_to_val(&l[1])? })
        })
        .collect()
}
fn sexp_to_dirs(s: &Sexp) -> Option<Vec<Dir>> {
    s.as_list()?
        .iter()
        .map(|x| {
            let l = x.as_list()?;
            if l.len() != 3 || l[0].as_atom()? != "d" {
                return None;
            }
            Some(Dir { name: un(&l[1])?, args: sexp_to_args(&l[2])? })
        })
        .collect()
}
fn sexp_to_sels(s: &Sexp) -> Option<Vec<Sel>> {
    s.as_list()?.iter().map(sexp_to_sel).collect()
}
fn sexp_to_sel(s: &Sexp) -> Option<Sel> {
    let (h, a) = s.as_call()?;
    Some(match (h, a) {
        ("f", [alias, name, args, dirs, sels]) => Sel::Field(FieldSel {
            alias: opt_un(alias)?,
            name: un(name)?,
            args: sexp_to_args(args)?,
            dirs: sexp_to_dirs(dirs)?,
            sels: sexp_to_sels(sels)?,
        }),
        ("sp", [name, dirs]) => Sel::Spread { name: un(name)?, dirs: sexp_to_dirs(dirs)? },
        ("in", [tc, dirs, sels]) => Sel::Inline { tc: opt_un(tc)?, dirs: sexp_to_dirs(dirs)?, sels: sexp_to_sels(sels)? },
        _ => return None,
    })
}
fn sexp_to_op(s: &Sexp) -> Option<Op> {
    let (h, a) = s.as_call()?;
    match (h, a) {
        ("op", [k, nv, dirs, sels]) => Some(Op {
            kind: k.as_atom()?.chars().next()?,
            nvars: nv.as_atom()?.parse().ok()?,
            dirs: sexp_to_dirs(dirs)?,
            sels: sexp_to_sels(sels)?,
        }),
        _ => None,
    }
}
pub fn sexp_to_doc(s: &Sexp) -> Option<Doc> {
    let (h, a) = s.as_call()?;
    let ("doc", [ops, frags]) = (h, a) else { return None };
    let (oh, oa) = ops.as_call()?;
    let ops = match (oh, oa) {
        ("single", [o]) => Ops::Single(sexp_to_op(o)?),
        ("multi", xs) => Ops::Multi(
            xs.iter()
                .map(|x| {
                    let l = x.as_list()?;
                    if l.len() != 2 {
                        return None;
                    }
                    Some((un(&l[0])?, sexp_to_op(&l[1])?))
                })
                .collect::<Option<_>>()?,
        ),
        _ => return None,
    };
    let frags = frags
        .as_list()?
        .iter()
        .map(|f| {
            let (h, a) = f.as_call()?;
            let ("frag", [n, tc, dirs, sels]) = (h, a) else { return None };
            Some(Frag { name: un(n)?, tc: un(tc)?, dirs: sexp_to_dirs(dirs)?, sels: sexp_to_sels(sels)? })
        })
        .collect::<Option<_>>()?;
    Some(Doc { ops, frags })
}

// ---- direct construction of the parser's AST

fn p<T>(x: T) -> Positioned<T> {
    Positioned::new(x, Pos::default())
}
fn number_of_text(t: &str) -> serde_json::Number {
    // exactly what the text parser does with a number token
    t.parse::<serde_json::Number>().unwrap_or_else(|_| serde_json::Number::from(0))
}
fn val_to_ast(v: &GVal) -> GV {
    match v {
        GVal::Var(n) => GV::Variable(Name::new(n)),
        GVal::Null => GV::Null,
        GVal::Int(i) => {
            if *i < 0 {
                GV::Number(serde_json::Number::from(*i as i64))
            } else {
                GV::Number(serde_json::Number::from(*i as u64))
            }
        }
        GVal::Float(t) => GV::Number(number_of_text(t)),
        GVal::Str(x) => GV::String(x.clone()),
        GVal::Bool(b) => GV::Boolean(*b),
        GVal::Enum(n) => GV::Enum(Name::new(n)),
        GVal::List(l) => GV::List(l.iter().map(val_to_ast).collect()),
        GVal::Object(kv) => GV::Object(kv.iter().map(|(k, v)| (Name::new(k), val_to_ast(v))).collect()),
    }
}
fn dirs_to_ast(ds: &[Dir]) -> Vec<Positioned<gt::Directive>> {
    ds.iter()
        .map(|d| {
            p(gt::Directive {
                name: p(Name::new(&d.name)),
                arguments: d.args.iter().map(|a| (p(Name::new(&a.name)), p(val_to_ast(&a.value)))).collect(),
            })
        })
        .collect()
}
fn sels_to_ast(ss: &[Sel]) -> Positioned<gt::SelectionSet> {
    p(gt::SelectionSet { items: ss.iter().map(|s| p(sel_to_ast(s))).collect() })
}
fn sel_to_ast(s: &Sel) -> gt::Selection {
    match s {
        Sel::Field(f) => gt::Selection::Field(p(gt::Field {
            alias: f.alias.as_ref().map(|a| p(Name::new(a))),
            name: p(Name::new(&f.name)),
            arguments: f.args.iter().map(|a| (p(Name::new(&a.name)), p(val_to_ast(&a.value)))).collect(),
            directives: dirs_to_ast(&f.dirs),
            selection_set: sels_to_ast(&f.sels),
        })),
        Sel::Spread { name, dirs } => {
            gt::Selection::FragmentSpread(p(gt::FragmentSpread { fragment_name: p(Name::new(name)), directives: dirs_to_ast(dirs) }))
        }
        Sel::Inline { tc, dirs, sels } => gt::Selection::InlineFragment(p(gt::InlineFragment {
            type_condition: tc.as_ref().map(|t| p(gt::TypeCondition { on: p(Name::new(t)) })),
            directives: dirs_to_ast(dirs),
            selection_set: sels_to_ast(sels),
        })),
    }
}
fn op_to_ast(o: &Op) -> Positioned<gt::OperationDefinition> {
    p(gt::OperationDefinition {
        ty: match o.kind {
            'm' => gt::OperationType::Mutation,
            's' => gt::OperationType::Subscription,
            _ => gt::OperationType::Query,
        },
        variable_definitions: (0..o.nvars)
            .map(|i| {
                p(gt::VariableDefinition {
                    name: p(Name::new(format!("v{i}"))),
                    var_type: p(gt::Type::new("Int").unwrap()),
                    directives: vec![],
                    default_value: None,
                })
            })
            .collect(),
        directives: dirs_to_ast(&o.dirs),
        selection_set: sels_to_ast(&o.sels),
    })
}
pub fn doc_to_ast(doc: &Doc) -> gt::ExecutableDocument {
    let operations = match &doc.ops {
        Ops::Single(o) => gt::DocumentOperations::Single(op_to_ast(o)),
        Ops::Multi(m) => gt::DocumentOperations::Multiple(m.iter().map(|(n, o)| (Name::new(n), op_to_ast(o))).collect()),
    };
    let fragments: HashMap<Name, Positioned<gt::FragmentDefinition>> = doc
        .frags
        .iter()
        .map(|f| {
            (
                Name::new(&f.name),
                p(gt::FragmentDefinition {
                    type_condition: p(gt::TypeCondition { on: p(Name::new(&f.tc)) }),
                    directives: dirs_to_ast(&f.dirs),
                    selection_set: sels_to_ast(&f.sels),
                }),
            )
        })
        .collect();
    gt::ExecutableDocument { operations, fragments }
}

// ---- the parser's AST back to the abstract document (for texts: corpus, byte stream)

fn ast_to_val(v: &GV) -> Option<GVal> {
    Some(match v {
        GV::Variable(n) => GVal::Var(n.to_string()),
        GV::Null => GVal::Null,
        GV::Number(n) => {
            if let Some(i) = n.as_i64() {
                GVal::Int(i as i128)
            } else if let Some(u) = n.as_u64() {
                GVal::Int(u as i128)
            } else {
                GVal::Float(n.to_string())
            }
        }
        GV::String(x) => GVal::Str(x.clone()),
        GV::Boolean(b) => GVal::Bool(*b),
        GV::Enum(n) => GVal::Enum(n.to_string()),
        GV::List(l) => GVal::List(l.iter().map(ast_to_val).collect::<Option<_>>()?),
        GV::Object(m) => GVal::Object(m.iter().map(|(k, v)| Some((k.to_string(), ast_to_val(v)?))).collect::<Option<_>>()?),
        GV::Binary(_) => return None,
    })
}
fn ast_to_dirs(ds: &[Positioned<gt::Directive>]) -> Option<Vec<Dir>> {
    ds.iter()
        .map(|d| {
            Some(Dir {
                name: d.node.name.node.to_string(),
                args: d
                    .node
                    .arguments
                    .iter()
                    .map(|(n, v)| Some(Arg { name: n.node.to_string(), value: ast_to_val(&v.node)? }))
                    .collect::<Option<_>>()?,
            })
        })
        .collect()
}
fn ast_to_sels(ss: &gt::SelectionSet) -> Option<Vec<Sel>> {
    ss.items
        .iter()
        .map(|s| {
            Some(match &s.node {
                gt::Selection::Field(f) => Sel::Field(FieldSel {
                    alias: f.node.alias.as_ref().map(|a| a.node.to_string()),
                    name: f.node.name.node.to_string(),
                    args: f
                        .node
                        .arguments
                        .iter()
                        .map(|(n, v)| Some(Arg { name: n.node.to_string(), value: ast_to_val(&v.node)? }))
                        .collect::<Option<_>>()?,
                    dirs: ast_to_dirs(&f.node.directives)?,
                    sels: ast_to_sels(&f.node.selection_set.node)?,
                }),
                gt::Selection::FragmentSpread(fs) => {
                    Sel::Spread { name: fs.node.fragment_name.node.to_string(), dirs: ast_to_dirs(&fs.node.directives)? }
                }
                gt::Selection::InlineFragment(i) => Sel::Inline {
                    tc: i.node.type_condition.as_ref().map(|t| t.node.on.node.to_string()),
                    dirs: ast_to_dirs(&i.node.directives)?,
                    sels: ast_to_sels(&i.node.selection_set.node)?,
                },
            })
        })
        .collect()
}
fn ast_to_op(o: &gt::OperationDefinition) -> Option<Op> {
    Some(Op {
        kind: match o.ty {
            gt::OperationType::Query => 'q',
            gt::OperationType::Mutation => 'm',
            gt::OperationType::Subscription => 's',
        },
        nvars: o.variable_definitions.len(),
        dirs: ast_to_dirs(&o.directives)?,
        sels: ast_to_sels(&o.selection_set.node)?,
    })
}
/// The abstract document of a parsed text (operations and fragments sorted by name: the maps'
/// iteration order is irrelevant to the outcome class).
pub fn ast_to_doc(doc: &gt::ExecutableDocument) -> Option<Doc> {
    let ops = match &doc.operations {
        gt::DocumentOperations::Single(o) => Ops::Single(ast_to_op(&o.node)?),
        gt::DocumentOperations::Multiple(m) => {
            let mut v: Vec<(String, Op)> = m.iter().map(|(n, o)| Some((n.to_string(), ast_to_op(&o.node)?))).collect::<Option<_>>()?;
            v.sort_by(|a, b| a.0.cmp(&b.0));
            Ops::Multi(v)
        }
    };
    let mut frags: Vec<Frag> = doc
        .fragments
        .iter()
        .map(|(n, f)| {
            Some(Frag {
                name: n.to_string(),
                tc: f.node.type_condition.node.on.node.to_string(),
                dirs: ast_to_dirs(&f.node.directives)?,
                sels: ast_to_sels(&f.node.selection_set.node)?,
            })
        })
        .collect::<Option<_>>()?;
    frags.sort_by(|a, b| a.name.cmp(&b.name));
    Some(Doc { ops, frags })
}

// ---- rendering as GraphQL text (None: this abstract document is not the image of any text)

fn is_name(s: &str) -> bool {
    let mut cs = s.chars();
    match cs.next() {
        Some(c) if c.is_ascii_alphabetic() || c == '_' => {}
        _ => return false,
    }
    cs.all(|c| c.is_ascii_alphanumeric() || c == '_')
}
fn is_number_text(t: &str) -> bool {
    // GraphQL `number` token: -?(0|[1-9][0-9]*)(\.[0-9]+)?([eE][+-]?[0-9]+)?  and accepted by serde_json
    let b = t.as_bytes();
    let mut i = 0;
    if i < b.len() && b[i] == b'-' {
        i += 1;
    }
    if i >= b.len() {
        return false;
    }
    if b[i] == b'0' {
        i += 1;
    } else if b[i].is_ascii_digit() {
        while i < b.len() && b[i].is_ascii_digit() {
            i += 1;
        }
    } else {
        return false;
    }
    if i < b.len() && b[i] == b'.' {
        i += 1;
        let st = i;
        while i < b.len() && b[i].is_ascii_digit() {
            i += 1;
        }
        if i == st {
            return false;
        }
    }
    if i < b.len() && (b[i] == b'e' || b[i] == b'E') {
        i += 1;
        if i < b.len() && (b[i] == b'+' || b[i] == b'-') {
            i += 1;
        }
        let st = i;
        while i < b.len() && b[i].is_ascii_digit() {
            i += 1;
        }
        if i == st {
            return false;
        }
    }
    i == b.len() && t.parse::<serde_json::Number>().is_ok()
}
/// the float literal must not be an in-range integer (that is `GVal::Int`'s job)
fn float_text_ok(t: &str) -> bool {
    if !is_number_text(t) {
        return false;
    }
    let n = t.parse::<serde_json::Number>().unwrap();
    n.as_i64().is_none() && n.as_u64().is_none()
}
fn render_str(x: &str, out: &mut String) {
    out.push('"');
    for c in x.chars() {
        match c {
            '"' => out.push_str("\\\""),
            '\\' => out.push_str("\\\\"),
            '\n' => out.push_str("\\n"),
            '\r' => out.push_str("\\r"),
            '\t' => out.push_str("\\t"),
            c if (c as u32) < 0x20 => out.push_str(&format!("\\u{:04x}", c as u32)),
            // non-ASCII BMP characters with an odd code point are written as GraphQL `\uXXXX`
            // escapes, the others literally: both spellings of a string reach the text parser
            c if (0x80..0x1_0000).contains(&(c as u32)) && (c as u32) % 2 == 1 => out.push_str(&format!("\\u{:04x}", c as u32)),
            c => out.push(c),
        }
    }
    out.push('"');
}
fn render_val(v: &GVal, out: &mut String) -> Option<()> {
    match v {
        GVal::Var(n) => {
            if !is_name(n) {
                return None;
            }
            out.push('$');
            out.push_str(n);
        }
        GVal::Null => out.push_str("null"),
        GVal::Int(i) => {
            if *i < -(1i128 << 63) || *i >= (1i128 << 64) {
                return None;
            }
            out.push_str(&i.to_string());
        }
        GVal::Float(t) => {
            if !float_text_ok(t) {
                return None;
            }
            out.push_str(t);
        }
        GVal::Str(x) => render_str(x, out),
        GVal::Bool(b) => out.push_str(if *b { "true" } else { "false" }),
        GVal::Enum(n) => {
            if !is_name(n) || matches!(n.as_str(), "true" | "false" | "null") {
                return None;
            }
            out.push_str(n);
        }
        GVal::List(l) => {
            out.push('[');
            for (i, x) in l.iter().enumerate() {
                if i > 0 {
                    out.push_str(", ");
                }
                render_val(x, out)?;
            }
            out.push(']');
        }
        GVal::Object(kv) => {
            // IndexMap keys are unique
            let mut seen = std::collections::BTreeSet::new();
            out.push('{');
            for (i, (k, x)) in kv.iter().enumerate() {
                if !is_name(k) || !seen.insert(k.clone()) {
                    return None;
                }
                if i > 0 {
                    out.push_str(", ");
                }
                out.push_str(k);
                out.push_str(": ");
                render_val(x, out)?;
            }
            out.push('}');
        }
    }
    Some(())
}
fn render_args(a: &[Arg], out: &mut String) -> Option<()> {
    if a.is_empty() {
        return Some(());
    }
    out.push('(');
    for (i, x) in a.iter().enumerate() {
        if !is_name(&x.name) {
            return None;
        }
        if i > 0 {
            out.push_str(", ");
        }
        out.push_str(&x.name);
        out.push_str(": ");
        render_val(&x.value, out)?;
    }
    out.push(')');
    Some(())
}
fn render_dirs(ds: &[Dir], out: &mut String) -> Option<()> {
    for d in ds {
        if !is_name(&d.name) {
            return None;
        }
        out.push_str(" @");
        out.push_str(&d.name);
        render_args(&d.args, out)?;
    }
    Some(())
}
fn render_sels(ss: &[Sel], out: &mut String, depth: usize) -> Option<()> {
    if ss.is_empty() || depth > 60 {
        return None;
    }
    out.push_str(" {");
    for s in ss {
        out.push(' ');
        match s {
            Sel::Field(f) => {
                if let Some(a) = &f.alias {
                    if !is_name(a) {
                        return None;
                    }
                    out.push_str(a);
                    out.push_str(": ");
                }
                if !is_name(&f.name) {
                    return None;
                }
                out.push_str(&f.name);
                render_args(&f.args, out)?;
                render_dirs(&f.dirs, out)?;
                if !f.sels.is_empty() {
                    render_sels(&f.sels, out, depth + 1)?;
                }
            }
            Sel::Spread { name, dirs } => {
                if !is_name(name) || name == "on" {
                    return None;
                }
                out.push_str("...");
                out.push_str(name);
                render_dirs(dirs, out)?;
            }
            Sel::Inline { tc, dirs, sels } => {
                out.push_str("...");
                if let Some(t) = tc {
                    if !is_name(t) {
                        return None;
                    }
                    out.push_str(" on ");
                    out.push_str(t);
                }
                render_dirs(dirs, out)?;
                render_sels(sels, out, depth + 1)?;
            }
        }
    }
    out.push_str(" }");
    Some(())
}
fn render_op(name: Option<&str>, o: &Op, out: &mut String) -> Option<()> {
    let plain = name.is_none() && o.kind == 'q' && o.nvars == 0 && o.dirs.is_empty();
    if !plain {
        out.push_str(match o.kind {
            'q' => "query",
            'm' => "mutation",
            's' => "subscription",
            _ => return None,
        });
        if let Some(n) = name {
            if !is_name(n) {
                return None;
            }
            out.push(' ');
            out.push_str(n);
        }
        if o.nvars > 0 {
            out.push('(');
            for i in 0..o.nvars {
                if i > 0 {
                    out.push_str(", ");
                }
                out.push_str(&format!("$v{i}: Int"));
            }
            out.push(')');
        }
        render_dirs(&o.dirs, out)?;
    }
    render_sels(&o.sels, out, 0)
}
pub fn render_doc(doc: &Doc) -> Option<String> {
    let mut out = String::new();
    match &doc.ops {
        Ops::Single(o) => render_op(None, o, &mut out)?,
        Ops::Multi(m) => {
            if m.is_empty() {
                return None;
            }
            let mut seen = std::collections::BTreeSet::new();
            for (n, o) in m {
                if !seen.insert(n.clone()) {
                    return None;
                }
                render_op(Some(n), o, &mut out)?;
                out.push('\n');
            }
        }
    }
    let mut seen = std::collections::BTreeSet::new();
    for f in &doc.frags {
        if !is_name(&f.name) || f.name == "on" || !is_name(&f.tc) || !seen.insert(f.name.clone()) {
            return None;
        }
        out.push_str(&format!("\nfragment {} on {}", f.name, f.tc));
        render_dirs(&f.dirs, &mut out)?;
        render_sels(&f.sels, &mut out, 0)?;
    }
    Some(out)
}

/// Structural facts the text parser guarantees (Lean: `ParserProducible`): a `Multiple` map is not
/// empty and every operation's selection set is not empty.
pub fn producible(doc: &Doc) -> bool {
    match &doc.ops {
        Ops::Single(o) => !o.sels.is_empty(),
        Ops::Multi(m) => !m.is_empty() && m.iter().all(|(_, o)| !o.sels.is_empty()),
    }
}

/// Debug text of an `ExecutableDocument` with positions erased and hash maps sorted.
fn normalized_debug(doc: &gt::ExecutableDocument) -> String {
    fn strip(s: String) -> String {
        let mut out = String::with_capacity(s.len());
        let mut rest = s.as_str();
        while let Some(i) = rest.find("Pos(") {
            out.push_str(&rest[..i]);
            out.push_str("Pos");
            let tail = &rest[i..];
            let j = tail.find(')').unwrap_or(tail.len() - 1);
            rest = &tail[j + 1..];
        }
        out.push_str(rest);
        out
    }
    let mut parts = vec![];
    match &doc.operations {
        gt::DocumentOperations::Single(o) => parts.push(format!("single {:?}", o)),
        gt::DocumentOperations::Multiple(m) => {
            let mut v: Vec<_> = m.iter().map(|(n, o)| format!("op {} {:?}", n, o)).collect();
            v.sort();
            parts.push("multi".to_string());
            parts.extend(v);
        }
    }
    let mut v: Vec<_> = doc.fragments.iter().map(|(n, f)| format!("frag {} {:?}", n, f)).collect();
    v.sort();
    parts.extend(v);
    strip(parts.join("\n"))
}

// ------------------------------------------------------------------------------------------------
// schemas

const NUMBERS_SDL: &str = include_str!("/repo/trustfall_core/test_data/schemas/numbers.graphql");

const DIRECTIVES_SDL: &str = "
directive @filter(op: String!, value: [String!]) repeatable on FIELD | INLINE_FRAGMENT
directive @tag(name: String) repeatable on FIELD
directive @output(name: String) repeatable on FIELD
directive @optional on FIELD
directive @recurse(depth: Int!) on FIELD
directive @fold on FIELD
directive @transform(op: String!) repeatable on FIELD
";

/// A schema exercising what `numbers` lacks: non-orderable properties (Boolean, ID), Float, a
/// 30-level and a 29-level list property, parameters with list/string/bool types, defaults and
/// nullability, a three-level interface hierarchy with narrowed edge types (every case of
/// `get_recurse_implicit_coercion`), a custom scalar definition, a query type that implements an
/// interface.
const C10A_BODY: &str = "
schema { query: Root }
scalar Date
type Root {
  A(x: Int, y: Int! = 3): A
  AList(ids: [Int!], tag: String = \"t\"): [A!]
  B: B
  Mid: Mid
  Leaf: Leaf!
  Other(flag: Boolean!): [Other]
}
type A {
  flag: Boolean
  id: ID!
  score: Float
  names: [String!]!
  deep: [[[[[[[[[[[[[[[[[[[[[[[[[[[[[[Int]]]]]]]]]]]]]]]]]]]]]]]]]]]]]]
  deep29: [[[[[[[[[[[[[[[[[[[[[[[[[[[[[Int]]]]]]]]]]]]]]]]]]]]]]]]]]]]]
  next(p: [Int!] = [1], q: String = \"a\", r: Boolean!): A
  toB: B
  list: [A!]!
}
interface B {
  b: Int
  nextB: B
  toLeaf: Leaf
}
interface Mid implements B {
  b: Int
  nextB: B
  toLeaf: Leaf
  m: String
  nextMid: Mid
  x: B
}
type Leaf implements Mid & B {
  b: Int
  nextB: B
  toLeaf: Leaf
  m: String
  nextMid: Mid
  x: Mid
  leafOnly: Leaf
  up: Mid
}
type Other implements B {
  b: Int
  nextB: B
  toLeaf: Leaf
  flag: Boolean!
}
";

/// An edge declares the same parameter twice (N-5 / F-C10-5).  `Schema::parse` used to accept this text and
/// every query through such an edge panicked in `make_edge_parameters`; since the repair it is rejected
/// with `DuplicateFieldParameterDefinition`, so no query can be compiled against it: the requests of this
/// schema stay as regression cases and are answered `(schema-rejected DuplicateFieldParameterDefinition)`.
const C10DUP_BODY: &str = "
schema { query: Root }
type Root {
  A(x: Int, x: Int): A
  Fine: A
}
type A {
  v: Int
  again(p: Int!, p: Int!): A
}
";

fn schema_sdl(id: &str) -> Option<&'static str> {
    use std::sync::OnceLock;
    static C10A: OnceLock<String> = OnceLock::new();
    static C10DUP: OnceLock<String> = OnceLock::new();
    match id {
        "numbers" => Some(NUMBERS_SDL),
        "c10a" => Some(C10A.get_or_init(|| format!("{DIRECTIVES_SDL}{C10A_BODY}")).as_str()),
        "c10dup" => Some(C10DUP.get_or_init(|| format!("{DIRECTIVES_SDL}{C10DUP_BODY}")).as_str()),
        _ => None,
    }
}

thread_local! {
    static SCHEMAS: std::cell::RefCell<BTreeMap<String, &'static Schema>> = const { std::cell::RefCell::new(BTreeMap::new()) };
}
/// The variant with which `Schema::parse` rejects the schema text `id` because a field declares a parameter
/// twice (the only rejection the harness schemas may meet); any other rejection is a harness bug.
fn schema_rejection(id: &str) -> Option<&'static str> {
    use trustfall_core::schema::error::InvalidSchemaError as E;
    fn dup_param(e: &E) -> bool {
        match e {
            E::DuplicateFieldParameterDefinition(..) => true,
            E::MultipleErrors(v) => v.0.iter().any(dup_param),
            _ => false,
        }
    }
    thread_local! {
        static REJECTED: std::cell::RefCell<BTreeMap<String, Option<&'static str>>> = const { std::cell::RefCell::new(BTreeMap::new()) };
    }
    if let Some(r) = REJECTED.with(|m| m.borrow().get(id).copied()) {
        return r;
    }
    let r = match Schema::parse(schema_sdl(id)?) {
        Ok(_) => None,
        Err(e) if dup_param(&e) => Some("DuplicateFieldParameterDefinition"),
        Err(e) => panic!("harness schema {id} must be valid or declare a parameter twice: {e}"),
    };
    REJECTED.with(|m| m.borrow_mut().insert(id.to_string(), r));
    r
}
fn schema(id: &str) -> Option<&'static Schema> {
    SCHEMAS.with(|m| {
        if let Some(s) = m.borrow().get(id) {
            return Some(*s);
        }
        let sdl = schema_sdl(id)?;
        let s: &'static Schema = match Schema::parse(sdl) {
            Ok(s) => Box::leak(Box::new(s)),
            Err(_) if schema_rejection(id).is_some() => return None,
            Err(e) => panic!("harness schema must be valid: {e}"),
        };
        m.borrow_mut().insert(id.to_string(), s);
        Some(s)
    })
}

/// What the generator knows about a schema (read off the SDL with the same external parser).
#[derive(Clone, Debug)]
pub struct TyRef {
    pub base: String,
    /// nullability per level, outermost first; `len() - 1` list levels
    pub nullable: Vec<bool>,
}
#[derive(Clone, Debug)]
pub struct ParamInfo {
    pub name: String,
    pub ty: TyRef,
    pub has_default: bool,
}
#[derive(Clone, Debug)]
pub struct FieldInfo {
    pub name: String,
    pub ty: TyRef,
    pub params: Vec<ParamInfo>,
}
#[derive(Clone, Debug)]
pub struct TypeInfo {
    pub name: String,
    pub is_interface: bool,
    pub implements: Vec<String>,
    pub fields: Vec<FieldInfo>,
}
#[derive(Clone, Debug)]
pub struct SchemaInfo {
    pub id: String,
    pub query_type: String,
    pub scalars: Vec<String>,
    pub types: Vec<TypeInfo>,
}

fn tyref(t: &gt::Type) -> TyRef {
    let mut nullable = vec![t.nullable];
    let mut base = &t.base;
    loop {
        match base {
            gt::BaseType::Named(n) => return TyRef { base: n.to_string(), nullable },
            gt::BaseType::List(inner) => {
                nullable.push(inner.nullable);
                base = &inner.base;
            }
        }
    }
}

impl SchemaInfo {
    pub fn load(id: &str) -> SchemaInfo {
        let doc = async_graphql_parser::parse_schema(schema_sdl(id).unwrap()).unwrap();
        let mut query_type = String::new();
        let mut types = vec![];
        let mut scalars = vec![];
        for def in doc.definitions {
            match def {
                gt::TypeSystemDefinition::Schema(s) => query_type = s.node.query.unwrap().node.to_string(),
                gt::TypeSystemDefinition::Type(t) => {
                    let (is_interface, implements, fields) = match &t.node.kind {
                        gt::TypeKind::Object(o) => (false, &o.implements, &o.fields),
                        gt::TypeKind::Interface(i) => (true, &i.implements, &i.fields),
                        gt::TypeKind::Scalar => {
                            scalars.push(t.node.name.node.to_string());
                            continue;
                        }
                        _ => continue,
                    };
                    types.push(TypeInfo {
                        name: t.node.name.node.to_string(),
                        is_interface,
                        implements: implements.iter().map(|x| x.node.to_string()).collect(),
                        fields: fields
                            .iter()
                            .map(|f| FieldInfo {
                                name: f.node.name.node.to_string(),
                                ty: tyref(&f.node.ty.node),
                                params: f
                                    .node
                                    .arguments
                                    .iter()
                                    .map(|a| ParamInfo {
                                        name: a.node.name.node.to_string(),
                                        ty: tyref(&a.node.ty.node),
                                        has_default: a.node.default_value.is_some(),
                                    })
                                    .collect(),
                            })
                            .collect(),
                    });
                }
                _ => {}
            }
        }
        SchemaInfo { id: id.to_string(), query_type, scalars, types }
    }
    /// the `(schema …)` s-expression sent to the model
    pub fn view_sexp(&self) -> Sexp {
        fn ty(t: &TyRef) -> Sexp {
            let mut v = vec![Sexp::atom(t.base.clone())];
            v.extend(t.nullable.iter().map(|n| Sexp::atom(if *n { "1" } else { "0" })));
            Sexp::list(v)
        }
        let types = self
            .types
            .iter()
            .map(|t| {
                Sexp::list(vec![
                    Sexp::atom("t"),
                    Sexp::atom(t.name.clone()),
                    Sexp::atom(if t.is_interface { "1" } else { "0" }),
                    Sexp::list(t.implements.iter().map(|i| Sexp::atom(i.clone())).collect()),
                    Sexp::list(
                        t.fields
                            .iter()
                            .map(|f| {
                                Sexp::list(vec![
                                    Sexp::atom(f.name.clone()),
                                    ty(&f.ty),
                                    Sexp::list(
                                        f.params
                                            .iter()
                                            .map(|p| {
                                                Sexp::list(vec![
                                                    Sexp::atom(p.name.clone()),
                                                    ty(&p.ty),
                                                    Sexp::atom(if p.has_default { "1" } else { "0" }),
                                                ])
                                            })
                                            .collect(),
                                    ),
                                ])
                            })
                            .collect(),
                    ),
                ])
            })
            .collect();
        Sexp::list(vec![
            Sexp::atom("schema"),
            Sexp::atom(self.query_type.clone()),
            Sexp::list(self.scalars.iter().map(|x| Sexp::atom(x.clone())).collect()),
            Sexp::list(types),
        ])
    }
    fn ty(&self, name: &str) -> Option<&TypeInfo> {
        self.types.iter().find(|t| t.name == name)
    }
    fn is_vertex(&self, name: &str) -> bool {
        self.ty(name).is_some()
    }
    fn implementers(&self, name: &str) -> Vec<&str> {
        self.types.iter().filter(|t| t.implements.iter().any(|i| i == name)).map(|t| t.name.as_str()).collect()
    }
}

// ------------------------------------------------------------------------------------------------
// generator: type-directed queries over a schema

struct Gen<'a> {
    rng: &'a mut Rng,
    si: &'a SchemaInfo,
    counter: usize,
    /// tags defined so far (textual order): name
    tags: Vec<String>,
    /// loose mode: names from small pools (clashes, variable reuse), fold-local tags stay visible
    loose: bool,
}

const CMP_OPS: &[&str] = &["=", "!=", "<", "<=", ">", ">="];
const STR_OPS: &[&str] =
    &["has_prefix", "not_has_prefix", "has_suffix", "not_has_suffix", "has_substring", "not_has_substring", "regex", "not_regex"];

impl<'a> Gen<'a> {
    fn fresh(&mut self, prefix: &str) -> String {
        if self.loose || (prefix == "v" && self.rng.chance(1, 6)) {
            // small pools: output/tag name clashes, variables used at several places
            return format!("{prefix}{}", 1 + self.rng.below(3));
        }
        self.counter += 1;
        format!("{prefix}{}", self.counter)
    }
    fn value_for(&mut self, t: &TyRef, level: usize) -> GVal {
        if t.nullable[level] && self.rng.chance(1, 6) {
            return GVal::Null;
        }
        if level + 1 < t.nullable.len() {
            let n = self.rng.below(3);
            return GVal::List((0..n).map(|_| self.value_for(t, level + 1)).collect());
        }
        match t.base.as_str() {
            "Int" => GVal::Int(*self.rng.pick(&[0i128, 1, 2, 3, 5, 10, -1, 100])),
            "Float" => GVal::Float("1.5".into()),
            "String" => GVal::Str((*self.rng.pick(&["a", "two", ""])).to_string()),
            "Boolean" => GVal::Bool(self.rng.chance(1, 2)),
            _ => GVal::Str("x".into()),
        }
    }
    fn args_for(&mut self, f: &FieldInfo) -> Vec<Arg> {
        let mut out = vec![];
        for p in &f.params {
            let optional = p.has_default || p.ty.nullable[0];
            if optional && self.rng.chance(1, 2) {
                continue;
            }
            out.push(Arg { name: p.name.clone(), value: self.value_for(&p.ty, 0) });
        }
        out
    }
    fn filter_for(&mut self, t: &TyRef) -> Dir {
        let is_list = t.nullable.len() > 1;
        let mut ops: Vec<&str> = vec!["=", "!=", "one_of", "not_one_of"];
        if t.nullable[0] {
            ops.extend(["is_null", "is_not_null"]);
        }
        if matches!(t.base.as_str(), "Int" | "Float" | "String") {
            ops.extend(&CMP_OPS[2..]);
        }
        if is_list {
            ops.extend(["contains", "not_contains"]);
        } else if t.base == "String" {
            ops.extend(STR_OPS);
        }
        // a few ill-typed ones too
        if self.rng.chance(1, 12) {
            ops = vec!["<", "contains", "has_prefix", "is_null", "one_of", "regex"];
        }
        let op = *self.rng.pick(&ops);
        if op == "is_null" || op == "is_not_null" {
            return d("filter", vec![("op", s(op))]);
        }
        let operand = if !self.tags.is_empty() && self.rng.chance(1, 3) {
            format!("%{}", self.rng.pick(&self.tags).clone())
        } else {
            format!("${}", self.fresh("v"))
        };
        d("filter", vec![("op", s(op)), ("value", GVal::List(vec![s(&operand)]))])
    }
    fn property(&mut self, f: Option<&FieldInfo>) -> Sel {
        let (name, ty) = match f {
            Some(f) => (f.name.clone(), f.ty.clone()),
            None => ("__typename".to_string(), TyRef { base: "String".into(), nullable: vec![false] }),
        };
        let mut dirs = vec![];
        let alias = if self.rng.chance(1, 6) { Some(self.fresh("al")) } else { None };
        let n = 1 + self.rng.below(2);
        for _ in 0..n {
            match self.rng.below(6) {
                0 | 1 | 2 => {
                    if self.rng.chance(1, 2) {
                        let nm = self.fresh("o");
                        dirs.push(d("output", vec![("name", s(&nm))]));
                    } else if !dirs.iter().any(|x: &Dir| x.name == "output") {
                        dirs.push(d("output", vec![]));
                    }
                }
                3 => {
                    let nm = self.fresh("t");
                    dirs.push(d("tag", vec![("name", s(&nm))]));
                    self.tags.push(nm);
                }
                _ => dirs.push(self.filter_for(&ty)),
            }
        }
        Sel::Field(FieldSel { alias, name, args: vec![], dirs, sels: vec![] })
    }
    fn edge(&mut self, f: &FieldInfo, depth: usize) -> Sel {
        let alias = if self.rng.chance(1, 5) { Some(self.fresh("e")) } else { None };
        let args = self.args_for(f);
        let mut dirs = vec![];
        let saved_tags = self.tags.len();
        let mut folded = false;
        let mut count_tags: Vec<String> = vec![];
        if self.loose && self.rng.chance(1, 6) {
            // directive mixes the frontend rejects
            dirs.push(d(*self.rng.pick(&["optional", "recurse"]), vec![]));
            if dirs[0].name == "recurse" {
                dirs[0].args.push(Arg { name: "depth".into(), value: GVal::Int(2) });
            }
        }
        match self.rng.below(10) {
            0 | 1 => dirs.push(d("optional", vec![])),
            2 => dirs.push(d("recurse", vec![("depth", GVal::Int(1 + self.rng.below(3) as i128))])),
            3 | 4 => {
                dirs.push(d("fold", vec![]));
                folded = true;
            }
            5 | 6 => {
                folded = true;
                dirs.push(d("fold", vec![]));
                dirs.push(d("transform", vec![("op", s("count"))]));
                let n = 1 + self.rng.below(2);
                for _ in 0..n {
                    match self.rng.below(4) {
                        0 | 1 => {
                            let nm = self.fresh("c");
                            dirs.push(d("output", vec![("name", s(&nm))]));
                        }
                        2 => {
                            let op = *self.rng.pick(CMP_OPS);
                            let v = format!("${}", self.fresh("n"));
                            dirs.push(d("filter", vec![("op", s(op)), ("value", GVal::List(vec![s(&v)]))]));
                        }
                        _ => {
                            if self.loose && self.rng.chance(1, 4) {
                                dirs.push(d("tag", vec![]));
                            } else {
                                let nm = self.fresh("ct");
                                dirs.push(d("tag", vec![("name", s(&nm))]));
                                // usable by later siblings of the parent component
                                count_tags.push(nm);
                            }
                        }
                    }
                }
            }
            _ => {}
        }
        let sels = self.vertex(&f.ty.base, depth + 1);
        if folded && !(self.loose && self.rng.chance(1, 2)) {
            // tags defined inside a fold are not visible outside
            self.tags.truncate(saved_tags);
        }
        self.tags.extend(count_tags);
        Sel::Field(FieldSel { alias, name: f.name.clone(), args, dirs, sels })
    }
    fn vertex(&mut self, type_name: &str, depth: usize) -> Vec<Sel> {
        let si = self.si;
        let mut ty = si.ty(type_name).expect("vertex type");
        let mut coerce: Option<String> = None;
        if ty.is_interface && self.rng.chance(1, 4) {
            let imps = si.implementers(type_name);
            if !imps.is_empty() {
                let c = *self.rng.pick(&imps);
                coerce = Some(c.to_string());
                ty = si.ty(c).unwrap();
            }
        }
        let props: Vec<&FieldInfo> = ty.fields.iter().filter(|f| !si.is_vertex(&f.ty.base)).collect();
        let edges: Vec<&FieldInfo> = ty.fields.iter().filter(|f| si.is_vertex(&f.ty.base)).collect();
        let n = 1 + self.rng.below(3);
        let mut sels = vec![];
        for _ in 0..n {
            let want_edge = depth < 3 && !edges.is_empty() && self.rng.chance(2, 5);
            if want_edge {
                let f = *self.rng.pick(&edges);
                sels.push(self.edge(f, depth));
            } else if props.is_empty() || self.rng.chance(1, 8) {
                sels.push(self.property(None));
            } else {
                let f = *self.rng.pick(&props);
                sels.push(self.property(Some(f)));
            }
        }
        match coerce {
            Some(c) => vec![Sel::Inline { tc: Some(c), dirs: vec![], sels }],
            None => sels,
        }
    }
    fn doc(&mut self) -> Doc {
        let si = self.si;
        let root = si.ty(&si.query_type).unwrap();
        let f = self.rng.pick(&root.fields);
        let args = self.args_for(f);
        let sels = self.vertex(&f.ty.base, 0);
        let root_sel = Sel::Field(FieldSel { alias: None, name: f.name.clone(), args, dirs: vec![], sels });
        Doc { ops: Ops::Single(Op { kind: 'q', nvars: 0, dirs: vec![], sels: vec![root_sel] }), frags: vec![] }
    }
}

fn used_tags(ss: &[Sel], out: &mut std::collections::BTreeSet<String>) {
    for s in ss {
        match s {
            Sel::Field(f) => {
                for d in &f.dirs {
                    if d.name == "filter" {
                        for a in &d.args {
                            if let GVal::List(l) = &a.value {
                                for x in l {
                                    if let GVal::Str(t) = x {
                                        if let Some(n) = t.strip_prefix('%') {
                                            out.insert(n.to_string());
                                        }
                                    }
                                }
                            }
                        }
                    }
                }
                used_tags(&f.sels, out);
            }
            Sel::Inline { sels, .. } => used_tags(sels, out),
            Sel::Spread { .. } => {}
        }
    }
}
fn strip_unused_tags(ss: &mut [Sel], used: &std::collections::BTreeSet<String>) {
    for s in ss {
        match s {
            Sel::Field(f) => {
                f.dirs.retain(|d| {
                    d.name != "tag"
                        || d.args.iter().any(|a| matches!(&a.value, GVal::Str(n) if used.contains(n)))
                });
                strip_unused_tags(&mut f.sels, used);
            }
            Sel::Inline { sels, .. } => strip_unused_tags(sels, used),
            Sel::Spread { .. } => {}
        }
    }
}

pub fn gen_valid(rng: &mut Rng, si: &SchemaInfo) -> Doc {
    let keep_unused = rng.chance(1, 10);
    let loose = rng.chance(1, 6);
    let mut g = Gen { rng, si, counter: 0, tags: vec![], loose };
    let mut doc = g.doc();
    if !keep_unused {
        // unused tags are an error: drop them so that most generated queries compile
        if let Ops::Single(o) = &mut doc.ops {
            let mut used = Default::default();
            used_tags(&o.sels, &mut used);
            strip_unused_tags(&mut o.sels, &used);
        }
    }
    doc
}

// ---- mutation stream

fn count_fields(ss: &[Sel]) -> usize {
    ss.iter()
        .map(|s| match s {
            Sel::Field(f) => 1 + count_fields(&f.sels),
            Sel::Inline { sels, .. } => count_fields(sels),
            Sel::Spread { .. } => 0,
        })
        .sum()
}
/// apply `f` to the `k`-th field (pre-order)
fn with_field(ss: &mut [Sel], k: &mut usize, f: &mut dyn FnMut(&mut FieldSel)) -> bool {
    for s in ss.iter_mut() {
        match s {
            Sel::Field(fs) => {
                if *k == 0 {
                    f(fs);
                    return true;
                }
                *k -= 1;
                if with_field(&mut fs.sels, k, f) {
                    return true;
                }
            }
            Sel::Inline { sels, .. } => {
                if with_field(sels, k, f) {
                    return true;
                }
            }
            Sel::Spread { .. } => {}
        }
    }
    false
}
fn root_sels(doc: &mut Doc) -> Option<&mut Vec<Sel>> {
    match &mut doc.ops {
        Ops::Single(o) => Some(&mut o.sels),
        Ops::Multi(m) => m.first_mut().map(|x| &mut x.1.sels),
    }
}
fn first_op(doc: &mut Doc) -> Option<&mut Op> {
    match &mut doc.ops {
        Ops::Single(o) => Some(o),
        Ops::Multi(m) => m.first_mut().map(|x| &mut x.1),
    }
}

fn weird_values(rng: &mut Rng) -> GVal {
    match rng.below(16) {
        0 => GVal::Null,
        1 => GVal::Int(0),
        2 => GVal::Int(-1),
        3 => GVal::Int(1),
        4 => GVal::Int((1i128 << 63) - 1),
        5 => GVal::Int(1i128 << 63),
        6 => GVal::Int((1i128 << 64) - 1),
        7 => GVal::Float("18446744073709551616".into()),
        8 => GVal::Float("1.0".into()),
        9 => GVal::Float("-9223372036854775809".into()),
        10 => GVal::Str("1".into()),
        11 => GVal::Var("x".into()),
        12 => GVal::Enum("FOO".into()),
        13 => GVal::List(vec![]),
        14 => GVal::List(vec![GVal::Int(1), s("$a")]),
        _ => GVal::Object(vec![("a".into(), GVal::Int(1))]),
    }
}
fn weird_strings(rng: &mut Rng) -> GVal {
    let v = [
        "", "$", "%", "$1a", "%a-b", "$a b", "x", "$_ok", "%_", "a.b", "ok_name", "é", "$é", "=", "count", "is_null", "<", "unknown_op",
        "$a$", "%%a",
    ];
    GVal::Str((*rng.pick(&v)).to_string())
}
fn random_directive(rng: &mut Rng) -> Dir {
    match rng.below(12) {
        0 => d("optional", vec![]),
        1 => d("fold", vec![]),
        2 => d("transform", vec![("op", s("count"))]),
        3 => d("output", vec![]),
        4 => d("tag", vec![]),
        5 => d("recurse", vec![("depth", weird_values(rng))]),
        6 => d("filter", vec![("op", s("=")), ("value", GVal::List(vec![s("$mv")]))]),
        7 => d("filter", vec![("op", s("is_not_null"))]),
        8 => d("unknown", vec![]),
        9 => d("output", vec![("name", weird_strings(rng))]),
        10 => d("tag", vec![("name", weird_strings(rng))]),
        _ => d("transform", vec![("op", weird_strings(rng))]),
    }
}

/// One random mutation; returns a label for the histogram.
fn mutate(rng: &mut Rng, doc: &mut Doc, si: &SchemaInfo) -> &'static str {
    let type_names: Vec<String> =
        si.types.iter().map(|t| t.name.clone()).chain(["Nope".to_string(), "Int".to_string()]).collect();
    let field_names: Vec<String> = si
        .types
        .iter()
        .flat_map(|t| t.fields.iter().map(|f| f.name.clone()))
        .chain(["__typename".to_string(), "nope".to_string()])
        .collect();
    let param_names: Vec<String> = si
        .types
        .iter()
        .flat_map(|t| t.fields.iter().flat_map(|f| f.params.iter().map(|p| p.name.clone())))
        .chain(["extra".to_string()])
        .collect();
    let nf = root_sels(doc).map(|s| count_fields(s)).unwrap_or(0);
    let pick_field = |rng: &mut Rng, doc: &mut Doc, f: &mut dyn FnMut(&mut FieldSel)| {
        if nf == 0 {
            return;
        }
        let mut k = rng.below(nf);
        if let Some(ss) = root_sels(doc) {
            with_field(ss, &mut k, f);
        }
    };
    match rng.below(34) {
        0 => {
            let mut r = rng.fork();
            pick_field(rng, doc, &mut |f| {
                if !f.dirs.is_empty() {
                    let i = r.below(f.dirs.len());
                    f.dirs.remove(i);
                }
            });
            "mut:drop-directive"
        }
        1 => {
            let mut r = rng.fork();
            pick_field(rng, doc, &mut |f| {
                if !f.dirs.is_empty() {
                    let i = r.below(f.dirs.len());
                    let x = f.dirs[i].clone();
                    f.dirs.insert(i, x);
                }
            });
            "mut:dup-directive"
        }
        2 => {
            let mut r = rng.fork();
            pick_field(rng, doc, &mut |f| {
                if f.dirs.len() >= 2 {
                    let i = r.below(f.dirs.len() - 1);
                    f.dirs.swap(i, i + 1);
                }
            });
            "mut:transpose-directives"
        }
        3 | 4 => {
            let mut r = rng.fork();
            pick_field(rng, doc, &mut |f| {
                let x = random_directive(&mut r);
                let i = r.below(f.dirs.len() + 1);
                f.dirs.insert(i, x);
            });
            "mut:insert-directive"
        }
        5 => {
            let mut r = rng.fork();
            pick_field(rng, doc, &mut |f| {
                f.dirs.push(d("transform", vec![("op", s("count"))]));
                if r.chance(1, 2) {
                    f.dirs.push(d("output", vec![]));
                }
            });
            "mut:append-transform"
        }
        6 => {
            let mut r = rng.fork();
            pick_field(rng, doc, &mut |f| {
                f.dirs = vec![d("fold", vec![]), d("transform", vec![("op", s("count"))]), d("transform", vec![("op", s("count"))])];
                if r.chance(1, 2) {
                    f.dirs.push(d("output", vec![]));
                }
            });
            "mut:fold-transform-transform"
        }
        7 | 8 => {
            // wrong argument kind in some directive
            let mut r = rng.fork();
            pick_field(rng, doc, &mut |f| {
                if let Some(dd) = f.dirs.iter_mut().find(|x| !x.args.is_empty()) {
                    let i = r.below(dd.args.len());
                    dd.args[i].value = if r.chance(1, 2) { weird_values(&mut r) } else { weird_strings(&mut r) };
                }
            });
            "mut:wrong-arg-kind"
        }
        9 => {
            let mut r = rng.fork();
            pick_field(rng, doc, &mut |f| {
                if let Some(dd) = f.dirs.iter_mut().find(|x| !x.args.is_empty()) {
                    let i = r.below(dd.args.len());
                    dd.args.remove(i);
                }
            });
            "mut:missing-arg"
        }
        10 => {
            let mut r = rng.fork();
            pick_field(rng, doc, &mut |f| {
                if !f.dirs.is_empty() {
                    let i = r.below(f.dirs.len());
                    let nm = *r.pick(&["extra", "name", "op", "value", "depth"]);
                    let v = weird_values(&mut r);
                    let at = r.below(f.dirs[i].args.len() + 1);
                    f.dirs[i].args.insert(at, Arg { name: nm.into(), value: v });
                }
            });
            "mut:extra-arg"
        }
        11 => {
            // filter operand list shapes
            let mut r = rng.fork();
            pick_field(rng, doc, &mut |f| {
                let shapes = [
                    GVal::List(vec![]),
                    GVal::List(vec![GVal::Int(1)]),
                    s("$x"),
                    GVal::List(vec![s("$x"), s("$y")]),
                    GVal::List(vec![weird_strings(&mut r)]),
                    GVal::Null,
                ];
                let v = r.pick(&shapes).clone();
                let op = if r.chance(1, 3) { weird_strings(&mut r) } else { s(*r.pick(CMP_OPS)) };
                f.dirs.push(Dir { name: "filter".into(), args: vec![Arg { name: "op".into(), value: op }, Arg { name: "value".into(), value: v }] });
            });
            "mut:filter-shapes"
        }
        12 => {
            let mut r = rng.fork();
            pick_field(rng, doc, &mut |f| {
                f.dirs.push(d("recurse", vec![("depth", weird_values(&mut r))]));
            });
            "mut:recurse-depth"
        }
        13 => {
            // directive on the root field
            if let Some(ss) = root_sels(doc) {
                if let Some(Sel::Field(f)) = ss.first_mut() {
                    f.dirs.push(random_directive(rng));
                }
            }
            "mut:root-directive"
        }
        14 => {
            if let Some(o) = first_op(doc) {
                o.dirs.push(random_directive(rng));
            }
            "mut:operation-directive"
        }
        15 => {
            if let Some(o) = first_op(doc) {
                o.nvars = 1 + rng.below(2);
            }
            "mut:variable-definitions"
        }
        16 => {
            if let Some(o) = first_op(doc) {
                o.kind = if rng.chance(1, 2) { 'm' } else { 's' };
            }
            "mut:not-a-query"
        }
        17 | 18 => {
            // 1 / 2 / 3 named operations
            let n = 1 + rng.below(3);
            if let Ops::Single(o) = &doc.ops {
                let o = o.clone();
                doc.ops = Ops::Multi((0..n).map(|i| (format!("Q{i}"), o.clone())).collect());
            }
            match n {
                1 => "mut:ops-1",
                2 => "mut:ops-2",
                _ => "mut:ops-3",
            }
        }
        19 => {
            // fragment defined (unused)
            doc.frags.push(Frag {
                name: "Fr".into(),
                tc: "Number".into(),
                dirs: if rng.chance(1, 3) { vec![random_directive(rng)] } else { vec![] },
                sels: vec![Sel::Field(FieldSel { alias: None, name: "value".into(), args: vec![], dirs: vec![d("output", vec![])], sels: vec![] })],
            });
            "mut:fragment-unused"
        }
        20 => {
            // fragment spread (with or without the definition)
            let with_def = rng.chance(1, 2);
            let dirs = if rng.chance(1, 2) { vec![random_directive(rng)] } else { vec![] };
            pick_field(rng, doc, &mut |f| {
                f.sels.push(Sel::Spread { name: "Fr".into(), dirs: dirs.clone() });
            });
            if with_def {
                doc.frags.push(Frag {
                    name: "Fr".into(),
                    tc: "Number".into(),
                    dirs: vec![],
                    sels: vec![Sel::Field(FieldSel { alias: None, name: "value".into(), args: vec![], dirs: vec![d("output", vec![])], sels: vec![] })],
                });
            }
            "mut:fragment-spread"
        }
        21 => {
            // spread as the root selection
            if let Some(ss) = root_sels(doc) {
                *ss = vec![Sel::Spread { name: "Fr".into(), dirs: vec![] }];
            }
            "mut:root-spread"
        }
        22 => {
            // inline fragment as the root selection / around the root
            if let Some(ss) = root_sels(doc) {
                let inner = std::mem::take(ss);
                *ss = vec![Sel::Inline { tc: Some("RootSchemaQuery".into()), dirs: vec![], sels: inner }];
            }
            "mut:root-inline"
        }
        23 => {
            // second root field
            if let Some(ss) = root_sels(doc) {
                if let Some(x) = ss.first().cloned() {
                    ss.push(x);
                }
            }
            "mut:two-roots"
        }
        24 => {
            // inline fragment with a sibling / nested inline / no type condition, with directives
            let mut r = rng.fork();
            pick_field(rng, doc, &mut |f| {
                let inner = vec![Sel::Field(FieldSel { alias: None, name: "value".into(), args: vec![], dirs: vec![d("output", vec![("name", s("inl"))])], sels: vec![] })];
                let dirs = if r.chance(1, 2) { vec![random_directive(&mut r)] } else { vec![] };
                match r.below(4) {
                    0 => f.sels.push(Sel::Inline { tc: Some("Prime".into()), dirs, sels: inner }),
                    1 => f.sels = vec![Sel::Inline { tc: None, dirs, sels: inner }],
                    2 => f.sels = vec![Sel::Inline { tc: Some("Prime".into()), dirs: vec![], sels: vec![Sel::Inline { tc: Some("Prime".into()), dirs, sels: inner }] }],
                    _ => f.sels = vec![Sel::Inline { tc: Some(r.pick(&type_names).clone()), dirs, sels: inner }],
                }
            });
            "mut:inline-shapes"
        }
        25 => {
            let mut r = rng.fork();
            pick_field(rng, doc, &mut |f| {
                f.alias = Some(r.pick(&["a", "value", "__typename", "count"]).to_string());
            });
            "mut:alias"
        }
        26 => {
            if let Some(ss) = root_sels(doc) {
                if let Some(Sel::Field(f)) = ss.first_mut() {
                    f.alias = Some("rootalias".into());
                }
            }
            "mut:root-alias"
        }
        27 => {
            // edge / root argument shapes
            let mut r = rng.fork();
            pick_field(rng, doc, &mut |f| {
                let nm = r.pick(&param_names).clone();
                let v = weird_values(&mut r);
                if r.chance(1, 2) {
                    f.args.retain(|a| a.name != nm);
                }
                f.args.push(Arg { name: nm, value: v });
            });
            "mut:field-args"
        }
        28 => {
            let mut r = rng.fork();
            pick_field(rng, doc, &mut |f| {
                f.name = r.pick(&field_names).clone();
            });
            "mut:rename-field"
        }
        29 => {
            if let Some(ss) = root_sels(doc) {
                if let Some(Sel::Field(f)) = ss.first_mut() {
                    f.name = rng.pick(&["__typename", "Nope", "Two", "Four"]).to_string();
                    if rng.chance(1, 2) {
                        f.sels.clear();
                        f.args.clear();
                    }
                }
            }
            "mut:rename-root"
        }
        30 => {
            // selections under a property / dropped under an edge
            let mut r = rng.fork();
            pick_field(rng, doc, &mut |f| {
                if f.sels.is_empty() {
                    f.sels.push(Sel::Field(FieldSel {
                        alias: None,
                        name: r.pick(&["__typename", "value", "nope"]).to_string(),
                        args: vec![],
                        dirs: vec![],
                        sels: vec![],
                    }));
                } else {
                    f.sels.clear();
                }
            });
            "mut:toggle-selections"
        }
        31 => {
            // duplicate an output name
            let mut r = rng.fork();
            pick_field(rng, doc, &mut |f| {
                let nm = r.pick(&["dup", "o1", "c1"]).to_string();
                f.dirs.push(d("output", vec![("name", s(&nm))]));
            });
            "mut:output-name-clash"
        }
        32 => {
            // structures no text can produce
            match rng.below(3) {
                0 => doc.ops = Ops::Multi(vec![]),
                1 => {
                    if let Some(o) = first_op(doc) {
                        o.sels.clear();
                    }
                }
                _ => {
                    let mut r = rng.fork();
                    pick_field(rng, doc, &mut |f| {
                        f.sels = vec![Sel::Inline { tc: Some(r.pick(&["Prime", "Nope"]).to_string()), dirs: vec![], sels: vec![] }];
                    });
                }
            }
            "mut:non-text-structure"
        }
        _ => {
            // coercion under a property
            let mut r = rng.fork();
            pick_field(rng, doc, &mut |f| {
                if f.sels.is_empty() {
                    f.sels = vec![Sel::Inline {
                        tc: Some(r.pick(&type_names).clone()),
                        dirs: vec![],
                        sels: vec![Sel::Field(FieldSel { alias: None, name: "__typename".into(), args: vec![], dirs: vec![], sels: vec![] })],
                    }];
                }
            });
            "mut:coerce-property"
        }
    }
}

// ---- boundary strings in every directive / edge argument position that takes a string

/// Boundary alphabet for string arguments: empty, lone sigils, sigil + non-ASCII, non-ASCII FIRST
/// character (2-, 3-, 4-byte UTF-8, combining mark first, BOM first), whitespace / digit /
/// punctuation first, quote and backslash, and well-formed names for contrast.
fn boundary_strings() -> Vec<String> {
    let base = [
        "", "$", "%", "$$", "%%", "$%a", "$_", "%_a", "$a", "%a", "$a1", "$1", "%9z", "$ x", "% x", "$a b", "$a-b", "a", "_", "ab_1",
        "1abc", " x", "\tx", "\n", "x ", "=", "<", "count", "is_null", "one_of",
        "\u{e9}", "\u{e9}tiquette", "\u{df}", "\u{80}", "\u{7ff}", "\u{20ac}name", "\u{800}", "\u{540d}\u{524d}", "\u{ffff}", "\u{1f600}", "\u{1f600}x", "\u{10000}",
        "\u{301}a", "a\u{301}", "\u{feff}x", "\u{0}", "\u{7f}", "\"", "\\", "a\"b", "x\u{e9}", "x\u{1f600}",
    ];
    let mut out: Vec<String> = base.iter().map(|x| x.to_string()).collect();
    // every non-ASCII-first string also behind each sigil
    for x in base.iter() {
        if x.chars().next().map(|c| !c.is_ascii()).unwrap_or(false) {
            out.push(format!("${x}"));
            out.push(format!("%{x}"));
        }
    }
    out
}

/// One document per (boundary string, argument position) over a small valid base query of the
/// schema; returns (document, position label).
fn string_position_docs(rng: &mut Rng, si: &SchemaInfo, x: &str) -> Vec<(Doc, &'static str)> {
    let root_ty = si.ty(&si.query_type).unwrap();
    // a root field whose target has a property and an edge
    let pick = root_ty.fields.iter().find(|f| {
        si.ty(&f.ty.base).map(|t| t.fields.iter().any(|g| !si.is_vertex(&g.ty.base)) && t.fields.iter().any(|g| si.is_vertex(&g.ty.base))).unwrap_or(false)
    });
    let Some(root) = pick else { return vec![] };
    let target = si.ty(&root.ty.base).unwrap();
    let prop = target.fields.iter().find(|g| !si.is_vertex(&g.ty.base)).unwrap();
    let edge = target.fields.iter().find(|g| si.is_vertex(&g.ty.base)).unwrap();
    let mut g = Gen { rng, si, counter: 1000, tags: vec![], loose: false };
    let root_args: Vec<Arg> = root
        .params
        .iter()
        .filter(|p| !(p.has_default || p.ty.nullable[0]))
        .map(|p| Arg { name: p.name.clone(), value: g.value_for(&TyRef { base: p.ty.base.clone(), nullable: p.ty.nullable.iter().map(|_| false).collect() }, 0) })
        .collect();
    let edge_args: Vec<Arg> = edge
        .params
        .iter()
        .filter(|p| !(p.has_default || p.ty.nullable[0]))
        .map(|p| Arg { name: p.name.clone(), value: g.value_for(&TyRef { base: p.ty.base.clone(), nullable: p.ty.nullable.iter().map(|_| false).collect() }, 0) })
        .collect();
    let sx = || s(x);
    let out_dir = || d("output", vec![("name", s("o"))]);
    let pfield = |dirs: Vec<Dir>| Sel::Field(FieldSel { alias: None, name: prop.name.clone(), args: vec![], dirs, sels: vec![] });
    let efield = |args: Vec<Arg>, dirs: Vec<Dir>, sels: Vec<Sel>| Sel::Field(FieldSel { alias: None, name: edge.name.clone(), args, dirs, sels });
    let mk = |root_args: Vec<Arg>, sels: Vec<Sel>| Doc {
        ops: Ops::Single(Op {
            kind: 'q',
            nvars: 0,
            dirs: vec![],
            sels: vec![Sel::Field(FieldSel { alias: None, name: root.name.clone(), args: root_args, dirs: vec![], sels })],
        }),
        frags: vec![],
    };
    let inner = || vec![pfield(vec![d("output", vec![("name", s("inner"))])])];
    let count = || d("transform", vec![("op", s("count"))]);
    let mut docs: Vec<(Doc, &'static str)> = vec![];
    let ra = || root_args.clone();
    let ea = || edge_args.clone();
    // @filter
    docs.push((mk(ra(), vec![pfield(vec![out_dir(), d("filter", vec![("op", sx()), ("value", GVal::List(vec![s("$v")]))])])]), "filter-op"));
    docs.push((mk(ra(), vec![pfield(vec![out_dir(), d("filter", vec![("op", sx())])])]), "filter-op-no-value"));
    docs.push((mk(ra(), vec![pfield(vec![out_dir(), d("filter", vec![("op", s("=")), ("value", GVal::List(vec![sx()]))])])]), "filter-value-element"));
    docs.push((mk(ra(), vec![pfield(vec![out_dir(), d("filter", vec![("op", s("=")), ("value", GVal::List(vec![s("$v"), sx()]))])])]), "filter-value-second-element"));
    docs.push((mk(ra(), vec![pfield(vec![out_dir(), d("filter", vec![("op", s("=")), ("value", sx())])])]), "filter-value-as-string"));
    docs.push((mk(ra(), vec![pfield(vec![out_dir(), d("filter", vec![("value", GVal::List(vec![sx()])), ("op", s("has_prefix"))])])]), "filter-value-before-op"));
    // @tag / @output
    docs.push((mk(ra(), vec![pfield(vec![out_dir(), d("tag", vec![("name", sx())])])]), "tag-name"));
    docs.push((mk(ra(), vec![pfield(vec![d("output", vec![("name", sx())])])]), "output-name"));
    docs.push((mk(ra(), vec![pfield(vec![d("output", vec![("name", sx())]), d("tag", vec![("name", sx())]), d("filter", vec![("op", s("=")), ("value", GVal::List(vec![s(&format!("%{x}"))]))])])]), "tag-and-use"));
    // @transform / @fold / @optional / @recurse
    docs.push((mk(ra(), vec![efield(ea(), vec![d("fold", vec![]), d("transform", vec![("op", sx())]), out_dir()], inner())]), "transform-op"));
    docs.push((mk(ra(), vec![efield(ea(), vec![d("fold", vec![]), count(), d("output", vec![("name", sx())])], inner())]), "fold-count-output-name"));
    docs.push((mk(ra(), vec![efield(ea(), vec![d("fold", vec![]), count(), out_dir(), d("tag", vec![("name", sx())])], inner())]), "fold-count-tag-name"));
    docs.push((mk(ra(), vec![efield(ea(), vec![d("fold", vec![]), count(), out_dir(), d("filter", vec![("op", s(">")), ("value", GVal::List(vec![sx()]))])], inner())]), "fold-count-filter-value"));
    docs.push((mk(ra(), vec![efield(ea(), vec![d("fold", vec![]), count(), out_dir(), d("filter", vec![("op", sx()), ("value", GVal::List(vec![s("$n")]))])], inner())]), "fold-count-filter-op"));
    docs.push((mk(ra(), vec![efield(ea(), vec![d("fold", vec![("x", sx())])], inner())]), "fold-argument"));
    docs.push((mk(ra(), vec![efield(ea(), vec![d("optional", vec![("x", sx())])], inner())]), "optional-argument"));
    docs.push((mk(ra(), vec![efield(ea(), vec![d("recurse", vec![("depth", sx())])], inner())]), "recurse-depth"));
    docs.push((mk(ra(), vec![efield(ea(), vec![d("recurse", vec![("depth", GVal::Int(1)), ("x", sx())])], inner())]), "recurse-extra-argument"));
    // edge parameters: every parameter of the root field and of the edge, with the string as value
    for p in &root.params {
        let mut a: Vec<Arg> = ra().into_iter().filter(|q| q.name != p.name).collect();
        a.push(Arg { name: p.name.clone(), value: sx() });
        docs.push((mk(a, inner()), "root-parameter"));
        let mut a: Vec<Arg> = ra().into_iter().filter(|q| q.name != p.name).collect();
        a.push(Arg { name: p.name.clone(), value: GVal::List(vec![sx()]) });
        docs.push((mk(a, inner()), "root-parameter-list"));
    }
    for p in &edge.params {
        let mut a: Vec<Arg> = ea().into_iter().filter(|q| q.name != p.name).collect();
        a.push(Arg { name: p.name.clone(), value: sx() });
        docs.push((mk(ra(), vec![efield(a, vec![], inner())]), "edge-parameter"));
    }
    docs.push((mk(ra(), vec![efield({ let mut a = ea(); a.push(Arg { name: "extra".into(), value: sx() }); a }, vec![], inner())]), "edge-extra-parameter"));
    docs
}

// ---- byte-level stream

fn edit_text(rng: &mut Rng, text: &str) -> String {
    let mut cs: Vec<char> = text.chars().collect();
    let alphabet: Vec<char> = "{}()[]@:$%!\"\\.,#-+0123456789eE_ \n\tabAZnullfragmentonqueryé\u{feff}\u{0}".chars().collect();
    let n = 1 + rng.below(4);
    for _ in 0..n {
        let pos = if cs.is_empty() { 0 } else { rng.below(cs.len() + 1) };
        match rng.below(4) {
            0 => cs.insert(pos.min(cs.len()), *rng.pick(&alphabet)),
            1 => {
                if pos < cs.len() {
                    cs.remove(pos);
                }
            }
            2 => {
                if pos < cs.len() {
                    cs[pos] = *rng.pick(&alphabet);
                }
            }
            _ => {
                // duplicate or delete a span
                if cs.len() > 2 {
                    let a = rng.below(cs.len());
                    let b = (a + 1 + rng.below(12)).min(cs.len());
                    if rng.chance(1, 2) {
                        let span: Vec<char> = cs[a..b].to_vec();
                        for (i, c) in span.into_iter().enumerate() {
                            cs.insert(b + i, c);
                        }
                    } else {
                        cs.drain(a..b);
                    }
                }
            }
        }
    }
    cs.into_iter().collect()
}

// ------------------------------------------------------------------------------------------------
// running the implementation

fn parse_err_name(e: &ParseError) -> String {
    let dbg = format!("{e:?}");
    dbg.split(|c: char| !(c.is_ascii_alphanumeric() || c == '_')).next().unwrap_or("").to_string()
}

/// outcome class of `parse_document` on the directly constructed AST
fn parse_layer_answer(doc: &Doc) -> String {
    let ast = doc_to_ast(doc);
    match trustfall_core::graphql_query::parse_document(&ast) {
        Ok(_) => "ok".to_string(),
        Err(e) => format!("(err {})", parse_err_name(&e)),
    }
}

fn frontend_class(r: &Result<(), FrontendError>) -> String {
    fn names(e: &FrontendError, out: &mut Vec<String>) {
        match e {
            FrontendError::MultipleErrors(v) => v.0.iter().for_each(|x| names(x, out)),
            FrontendError::ParseError(p) => out.push(format!("parse:{}", parse_err_name(p))),
            FrontendError::FilterTypeError(f) => {
                let dbg = format!("{f:?}");
                out.push(dbg.split('(').next().unwrap_or("").to_string())
            }
            FrontendError::ValidationError(v) => {
                let dbg = format!("{v:?}");
                out.push(dbg.split('(').next().unwrap_or("").to_string())
            }
            other => {
                let dbg = format!("{other:?}");
                out.push(dbg.split(|c: char| !(c.is_ascii_alphanumeric() || c == '_')).next().unwrap_or("").to_string())
            }
        }
    }
    match r {
        Ok(()) => "ok".to_string(),
        Err(FrontendError::ParseError(p)) => format!("(err parse {})", parse_err_name(p)),
        Err(e) => {
            let mut v = vec![];
            names(e, &mut v);
            format!("(err frontend {})", v.join(" "))
        }
    }
}

/// `frontend::parse` on text (text parser + parse layer + frontend + IndexedQuery conversion)
fn run_text(schema: &Schema, text: &str) -> Result<String, String> {
    guarded(|| frontend_class(&trustfall_core::frontend::parse(schema, text).map(|_| ())))
}

/// the same pipeline minus the text parser, on a directly constructed AST (may panic)
fn compile_ast(schema: &Schema, doc: &Doc) -> String {
    let ast = doc_to_ast(doc);
    let r = trustfall_core::frontend::parse_doc(schema, &ast).map(|ir| {
        // what `frontend::parse` does next (mod.rs:51)
        let _indexed: trustfall_core::ir::IndexedQuery = ir.try_into().unwrap();
    });
    frontend_class(&r)
}
fn run_ast(schema: &Schema, doc: &Doc) -> Result<String, String> {
    guarded(|| compile_ast(schema, doc))
}

pub struct C10;

fn histogram_doc_tags(doc: &Doc, tags: &mut Vec<String>) {
    match &doc.ops {
        Ops::Single(_) => tags.push("ops:single".into()),
        Ops::Multi(m) => tags.push(format!("ops:multi{}", m.len().min(4))),
    }
    if !doc.frags.is_empty() {
        tags.push("has-fragments".into());
    }
}

impl Prop for C10 {
    fn id(&self) -> &'static str {
        "C10"
    }
    fn rule(&self) -> &'static str {
        "Streams, over three schemas (the repo's `numbers`; `c10a`: Boolean/ID/Float properties, 29- and 30-level list properties, list/string/bool parameters with defaults and nullability, a three-level interface hierarchy with narrowed edge types, a custom scalar; `c10dup`: an edge that declares a parameter twice - rejected by Schema::parse with DuplicateFieldParameterDefinition since the repair of F-C10-5, its requests are answered `(schema-rejected DuplicateFieldParameterDefinition)` by both sides and kept as regression cases): (valid) type-directed queries (root fields with parameters, properties incl. __typename, every edge, aliases, `... on` coercions, @optional/@recurse/@fold/@fold @transform(count) with @output/@filter/@tag, filters with variables and with previously defined tags incl. fold-count tags; one document in six in a loose mode with names from small pools - output/tag clashes, variables shared between filters - fold-local tags kept visible and rejected directive mixes); (mut) one to three random mutations of such a query out of 34 kinds: drop/duplicate/transpose/insert a directive, wrong argument kinds, missing/extra/duplicated arguments, @transform chains, directives on the root field / operation / fragment spreads / inline fragments, 1/2/3 named operations, fragments defined/used/unused, variable definitions, mutation/subscription, aliases everywhere, numeric edge cases of `depth`, filter operand shapes, renamed fields incl. __typename, edge arguments of every value kind, coercion under a property, output-name clashes, structures no text can produce (empty operation map, empty selection set); (strings) a boundary alphabet of 90 strings (empty, lone `$`/`%`, sigil + non-ASCII, NON-ASCII FIRST character in 2-, 3- and 4-byte UTF-8, combining mark / BOM / NUL first, whitespace, digit, quote, backslash first, plain names) placed in every argument position that takes a string - @filter op, @filter value elements (first, second, as a bare string, before `op`), @tag/@output names (also on fold counts), @transform op, arguments of @fold/@optional/@recurse, every root-field and edge parameter - over a small valid base query per schema (tag `nt:non-ascii-first` when the string's first character is not ASCII); in rendered text non-ASCII BMP characters with an odd code point are written as GraphQL \\uXXXX escapes, the others literally; (bytes) rendered valid text with 1-4 random character edits: `(text-nopanic hex)` explores the unmodelled text parser (both sides answer the constant `nopanic`), and whatever the text parser accepts is converted back to an abstract document and sent as a compile-doc request. Every abstract document goes to the model as an s-expression and to the implementation as a directly constructed ExecutableDocument: `(compile-doc schema view doc)` compares the outcome class of frontend::parse_doc + IndexedQuery conversion (ok / `err parse V` / `err frontend V1 V2 …` in order / panic) with the model's `compile`; `(parse-doc doc)` (a third of the documents) compares graphql_query::query::parse_document alone; `(view-valid schema view)` compares the theorems' schema hypothesis with Schema::parse + distinct parameter names (which Schema::parse itself enforces since the repair of F-C10-5). A case is non-trivial (`nt:`) when it gets past the parse layer (compile-doc) or when its parse-layer answer is an error/panic or an `ok` with edge directives (parse-doc). ORACLE (all streams): no panic anywhere - frontend::parse on the rendered text, parse_doc + conversion on the constructed AST, the text parser on edited bytes - for any document a text could produce; when a document renders to text, async_graphql_parser::parse_query of that text must give exactly the constructed AST (normalised Debug equality) and the same outcome class."
    }
    fn generate(&self, tier: Tier, rng: &mut Rng) -> Vec<Case> {
        let (n_valid, n_mut, n_bytes) = if tier == Tier::Quick { (2000, 7000, 4000) } else { (20000, 70000, 40000) };
        let mut out = vec![];
        let emit = |doc: &Doc, si: &SchemaInfo, view: &Sexp, mut tags: Vec<String>, also_parse: bool, out: &mut Vec<Case>| {
            histogram_doc_tags(doc, &mut tags);
            tags.push(format!("schema:{}", si.id));
            let dx = doc_to_sexp(doc);
            if also_parse {
                out.push(Case { request: Sexp::call("parse-doc", vec![dx.clone()]), tags: tags.clone() });
            }
            out.push(Case { request: Sexp::call("compile-doc", vec![Sexp::atom(si.id.clone()), view.clone(), dx]), tags });
        };
        for (id, share) in [("numbers", 3usize), ("c10a", 2), ("c10dup", 0)] {
            let si = SchemaInfo::load(id);
            let view = si.view_sexp();
            out.push(Case::new(Sexp::call("view-valid", vec![Sexp::atom(id), view.clone()]), &["view-valid"]));
            let (nv, nm) = if share == 0 { (60, 200) } else { (n_valid * share / 5, n_mut * share / 5) };
            for _ in 0..nv {
                let doc = gen_valid(rng, &si);
                let also = rng.chance(1, 3);
                emit(&doc, &si, &view, vec!["stream:valid".to_string()], also, &mut out);
            }
            for _ in 0..nm {
                let mut doc = gen_valid(rng, &si);
                let k = 1 + rng.below(3);
                let mut tags = vec!["stream:mut".to_string()];
                for _ in 0..k {
                    tags.push(mutate(rng, &mut doc, &si).to_string());
                }
                let also = rng.chance(1, 3);
                emit(&doc, &si, &view, tags, also, &mut out);
            }
            if share > 0 {
                // boundary strings in every string-taking argument position
                for x in boundary_strings() {
                    let non_ascii_first = x.chars().next().map(|c| !c.is_ascii()).unwrap_or(false);
                    for (doc, pos) in string_position_docs(rng, &si, &x) {
                        let mut tags = vec!["stream:strings".to_string(), format!("strpos:{pos}")];
                        if non_ascii_first {
                            tags.push("nt:non-ascii-first".to_string());
                        }
                        emit(&doc, &si, &view, tags, true, &mut out);
                    }
                }
                for _ in 0..(n_bytes * share / 5) {
                    let doc = gen_valid(rng, &si);
                    let text = render_doc(&doc).expect("valid documents render");
                    let edited = edit_text(rng, &text);
                    out.push(Case::new(Sexp::call("text-nopanic", vec![Sexp::atom(hex(edited.as_bytes()))]), &["stream:bytes"]));
                    // what the text parser makes of the edited text goes to the model as well
                    if let Ok(Ok(ast)) = guarded(|| async_graphql_parser::parse_query(&edited)) {
                        if let Some(d2) = ast_to_doc(&ast) {
                            emit(&d2, &si, &view, vec!["stream:bytes-parsed".to_string()], false, &mut out);
                        }
                    }
                }
            }
        }
        out
    }
    fn eval(&self, request: &Sexp) -> Option<String> {
        let (h, args) = request.as_call()?;
        match (h, args) {
            ("parse-doc", [dx]) => {
                let doc = sexp_to_doc(dx)?;
                Some(parse_layer_answer(&doc))
            }
            ("compile-doc", [id, _view, dx]) => {
                let doc = sexp_to_doc(dx)?;
                if let Some(variant) = schema_rejection(id.as_atom()?) {
                    // there is no Schema value to compile against (F-C10-5 repaired)
                    return Some(format!("(schema-rejected {variant})"));
                }
                let schema = schema(id.as_atom()?)?;
                Some(compile_ast(schema, &doc))
            }
            ("view-valid", [id, _view]) => {
                // the hypothesis of the totality theorems: accepted by Schema::parse, which includes (since
                // the repair of N-5 / F-C10-5; still evaluated independently here) that no edge declares
                // a parameter twice
                let id = id.as_atom()?;
                let accepted = Schema::parse(schema_sdl(id)?).is_ok();
                let si = SchemaInfo::load(id);
                let distinct = si.types.iter().all(|t| {
                    t.fields.iter().all(|f| {
                        let mut seen = std::collections::BTreeSet::new();
                        f.params.iter().all(|p| seen.insert(p.name.clone()))
                    })
                });
                Some(if accepted && distinct { "1" } else { "0" }.to_string())
            }
            ("text-nopanic", [x]) => {
                let _ = String::from_utf8(unhex(x.as_atom()?)?).ok()?;
                // panics of this stream are reported by the oracle, not by the correspondence
                Some("nopanic".to_string())
            }
            _ => None,
        }
    }
    fn post_tags(&self, e: &Evaluated) -> Vec<String> {
        let mut t = vec![];
        if let Some(("compile-doc", [_id, _v, dx])) = e.request.as_call() {
            let class = if e.answer.starts_with("(err parse") {
                "compile:parse-error".to_string()
            } else if e.answer.starts_with("(err frontend") {
                let first = e.answer.trim_start_matches("(err frontend ").trim_end_matches(')').split(' ').next().unwrap_or("").to_string();
                format!("compile:err:{first}")
            } else {
                format!("compile:{}", e.answer)
            };
            t.push(class);
            if !e.answer.starts_with("(err parse") && !e.answer.starts_with("(schema-rejected") {
                t.push("nt:reaches-frontend".into());
            }
            if let Some(doc) = sexp_to_doc(dx) {
                if !producible(&doc) {
                    t.push("non-producible".into());
                } else if render_doc(&doc).is_some() {
                    t.push("renders".into());
                }
            }
            return t;
        }
        if let Some(("parse-doc", [dx])) = e.request.as_call() {
            t.push(format!("parse:{}", e.answer.trim_start_matches("(err ").trim_end_matches(')')));
            if e.answer != "ok" {
                t.push("nt:parse-error-or-panic".into());
            } else {
                let line = &e.line;
                // @fold / @transform / @recurse / @optional / inline fragment present
                let marks = [hex(b"fold"), hex(b"transform"), hex(b"recurse"), hex(b"optional")];
                if marks.iter().any(|m| line.contains(&format!("(d {m} "))) || line.contains("(in ") {
                    t.push("nt:ok-with-edge-directives".into());
                }
            }
            if let Some(doc) = sexp_to_doc(dx) {
                if !producible(&doc) {
                    t.push("non-producible".into());
                } else if render_doc(&doc).is_some() {
                    t.push("renders".into());
                }
            }
        }
        t
    }
    fn oracle(&self, evaluated: &[Evaluated]) -> Vec<OracleFailure> {
        let numbers = schema("numbers").unwrap();
        let mut fails = vec![];
        fn mk(info: &str, stage: &str, e: &Evaluated, text: Option<&str>) -> OracleFailure {
            OracleFailure {
                key: panic_key(info),
                detail: format!("stage={stage} {info}{}", text.map(|t| format!(" text={t}")).unwrap_or_default()),
                requests: vec![e.line.clone()],
            }
        }
        for e in evaluated {
            let Some((h, args)) = e.request.as_call() else { continue };
            let (sch, dx, is_compile) = match (h, args) {
                ("parse-doc", [dx]) => (numbers, dx, false),
                ("compile-doc", [id, _v, dx]) => {
                    let Some(sc) = id.as_atom().and_then(schema) else { continue };
                    (sc, dx, true)
                }
                ("text-nopanic", [x]) => {
                    let Some(text) = x.as_atom().and_then(unhex).and_then(|b| String::from_utf8(b).ok()) else { continue };
                    if let Err(info) = run_text(numbers, &text) {
                        fails.push(mk(&info, "frontend(text)", e, Some(&text)));
                    }
                    continue;
                }
                _ => continue,
            };
            let Some(doc) = sexp_to_doc(dx) else { continue };
            if !producible(&doc) {
                continue; // no query text yields this structure: outside the property
            }
            if let Some(info) = &e.panic_info {
                fails.push(mk(info, if is_compile { "frontend(ast)" } else { "parse_document(ast)" }, e, None));
            }
            if !is_compile {
                if let Err(info) = run_ast(sch, &doc) {
                    if e.panic_info.is_none() {
                        fails.push(mk(&info, "frontend(ast)", e, None));
                    }
                }
            }
            if let Some(text) = render_doc(&doc) {
                // self-check: the text parser yields exactly the constructed AST
                match guarded(|| async_graphql_parser::parse_query(&text)) {
                    Ok(Ok(parsed)) => {
                        if normalized_debug(&parsed) != normalized_debug(&doc_to_ast(&doc)) {
                            fails.push(OracleFailure {
                                key: "harness:text-ast-mismatch".into(),
                                detail: format!("text={text}"),
                                requests: vec![e.line.clone()],
                            });
                        }
                    }
                    Ok(Err(err)) => fails.push(OracleFailure {
                        key: "harness:rendered-text-rejected".into(),
                        detail: format!("{err:?} text={text}"),
                        requests: vec![e.line.clone()],
                    }),
                    Err(info) => fails.push(mk(&info, "parse_query(text)", e, Some(&text))),
                }
                match run_text(sch, &text) {
                    Err(info) => {
                        if e.panic_info.is_none() {
                            fails.push(mk(&info, "frontend(text)", e, Some(&text)));
                        }
                    }
                    Ok(class) => {
                        // text path and AST path must agree on the outcome class
                        if is_compile && e.panic_info.is_none() && class != e.answer {
                            fails.push(OracleFailure {
                                key: "harness:text-vs-ast-outcome".into(),
                                detail: format!("text={text} text-class={class} ast-class={}", e.answer),
                                requests: vec![e.line.clone()],
                            });
                        }
                    }
                }
            }
        }
        fails
    }
    fn extra_stats(&self, evaluated: &[Evaluated]) -> serde_json::Value {
        let mut classes: BTreeMap<String, u64> = BTreeMap::new();
        let mut text_ok = 0u64;
        let mut text_total = 0u64;
        for e in evaluated {
            match e.request.as_call() {
                Some(("compile-doc", _)) => {
                    *classes.entry(e.answer.clone()).or_default() += 1;
                }
                Some(("text-nopanic", [x])) => {
                    text_total += 1;
                    if let Some(text) = x.as_atom().and_then(unhex).and_then(|b| String::from_utf8(b).ok()) {
                        if let Ok(Ok(_)) = guarded(|| async_graphql_parser::parse_query(&text)) {
                            text_ok += 1;
                        }
                    }
                }
                _ => {}
            }
        }
        let distinct_classes = classes.len();
        let mut top: Vec<(String, u64)> = classes.into_iter().collect();
        top.sort_by(|a, b| b.1.cmp(&a.1));
        let top: Vec<serde_json::Value> = top.into_iter().take(60).map(|(k, v)| serde_json::json!([k, v])).collect();
        serde_json::json!({
            "compile_outcome_classes_distinct": distinct_classes,
            "compile_outcome_classes_top60": top,
            "byte_stream_texts": text_total,
            "byte_stream_texts_accepted_by_text_parser": text_ok,
        })
    }
}

fn main() {
    let args: Vec<String> = std::env::args().collect();
    if args.len() >= 3 && args[1] == "probe" {
        // developer aid: `frontend probe <schema.graphql> < queries` prints the outcome per line
        install_quiet_panic_hook();
        let sdl = std::fs::read_to_string(&args[2]).unwrap();
        let schema = Schema::parse(sdl).unwrap();
        use std::io::BufRead;
        for line in std::io::stdin().lock().lines() {
            let line = line.unwrap();
            if line.trim().is_empty() {
                continue;
            }
            match run_text(&schema, &line) {
                Ok(s) => println!("{line}\n   => {s}"),
                Err(p) => println!("{line}\n   => PANIC {p}"),
            }
        }
        return;
    }
    if args.len() >= 2 && args[1] == "mkcorpus" {
        // developer aid: `frontend mkcorpus < lines` where a line is `<schema-id><TAB><query text>`;
        // prints the `(compile-doc …)` request of each text (and `(parse-doc …)` for schema `numbers`)
        use std::io::BufRead;
        for line in std::io::stdin().lock().lines() {
            let line = line.unwrap();
            let Some((id, text)) = line.split_once('\t') else { continue };
            let si = SchemaInfo::load(id);
            let ast = async_graphql_parser::parse_query(text).expect("corpus text must parse");
            let doc = ast_to_doc(&ast).unwrap();
            println!("# {id}: {text}");
            if id == "numbers" {
                println!("{}", Sexp::call("parse-doc", vec![doc_to_sexp(&doc)]));
            }
            println!("{}", Sexp::call("compile-doc", vec![Sexp::atom(id), si.view_sexp(), doc_to_sexp(&doc)]));
        }
        return;
    }
    main_for(vec![Box::new(C10)]);
}
