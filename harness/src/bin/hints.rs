//! Hints group: C05 (required-properties hints list every property the engine requests) and
//! C04 (pruning data with the query hints never changes results).
#[path = "../engine/mod.rs"]
#[allow(dead_code)]
mod engine;

use std::cell::RefCell;
use std::collections::{BTreeMap, BTreeSet, VecDeque};
use std::ops::Bound;
use std::rc::Rc;
use std::sync::Arc;

use trustfall_core::interpreter::execution::interpret_ir;
use trustfall_core::interpreter::{
    Adapter, CandidateValue, DynamicallyResolvedValue, verif_dynamic, AsVertex, ContextIterator, ContextOutcomeIterator, EdgeInfo, ResolveEdgeInfo, ResolveInfo, VertexInfo,
    VertexIterator,
};
use trustfall_core::ir::{
    Argument, EdgeParameters, FieldRef, FieldValue, IRQuery, IRQueryComponent, IndexedQuery, Operation,
};

use crate::engine::adapter::{CallKind, Info, TableAdapter, Vtx, params_text};
use crate::engine::common::*;
use crate::engine::data_gen::DataTable;
use crate::engine::ir_sexp::{eid_num, ir_to_sexp, op_parts, vid_num};
use crate::engine::schema_gen::GenSchema;
use crate::engine::run::{Answer, args_error_names, compile, execute, load_schema, prepare, real_args};
use crate::engine::query_gen::{Dir, Field, GenQuery, Node};
use crate::engine::worlds::{GenStats, World, WorldKnobs, compile_query};
use tfharness::framework::*;
use tfharness::rng::Rng;
use tfharness::sexp::{Sexp, hex, unhex};
use tfharness::values::{random_value, sexp_to_value, value_to_sexp};


// ------------------------------------------------------------------------------------------------
// a thin wrapper adapter: one callback per adapter call (with the call's hint object), no event log

type OnCall = Rc<dyn Fn(CallKind, Option<&str>, &str, Info<'_>)>;

struct Watch {
    inner: TableAdapter,
    on_call: OnCall,
}

impl Adapter<'static> for Watch {
    type Vertex = Vtx;

    fn resolve_starting_vertices(
        &self,
        edge_name: &Arc<str>,
        parameters: &EdgeParameters,
        resolve_info: &ResolveInfo,
    ) -> VertexIterator<'static, Self::Vertex> {
        (self.on_call)(CallKind::Start, None, edge_name, Info::Vertex(resolve_info));
        self.inner.resolve_starting_vertices(edge_name, parameters, resolve_info)
    }

    fn resolve_property<V: AsVertex<Self::Vertex> + 'static>(
        &self,
        contexts: ContextIterator<'static, V>,
        type_name: &Arc<str>,
        property_name: &Arc<str>,
        resolve_info: &ResolveInfo,
    ) -> ContextOutcomeIterator<'static, V, FieldValue> {
        (self.on_call)(CallKind::Property, Some(type_name), property_name, Info::Vertex(resolve_info));
        self.inner.resolve_property(contexts, type_name, property_name, resolve_info)
    }

    fn resolve_neighbors<V: AsVertex<Self::Vertex> + 'static>(
        &self,
        contexts: ContextIterator<'static, V>,
        type_name: &Arc<str>,
        edge_name: &Arc<str>,
        parameters: &EdgeParameters,
        resolve_info: &ResolveEdgeInfo,
    ) -> ContextOutcomeIterator<'static, V, VertexIterator<'static, Self::Vertex>> {
        (self.on_call)(CallKind::Neighbors, Some(type_name), edge_name, Info::Edge(resolve_info));
        self.inner.resolve_neighbors(contexts, type_name, edge_name, parameters, resolve_info)
    }

    fn resolve_coercion<V: AsVertex<Self::Vertex> + 'static>(
        &self,
        contexts: ContextIterator<'static, V>,
        type_name: &Arc<str>,
        coerce_to_type: &Arc<str>,
        resolve_info: &ResolveInfo,
    ) -> ContextOutcomeIterator<'static, V, bool> {
        (self.on_call)(CallKind::Coercion, Some(type_name), coerce_to_type, Info::Vertex(resolve_info));
        self.inner.resolve_coercion(contexts, type_name, coerce_to_type, resolve_info)
    }
}

// ------------------------------------------------------------------------------------------------
// worlds of the hints group: the C01 worlds + "tag-only" variants of their queries

fn count_outputs(n: &Node) -> usize {
    n.fields
        .iter()
        .map(|f| match f {
            Field::Prop { dirs, .. } => dirs.iter().filter(|d| matches!(d, Dir::Output(_))).count(),
            Field::Edge { node, kind, .. } => {
                count_outputs(node)
                    + match kind {
                        crate::engine::query_gen::Kind::Fold(fd) => {
                            fd.iter().filter(|d| matches!(d, crate::engine::query_gen::FDir::CountOutput(_))).count()
                        }
                        _ => 0,
                    }
            }
        })
        .sum()
}

/// Drop `@output` from properties that carry a `@tag` and no `@filter` (each with p = 2/3), as long as
/// the query keeps at least one output. The generator itself always outputs or filters a tagged
/// property, which hides the tag-specific part of `required_properties`.
fn strip_tag_outputs(n: &mut Node, rng: &mut Rng, budget: &mut usize, changed: &mut bool) {
    for f in n.fields.iter_mut() {
        match f {
            Field::Prop { dirs, .. } => {
                let tagged = dirs.iter().any(|d| matches!(d, Dir::Tag(_)));
                let filtered = dirs.iter().any(|d| matches!(d, Dir::Filter(..)));
                let outs = dirs.iter().filter(|d| matches!(d, Dir::Output(_))).count();
                if tagged && !filtered && outs > 0 && *budget > outs && rng.chance(2, 3) {
                    dirs.retain(|d| !matches!(d, Dir::Output(_)));
                    *budget -= outs;
                    *changed = true;
                }
            }
            Field::Edge { node, .. } => strip_tag_outputs(node, rng, budget, changed),
        }
    }
}

/// The worlds of C01 for this tier and seed, each accepted query followed (when it has a tagged,
/// unfiltered, output property) by its tag-only variant, compiled by the real frontend.
fn hint_worlds(tier: Tier, rng: &mut Rng) -> (Vec<World>, GenStats, usize) {
    let (mut worlds, stats) = generate_worlds(rng, &WorldKnobs::for_tier(tier));
    let mut variants = 0usize;
    for w in worlds.iter_mut() {
        let mut extra = vec![];
        for q in w.queries.iter().filter(|q| q.compiled.is_ok()) {
            let mut query = q.gq.query.clone();
            let mut budget = count_outputs(&query.node);
            let mut changed = false;
            strip_tag_outputs(&mut query.node, rng, &mut budget, &mut changed);
            if !changed {
                continue;
            }
            let mut features = q.gq.features.clone();
            features.insert("tag-only".to_string());
            let text = query.to_graphql();
            let gq = GenQuery { query, text, args: q.gq.args.clone(), features };
            let wq = compile_query(&w.schema, &w.real, gq);
            if wq.compiled.is_ok() {
                variants += 1;
                extra.push(wq);
            }
        }
        w.queries.extend(extra);
    }
    (worlds, stats, variants)
}

// ------------------------------------------------------------------------------------------------
// C05 — required-properties hints list every property the engine will request

fn required_names<V: VertexInfo>(info: &V) -> Vec<String> {
    info.required_properties().map(|r| r.name.to_string()).collect()
}

/// Walk the whole query from the hint object of `comp`'s vertex `info.vid()` through
/// `edges_with_name(..)` / `EdgeInfo::destination()` and record `required_properties()` of every Vid.
fn walk_required<V: VertexInfo>(info: &V, comp: &IRQueryComponent, out: &mut BTreeMap<u64, Vec<String>>) {
    let vid = info.vid();
    out.insert(vid_num(vid), required_names(info));
    let mut names: Vec<Arc<str>> = vec![];
    for e in comp.edges.values() {
        if e.from_vid == vid && !names.contains(&e.edge_name) {
            names.push(e.edge_name.clone());
        }
    }
    for f in comp.folds.values() {
        if f.from_vid == vid && !names.contains(&f.edge_name) {
            names.push(f.edge_name.clone());
        }
    }
    for name in names {
        let infos: Vec<EdgeInfo> = info.edges_with_name(&name).collect();
        for ei in infos {
            let eid = ei.eid();
            let sub: &IRQueryComponent = match comp.folds.get(&eid) {
                Some(fold) => &fold.component,
                None => comp,
            };
            walk_required(ei.destination(), sub, out);
        }
    }
}

fn render_required(m: &BTreeMap<u64, Vec<String>>) -> String {
    let mut s = String::from("(req");
    for (vid, props) in m {
        s.push_str(&format!(" ({vid}"));
        for p in props {
            s.push(' ');
            s.push_str(p);
        }
        s.push(')');
    }
    s.push(')');
    s
}

/// `(required <schema> <query text hex> <ir> <args>)` → `(req (<vid> <prop>…)…)`.
/// The hint object of the root vertex is the `ResolveInfo` the engine hands to
/// `resolve_starting_vertices`; every other Vid is reached from it by navigation.
fn eval_required(args: &[Sexp]) -> Option<String> {
    let [schema, text, ir, qargs] = args else { return None };
    let text = String::from_utf8(unhex(text.as_atom()?)?).ok()?;
    let qargs = crate::engine::ir_sexp::args_from_sexp(qargs)?;
    let schema = load_schema(schema)?;
    let q = match compile(&schema.real, &text) {
        Err(names) => return Some(Answer::FrontendErr(names).render()),
        Ok(q) => q,
    };
    if ir_to_sexp(&q.ir_query) != *ir {
        return Some("(ir-mismatch)".to_string());
    }
    let captured: Rc<RefCell<Option<String>>> = Rc::new(RefCell::new(None));
    let cap = captured.clone();
    let irq: IRQuery = q.ir_query.clone();
    let on_call: OnCall = Rc::new(move |kind, _ty, _name, info: Info<'_>| {
        if kind != CallKind::Start {
            return;
        }
        if let Info::Vertex(ri) = info {
            let mut out = BTreeMap::new();
            walk_required(ri, &irq.root_component, &mut out);
            *cap.borrow_mut() = Some(render_required(&out));
        }
    });
    let adapter = Watch { inner: TableAdapter::new(&schema.gen_schema, DataTable::default()), on_call };
    // building the pipeline may panic on known C09 defects (F-4); the capture happens before that
    let res = guarded(|| interpret_ir(Arc::new(adapter), q.clone(), real_args(&qargs)).map(|_| ()));
    if let Ok(Err(e)) = &res {
        return Some(Answer::ArgsErr(args_error_names(e)).render());
    }
    let out = captured.borrow().clone();
    Some(out.unwrap_or_else(|| "(no-start-call)".to_string()))
}

/// One violated check inside a real `resolve_property` call.
#[derive(Debug, Clone)]
struct ReqViolation {
    key: String,
    detail: String,
}

/// The `(vid, property)` pairs the engine resolves because of an imported context-field tag or a
/// context-field tag operand of a fold-count filter (the call-site class of finding F-3).
fn imported_tag_sites(comp: &IRQueryComponent, out: &mut BTreeSet<(u64, String)>) {
    for fold in comp.folds.values() {
        for r in fold.imported_tags.iter() {
            if let FieldRef::ContextField(c) = r {
                out.insert((vid_num(c.vertex_id), c.field_name.to_string()));
            }
        }
        for f in fold.post_filters.iter() {
            if let Some(Argument::Tag(FieldRef::ContextField(c))) = op_parts(f).2 {
                out.insert((vid_num(c.vertex_id), c.field_name.to_string()));
            }
        }
        imported_tag_sites(&fold.component, out);
    }
}

/// Run one `(req-exec …)` request under the wrapper adapter that checks, inside every real
/// `resolve_property` call, that the property is in `resolve_info.required_properties()`.
fn run_req(args: &[Sexp]) -> Option<Result<(String, Vec<ReqViolation>, usize), String>> {
    let r = parse_request(args)?;
    let p = prepare(r.schema, r.data, &r.text)?;
    let q = match &p.query {
        Err(names) => return Some(Err(Answer::FrontendErr(names.clone()).render())),
        Ok(q) => q.clone(),
    };
    if ir_to_sexp(&q.ir_query) != *r.fourth {
        return Some(Err("(ir-mismatch)".to_string()));
    }
    let violations: Rc<RefCell<Vec<ReqViolation>>> = Rc::new(RefCell::new(vec![]));
    let ncalls: Rc<RefCell<usize>> = Rc::new(RefCell::new(0));
    let nav: Rc<RefCell<BTreeMap<u64, Vec<String>>>> = Rc::new(RefCell::new(BTreeMap::new()));
    let mut imported = BTreeSet::new();
    imported_tag_sites(&q.ir_query.root_component, &mut imported);
    let (v1, n1, nav1) = (violations.clone(), ncalls.clone(), nav.clone());
    let irq: IRQuery = q.ir_query.clone();
    let on_call: OnCall = Rc::new(move |kind, type_name, name, info: Info<'_>| match (kind, info) {
        (CallKind::Start, Info::Vertex(ri)) => {
            let mut out = BTreeMap::new();
            walk_required(ri, &irq.root_component, &mut out);
            *nav1.borrow_mut() = out;
        }
        (CallKind::Property, Info::Vertex(ri)) => {
            *n1.borrow_mut() += 1;
            let vid = vid_num(ri.vid());
            let list = required_names(ri);
            if !list.iter().any(|p| p == name) {
                let class = if imported.contains(&(vid, name.to_string())) { "imported-tag" } else { "other" };
                v1.borrow_mut().push(ReqViolation {
                    key: format!("property-not-required:{class}"),
                    detail: format!(
                        "resolve_property({}.{name}) at vid {vid}: required_properties() = {list:?}",
                        type_name.unwrap_or("?")
                    ),
                });
            }
            // the list seen by the call = the list reached by navigation from the root
            if let Some(navlist) = nav1.borrow().get(&vid) {
                if *navlist != list {
                    v1.borrow_mut().push(ReqViolation {
                        key: "required-list-differs-between-hint-objects".into(),
                        detail: format!("vid {vid}: ResolveInfo {list:?} vs NeighborInfo {navlist:?}"),
                    });
                }
            }
        }
        _ => {}
    });
    let adapter = Watch { inner: p.adapter(), on_call };
    let answer = execute(Arc::new(adapter), q, &r.args);
    if let Answer::ArgsErr(_) = answer {
        return Some(Err(answer.render()));
    }
    let v = violations.borrow().clone();
    let n = *ncalls.borrow();
    Some(Ok((answer.render(), v, n)))
}

#[derive(Default)]
pub struct C05 {
    stats: RefCell<GenStats>,
    variants: RefCell<usize>,
    checked: RefCell<(usize, usize)>,
}

impl Prop for C05 {
    fn id(&self) -> &'static str {
        "C05"
    }
    fn rule(&self) -> &'static str {
        "the worlds of C01 (same generator: schemas x 2 datasets x ~10 type-directed queries with plain/optional/fold/recurse edges, coercions, filters with variable and tag operands incl. tags imported into (nested) folds, fold-count tags/filters/outputs). Per accepted query one (required <schema> <query> <ir> <args>) request: required_properties() of EVERY Vid of the query, obtained on the implementation from the ResolveInfo handed to resolve_starting_vertices and, for the other Vids, by navigating edges_with_name(..).destination() from it (model: requiredProps); per accepted (query, dataset) one (req-exec ...) request answered with the rows (model: Interp). Oracle on the implementation: inside every real resolve_property call the property must be in resolve_info.required_properties() (failure property-not-required:<imported-tag|other>), and that list must equal the list reached by navigation for the same Vid. A case is non-trivial (nt:<feature>) when the query has a tag (local / earlier vertex / from an optional scope / imported into a fold / nested import), a fold-count filter or tag, or an output inside a fold; req-exec cases additionally must return at least one row."
    }
    fn generate(&self, tier: Tier, rng: &mut Rng) -> Vec<Case> {
        let (worlds, stats, variants) = hint_worlds(tier, rng);
        *self.stats.borrow_mut() = stats;
        *self.variants.borrow_mut() = variants;
        let mut out = vec![];
        for w in &worlds {
            for q in w.accepted() {
                let tags = feature_tags(&q.gq.features);
                let Some(ir) = q.ir.clone() else { continue };
                let text = Sexp::atom(hex(q.gq.text.as_bytes()));
                out.push(Case {
                    request: Sexp::call(
                        "required",
                        vec![w.schema_sexp.clone(), text, ir, crate::engine::ir_sexp::args_to_sexp(&q.gq.args)],
                    ),
                    tags: tags.clone(),
                });
                for d in 0..w.datasets.len() {
                    if let Some(r) = w.request("req-exec", d, q) {
                        out.push(Case { request: r, tags: tags.clone() });
                    }
                }
            }
        }
        out
    }
    fn eval(&self, request: &Sexp) -> Option<String> {
        let (h, args) = request.as_call()?;
        match h {
            "required" => eval_required(args),
            // authoring aid for corpus lines (not a protocol request): the rendering of the real IR
            "ir-of" => {
                let [schema, text] = args else { return None };
                let text = String::from_utf8(unhex(text.as_atom()?)?).ok()?;
                let schema = load_schema(schema)?;
                Some(match compile(&schema.real, &text) {
                    Err(names) => Answer::FrontendErr(names).render(),
                    Ok(q) => ir_to_sexp(&q.ir_query).to_string(),
                })
            }
            "req-exec" => Some(match run_req(args)? {
                Ok((rows, _, _)) => rows,
                Err(answer) => answer,
            }),
            _ => None,
        }
    }
    fn oracle(&self, evaluated: &[Evaluated]) -> Vec<OracleFailure> {
        // panics of accepted queries are C09's business (known defects F-4, F-5, F-9, F-10): not reported here
        let mut fails = vec![];
        let (mut runs, mut calls) = (0usize, 0usize);
        for e in evaluated {
            let Some(("req-exec", args)) = e.request.as_call() else { continue };
            match guarded(|| run_req(args)) {
                Ok(Some(Ok((_, violations, n)))) => {
                    runs += 1;
                    calls += n;
                    let mut seen = BTreeSet::new();
                    for v in violations {
                        if seen.insert(v.key.clone()) {
                            let text = parse_request(args).map(|r| r.text).unwrap_or_default();
                            fails.push(OracleFailure {
                                key: v.key,
                                detail: format!("{} | query: {text}", v.detail),
                                requests: vec![e.line.clone()],
                            });
                        }
                    }
                }
                _ => continue,
            }
        }
        *self.checked.borrow_mut() = (runs, calls);
        fails
    }
    fn post_tags(&self, e: &Evaluated) -> Vec<String> {
        let is_exec = matches!(e.request.as_call(), Some(("req-exec", _)));
        if is_exec && !e.answer.starts_with("(rows (row") {
            return vec![];
        }
        ["tag-only", "tag-local", "tag-earlier", "tag-from-opt", "tag-import", "tag-import-nested", "count-tag", "count-filter", "output-in-fold", "output-in-nested-fold"]
            .iter()
            .filter(|f| e.tags.iter().any(|t| t == *f))
            .map(|f| format!("nt:{f}"))
            .collect()
    }
    fn extra_stats(&self, _evaluated: &[Evaluated]) -> serde_json::Value {
        let (runs, calls) = *self.checked.borrow();
        serde_json::json!({"generator": self.stats.borrow().to_json(), "tag_only_variants": *self.variants.borrow(), "executions_checked": runs, "resolve_property_calls_checked": calls})
    }
}

// ------------------------------------------------------------------------------------------------
// C04 — pruning data with the engine's query hints never changes results

type Cand = CandidateValue<FieldValue>;

fn bound_to_sexp(b: Bound<&FieldValue>) -> Sexp {
    match b {
        Bound::Unbounded => Sexp::atom("unb"),
        Bound::Included(v) => Sexp::call("inc", vec![value_to_sexp(v)]),
        Bound::Excluded(v) => Sexp::call("exc", vec![value_to_sexp(v)]),
    }
}

/// agent-c06's candidate syntax (`Driver/Cand.lean`)
fn cand_to_sexp(c: &Cand) -> Sexp {
    match c {
        CandidateValue::Impossible => Sexp::atom("imp"),
        CandidateValue::All => Sexp::atom("all"),
        CandidateValue::Single(v) => Sexp::call("single", vec![value_to_sexp(v)]),
        CandidateValue::Multiple(vs) => Sexp::call("multi", vs.iter().map(value_to_sexp).collect()),
        CandidateValue::Range(r) => Sexp::call(
            "range",
            vec![bound_to_sexp(r.start_bound()), bound_to_sexp(r.end_bound()), Sexp::atom(if r.null_included() { "1" } else { "0" })],
        ),
        _ => unreachable!("non_exhaustive CandidateValue variant"),
    }
}

fn parse_bound(s: &Sexp) -> Option<Bound<FieldValue>> {
    if s.as_atom() == Some("unb") {
        return Some(Bound::Unbounded);
    }
    match s.as_call()? {
        ("inc", [v]) => Some(Bound::Included(sexp_to_value(v)?)),
        ("exc", [v]) => Some(Bound::Excluded(sexp_to_value(v)?)),
        _ => None,
    }
}

fn parse_cand(s: &Sexp) -> Option<Cand> {
    match s.as_atom() {
        Some("imp") => return Some(CandidateValue::Impossible),
        Some("all") => return Some(CandidateValue::All),
        Some(_) => return None,
        None => {}
    }
    match s.as_call()? {
        ("single", [v]) => Some(CandidateValue::Single(sexp_to_value(v)?)),
        ("multi", vs) => Some(CandidateValue::Multiple(vs.iter().map(sexp_to_value).collect::<Option<Vec<_>>>()?)),
        ("range", [s, e, n]) => {
            let (s, e) = (parse_bound(s)?, parse_bound(e)?);
            let n = n.as_atom()? == "1";
            Some(CandidateValue::Range(trustfall_core::interpreter::verif_candidates::range_new(s, e, n)))
        }
        _ => None,
    }
}

/// Which values a candidate stands for (`Range::contains`, `==`, `Vec::contains`).
fn cand_mem(c: &Cand, v: &FieldValue) -> bool {
    match c {
        CandidateValue::Impossible => false,
        CandidateValue::All => true,
        CandidateValue::Single(s) => s == v,
        CandidateValue::Multiple(vs) => vs.contains(v),
        CandidateValue::Range(r) => r.contains(v),
        _ => unreachable!(),
    }
}

/// Vid → type name of the IR vertex, for the whole query.
fn vertex_types(comp: &IRQueryComponent, out: &mut BTreeMap<u64, String>) {
    for (vid, v) in comp.vertices.iter() {
        out.insert(vid_num(*vid), v.type_name.to_string());
    }
    for f in comp.folds.values() {
        vertex_types(&f.component, out);
    }
}

#[derive(Clone, Copy, PartialEq, Eq, Debug)]
struct PruneMode {
    /// use `dynamically_required_property(..).resolve(..)` at `resolve_neighbors`
    dynamic: bool,
    /// additionally apply, at the resolution of a vertex, the hints that the root `ResolveInfo` reports
    /// for that Vid by look-ahead navigation (`edges_with_name(..).destination()` chains)
    lookahead: bool,
}

#[derive(Default, Debug, Clone)]
struct PruneStats {
    static_dropped: usize,
    mandatory_dropped: usize,
    dynamic_dropped: usize,
    lookahead_dropped: usize,
    dynamic_resolutions: usize,
}

struct PruneShared {
    schema: Arc<GenSchema>,
    table: DataTable,
    vtypes: BTreeMap<u64, String>,
    mode: PruneMode,
    stats: RefCell<PruneStats>,
    /// Vid → (property, candidate) / mandatory (edge name, params text) pairs claimed by root look-ahead
    lookahead: RefCell<BTreeMap<u64, (Vec<(String, Cand)>, Vec<(String, String)>)>>,
    ir: IRQuery,
}

impl PruneShared {
    fn prop_value(&self, v: u32, p: &str) -> FieldValue {
        match self.table.vertices.get(&v) {
            None => FieldValue::Null,
            Some((ty, props)) => {
                if p == "__typename" {
                    FieldValue::from(ty.as_str())
                } else {
                    props.get(p).cloned().unwrap_or(FieldValue::Null)
                }
            }
        }
    }
    fn neighbors(&self, v: u32, edge: &str, params: &EdgeParameters) -> &[u32] {
        self.table.adj.get(&(v, edge.to_string(), params_text(params))).map(|x| x.as_slice()).unwrap_or(&[])
    }
    /// the properties and the edge names of the IR vertex the hint object describes
    fn names_of<V: VertexInfo>(&self, info: &V) -> (Vec<String>, Vec<String>) {
        let ty = self.vtypes.get(&vid_num(info.vid())).cloned().unwrap_or_default();
        match self.schema.ty(&ty) {
            None => (vec![], vec![]),
            Some(t) => {
                let mut props: Vec<String> = t.props.iter().map(|(p, _)| p.clone()).collect();
                props.push("__typename".to_string());
                (props, t.edges.iter().map(|e| e.name.clone()).collect())
            }
        }
    }
    /// Does data vertex `v` satisfy everything the hint object `info` reports: the static candidates of
    /// all its properties, and — for every edge reported mandatory — a neighbour that satisfies the
    /// hints of the edge's `destination()` (look-ahead)?
    fn keep<V: VertexInfo>(&self, info: &V, v: u32, fuel: usize) -> bool {
        let (props, edges) = self.names_of(info);
        for p in &props {
            if let Some(c) = info.statically_required_property(p) {
                if !cand_mem(&c, &self.prop_value(v, p)) {
                    self.stats.borrow_mut().static_dropped += 1;
                    return false;
                }
            }
        }
        if fuel == 0 {
            return true;
        }
        for name in &edges {
            let infos: Vec<EdgeInfo> = info.mandatory_edges_with_name(name).collect();
            for ei in infos {
                let ok = self.neighbors(v, name, ei.parameters()).iter().any(|u| self.keep(ei.destination(), *u, fuel - 1));
                if !ok {
                    self.stats.borrow_mut().mandatory_dropped += 1;
                    return false;
                }
            }
        }
        true
    }
    /// the hints the root's look-ahead claims for Vid `vid`, applied to data vertex `v`
    fn keep_lookahead(&self, vid: u64, v: u32) -> bool {
        if !self.mode.lookahead {
            return true;
        }
        let la = self.lookahead.borrow();
        let Some((cands, mands)) = la.get(&vid) else { return true };
        for (p, c) in cands {
            if !cand_mem(c, &self.prop_value(v, p)) {
                self.stats.borrow_mut().lookahead_dropped += 1;
                return false;
            }
        }
        for (name, ptext) in mands {
            if self.table.adj.get(&(v, name.clone(), ptext.clone())).is_none_or(|n| n.is_empty()) {
                self.stats.borrow_mut().lookahead_dropped += 1;
                return false;
            }
        }
        true
    }
    /// record what the hint object reached by navigation claims for its Vid, then walk on
    fn collect_lookahead<V: VertexInfo>(&self, info: &V, comp: &IRQueryComponent, is_root: bool) {
        let vid = info.vid();
        if !is_root {
            let (props, edges) = self.names_of(info);
            let mut cands = vec![];
            for p in &props {
                if let Some(c) = info.statically_required_property(p) {
                    cands.push((p.clone(), c));
                }
            }
            let mut mands = vec![];
            for name in &edges {
                for ei in info.mandatory_edges_with_name(name) {
                    mands.push((name.clone(), params_text(ei.parameters())));
                }
            }
            self.lookahead.borrow_mut().insert(vid_num(vid), (cands, mands));
        }
        let mut names: Vec<Arc<str>> = vec![];
        for e in comp.edges.values() {
            if e.from_vid == vid && !names.contains(&e.edge_name) {
                names.push(e.edge_name.clone());
            }
        }
        for f in comp.folds.values() {
            if f.from_vid == vid && !names.contains(&f.edge_name) {
                names.push(f.edge_name.clone());
            }
        }
        for name in names {
            let infos: Vec<EdgeInfo> = info.edges_with_name(&name).collect();
            for ei in infos {
                let sub: &IRQueryComponent = match comp.folds.get(&ei.eid()) {
                    Some(fold) => &fold.component,
                    None => comp,
                };
                self.collect_lookahead(ei.destination(), sub, false);
            }
        }
    }
}

/// The adapter of the property: the table adapter that *uses* the hints to discard vertices.
#[derive(Clone)]
struct PruningAdapter {
    inner: TableAdapter,
    sh: Rc<PruneShared>,
}

const LOOKAHEAD_FUEL: usize = 8;

impl Adapter<'static> for PruningAdapter {
    type Vertex = Vtx;

    fn resolve_starting_vertices(
        &self,
        edge_name: &Arc<str>,
        parameters: &EdgeParameters,
        resolve_info: &ResolveInfo,
    ) -> VertexIterator<'static, Self::Vertex> {
        if self.sh.mode.lookahead {
            self.sh.collect_lookahead(resolve_info, &self.sh.ir.root_component, true);
        }
        let sh = self.sh.clone();
        let info = resolve_info.clone();
        Box::new(
            self.inner
                .resolve_starting_vertices(edge_name, parameters, resolve_info)
                .filter(move |v| sh.keep(&info, v.0, LOOKAHEAD_FUEL)),
        )
    }

    fn resolve_property<V: AsVertex<Self::Vertex> + 'static>(
        &self,
        contexts: ContextIterator<'static, V>,
        type_name: &Arc<str>,
        property_name: &Arc<str>,
        resolve_info: &ResolveInfo,
    ) -> ContextOutcomeIterator<'static, V, FieldValue> {
        self.inner.resolve_property(contexts, type_name, property_name, resolve_info)
    }

    fn resolve_neighbors<V: AsVertex<Self::Vertex> + 'static>(
        &self,
        contexts: ContextIterator<'static, V>,
        _type_name: &Arc<str>,
        edge_name: &Arc<str>,
        parameters: &EdgeParameters,
        resolve_info: &ResolveEdgeInfo,
    ) -> ContextOutcomeIterator<'static, V, VertexIterator<'static, Self::Vertex>> {
        let dest = resolve_info.destination();
        let dest_vid = vid_num(dest.vid());
        // per-context candidates from `dynamically_required_property(p).resolve(adapter, contexts)`,
        // one resolution stage per property; the candidates travel in a side queue (every stage is 1:1)
        let queue: Rc<RefCell<VecDeque<Vec<(String, Cand)>>>> = Rc::new(RefCell::new(VecDeque::new()));
        let mut stream: ContextIterator<'static, V> = {
            let q = queue.clone();
            Box::new(contexts.map(move |ctx| {
                q.borrow_mut().push_back(vec![]);
                ctx
            }))
        };
        if self.sh.mode.dynamic {
            let (props, _) = self.sh.names_of(&dest);
            for p in props {
                if let Some(drv) = dest.dynamically_required_property(&p) {
                    self.sh.stats.borrow_mut().dynamic_resolutions += 1;
                    let q = queue.clone();
                    let resolved = drv.resolve(self, stream);
                    stream = Box::new(resolved.map(move |(ctx, cand)| {
                        q.borrow_mut().back_mut().expect("entry of the context in flight").push((p.clone(), cand));
                        ctx
                    }));
                }
            }
        }
        let sh = self.sh.clone();
        let edge = edge_name.to_string();
        let params = parameters.clone();
        Box::new(stream.map(move |ctx| {
            let cands = queue.borrow_mut().pop_front().expect("entry of the context in flight");
            let nbrs: VertexIterator<'static, Vtx> = match ctx.active_vertex::<Vtx>() {
                None => Box::new(std::iter::empty()),
                Some(v) => {
                    let kept: Vec<Vtx> = sh
                        .neighbors(v.0, &edge, &params)
                        .iter()
                        .copied()
                        .filter(|u| sh.keep(&dest, *u, LOOKAHEAD_FUEL))
                        .filter(|u| {
                            let ok = cands.iter().all(|(p, c)| cand_mem(c, &sh.prop_value(*u, p)));
                            if !ok {
                                sh.stats.borrow_mut().dynamic_dropped += 1;
                            }
                            ok
                        })
                        .filter(|u| sh.keep_lookahead(dest_vid, *u))
                        .map(Vtx)
                        .collect();
                    Box::new(kept.into_iter())
                }
            };
            (ctx, nbrs)
        }))
    }

    fn resolve_coercion<V: AsVertex<Self::Vertex> + 'static>(
        &self,
        contexts: ContextIterator<'static, V>,
        type_name: &Arc<str>,
        coerce_to_type: &Arc<str>,
        resolve_info: &ResolveInfo,
    ) -> ContextOutcomeIterator<'static, V, bool> {
        self.inner.resolve_coercion(contexts, type_name, coerce_to_type, resolve_info)
    }
}

/// One request's query, ready to run plain or pruned.
struct Loaded {
    p: crate::engine::run::Prepared,
    q: Arc<IndexedQuery>,
    args: BTreeMap<String, FieldValue>,
    text: String,
}

fn load5(args: &[Sexp]) -> Option<Result<Loaded, String>> {
    let r = parse_request(args)?;
    let p = prepare(r.schema, r.data, &r.text)?;
    let q = match &p.query {
        Err(names) => return Some(Err(Answer::FrontendErr(names.clone()).render())),
        Ok(q) => q.clone(),
    };
    if ir_to_sexp(&q.ir_query) != *r.fourth {
        return Some(Err("(ir-mismatch)".to_string()));
    }
    Some(Ok(Loaded { p, q, args: r.args, text: r.text }))
}

fn run_pruned(l: &Loaded, mode: PruneMode) -> (Answer, PruneStats) {
    let mut vtypes = BTreeMap::new();
    vertex_types(&l.q.ir_query.root_component, &mut vtypes);
    let sh = Rc::new(PruneShared {
        schema: l.p.schema.gen_schema.clone(),
        table: l.p.table.clone(),
        vtypes,
        mode,
        stats: RefCell::new(PruneStats::default()),
        lookahead: RefCell::new(BTreeMap::new()),
        ir: l.q.ir_query.clone(),
    });
    let adapter = PruningAdapter { inner: l.p.adapter(), sh: sh.clone() };
    let answer = execute(Arc::new(adapter), l.q.clone(), &l.args);
    let stats = sh.stats.borrow().clone();
    (answer, stats)
}

// ---- correspondence: what the hint objects report ------------------------------------------------

// ---- reading a `CandidateValue<FieldValue>` back from its derived `Debug` text ---------------------
// (the `initial_candidate` of a `DynamicallyResolvedValue` is private; its Debug rendering is not)

struct DebugParser<'a> {
    s: &'a [u8],
    i: usize,
}

impl<'a> DebugParser<'a> {
    fn ws(&mut self) {
        while self.i < self.s.len() && (self.s[self.i] == b' ' || self.s[self.i] == b'\n') {
            self.i += 1;
        }
    }
    fn eat(&mut self, t: &str) -> bool {
        self.ws();
        if self.s[self.i..].starts_with(t.as_bytes()) {
            self.i += t.len();
            true
        } else {
            false
        }
    }
    fn ident(&mut self) -> String {
        self.ws();
        let st = self.i;
        while self.i < self.s.len() && (self.s[self.i].is_ascii_alphanumeric() || self.s[self.i] == b'_') {
            self.i += 1;
        }
        String::from_utf8_lossy(&self.s[st..self.i]).into_owned()
    }
    fn number_text(&mut self) -> String {
        self.ws();
        let st = self.i;
        while self.i < self.s.len() && (self.s[self.i].is_ascii_alphanumeric() || matches!(self.s[self.i], b'-' | b'+' | b'.')) {
            self.i += 1;
        }
        String::from_utf8_lossy(&self.s[st..self.i]).into_owned()
    }
    fn string(&mut self) -> Option<String> {
        if !self.eat("\"") {
            return None;
        }
        let text = std::str::from_utf8(&self.s[self.i..]).ok()?;
        let mut out = String::new();
        let mut chars = text.char_indices();
        while let Some((at, c)) = chars.next() {
            match c {
                '"' => {
                    self.i += at + 1;
                    return Some(out);
                }
                '\\' => {
                    let (_, e) = chars.next()?;
                    match e {
                        'n' => out.push('\n'),
                        'r' => out.push('\r'),
                        't' => out.push('\t'),
                        '0' => out.push('\0'),
                        'u' => {
                            let mut hexs = String::new();
                            chars.next()?; // {
                            for (_, h) in chars.by_ref() {
                                if h == '}' {
                                    break;
                                }
                                hexs.push(h);
                            }
                            out.push(char::from_u32(u32::from_str_radix(&hexs, 16).ok()?)?);
                        }
                        other => out.push(other),
                    }
                }
                c => out.push(c),
            }
        }
        None
    }
    fn value(&mut self) -> Option<FieldValue> {
        let id = self.ident();
        match id.as_str() {
            "Null" => Some(FieldValue::Null),
            "Int64" | "Uint64" | "Float64" | "Boolean" | "String" | "Enum" | "List" => {
                if !self.eat("(") {
                    return None;
                }
                let v = match id.as_str() {
                    "Int64" => FieldValue::Int64(self.number_text().parse().ok()?),
                    "Uint64" => FieldValue::Uint64(self.number_text().parse().ok()?),
                    "Float64" => FieldValue::Float64(self.number_text().parse().ok()?),
                    "Boolean" => FieldValue::Boolean(self.ident() == "true"),
                    "String" => FieldValue::String(self.string()?.into()),
                    "Enum" => FieldValue::Enum(self.string()?.into()),
                    _ => FieldValue::List(self.list()?.into()),
                };
                self.eat(")").then_some(v)
            }
            _ => None,
        }
    }
    fn list(&mut self) -> Option<Vec<FieldValue>> {
        if !self.eat("[") {
            return None;
        }
        let mut out = vec![];
        loop {
            if self.eat("]") {
                return Some(out);
            }
            out.push(self.value()?);
            self.eat(",");
        }
    }
    fn bound(&mut self) -> Option<Bound<FieldValue>> {
        match self.ident().as_str() {
            "Unbounded" => Some(Bound::Unbounded),
            kind @ ("Included" | "Excluded") => {
                let included = kind == "Included";
                if !self.eat("(") {
                    return None;
                }
                let v = self.value()?;
                self.eat(")").then_some(if included { Bound::Included(v) } else { Bound::Excluded(v) })
            }
            _ => None,
        }
    }
    fn candidate(&mut self) -> Option<Cand> {
        match self.ident().as_str() {
            "Impossible" => Some(CandidateValue::Impossible),
            "All" => Some(CandidateValue::All),
            "Single" => {
                self.eat("(");
                let v = self.value()?;
                self.eat(")").then_some(CandidateValue::Single(v))
            }
            "Multiple" => {
                self.eat("(");
                let v = self.list()?;
                self.eat(")").then_some(CandidateValue::Multiple(v))
            }
            "Range" => {
                if !(self.eat("(") && self.eat("Range") && self.eat("{") && self.eat("start:")) {
                    return None;
                }
                let st = self.bound()?;
                if !(self.eat(",") && self.eat("end:")) {
                    return None;
                }
                let en = self.bound()?;
                if !(self.eat(",") && self.eat("null_included:")) {
                    return None;
                }
                let n = self.ident() == "true";
                (self.eat("}") && self.eat(")"))
                    .then(|| CandidateValue::Range(trustfall_core::interpreter::verif_candidates::range_new(st, en, n)))
            }
            _ => None,
        }
    }
}

fn candidate_from_debug(text: &str) -> Option<Cand> {
    DebugParser { s: text.as_bytes(), i: 0 }.candidate()
}

/// `(<prop> <op> <(ctx <vid> <field>) | (fcount <eid>)> <initial candidate>)`: which operation, which tag
/// and which initial candidate a
/// `DynamicallyResolvedValue` carries. The fields are private; they are read off the derived `Debug`
/// rendering (`…, field: <FieldRef>, operation: <Operation>, initial_candidate: …` are its last fields).
fn dyn_choice_sexp(prop: &str, drv: &DynamicallyResolvedValue<'_>) -> Sexp {
    let text = format!("{drv:?}");
    let unknown = || Sexp::list(vec![Sexp::atom(prop), Sexp::atom("?"), Sexp::atom("?")]);
    let Some(op_at) = text.rfind(", operation: ") else { return unknown() };
    let Some(field_at) = text[..op_at].rfind(", field: ") else { return unknown() };
    let field = &text[field_at + ", field: ".len()..op_at];
    let op_text = &text[op_at + ", operation: ".len()..];
    let op_name: String = op_text.chars().take_while(|c| c.is_ascii_alphanumeric()).collect();
    let op = match op_name.as_str() {
        "Equals" => "eq",
        "NotEquals" => "neq",
        "LessThan" => "lt",
        "LessThanOrEqual" => "le",
        "GreaterThan" => "gt",
        "GreaterThanOrEqual" => "ge",
        "OneOf" => "one_of",
        _ => "?",
    };
    let num_after = |key: &str| -> Option<String> {
        let at = field.find(key)? + key.len();
        Some(field[at..].chars().take_while(|c| c.is_ascii_digit()).collect())
    };
    let fref = if field.starts_with("ContextField") {
        let name = field.find("field_name: \"").map(|at| {
            field[at + "field_name: \"".len()..].chars().take_while(|c| *c != '"').collect::<String>()
        });
        match (num_after("vertex_id: Vid("), name) {
            (Some(v), Some(n)) => Sexp::call("ctx", vec![Sexp::atom(v), Sexp::atom(n)]),
            _ => Sexp::atom("?"),
        }
    } else if field.starts_with("FoldSpecificField") {
        match num_after("fold_eid: Eid(") {
            Some(e) => Sexp::call("fcount", vec![Sexp::atom(e)]),
            None => Sexp::atom("?"),
        }
    } else {
        Sexp::atom("?")
    };
    let initial = text[op_at..]
        .find(", initial_candidate: ")
        .and_then(|at| candidate_from_debug(&text[op_at + at + ", initial_candidate: ".len()..]))
        .map(|c| cand_to_sexp(&c))
        .unwrap_or_else(|| Sexp::atom("?"));
    Sexp::list(vec![Sexp::atom(prop), Sexp::atom(op), fref, initial])
}

/// `(static (<prop> <cand>)…) (dyn (<prop> <op> <tag>)…) (mand <eid>…)` of one hint object; `panic` when a hint
/// method panics.
fn info_report<V: VertexInfo>(sh: &PruneShared, info: &V) -> Vec<Sexp> {
    let (mut props, edges) = sh.names_of(info);
    props.sort();
    let r = guarded(|| {
        let mut st = vec![];
        let mut dy = vec![];
        for p in &props {
            if let Some(c) = info.statically_required_property(p) {
                st.push(Sexp::list(vec![Sexp::atom(p.clone()), cand_to_sexp(&c)]));
            }
            if let Some(drv) = info.dynamically_required_property(p) {
                dy.push(dyn_choice_sexp(p, &drv));
            }
        }
        let mut eids: Vec<u64> = vec![];
        for name in &edges {
            for ei in info.mandatory_edges_with_name(name) {
                eids.push(eid_num(ei.eid()));
            }
        }
        eids.sort();
        vec![
            Sexp::call("static", st),
            Sexp::call("dyn", dy),
            Sexp::call("mand", eids.into_iter().map(|e| Sexp::atom(e.to_string())).collect()),
        ]
    });
    r.unwrap_or_else(|_| vec![Sexp::atom("panic")])
}

fn walk_reports<V: VertexInfo>(sh: &PruneShared, info: &V, comp: &IRQueryComponent, out: &mut BTreeMap<u64, Vec<Sexp>>) {
    let vid = info.vid();
    out.insert(vid_num(vid), info_report(sh, info));
    let mut names: Vec<Arc<str>> = vec![];
    for e in comp.edges.values() {
        if e.from_vid == vid && !names.contains(&e.edge_name) {
            names.push(e.edge_name.clone());
        }
    }
    for f in comp.folds.values() {
        if f.from_vid == vid && !names.contains(&f.edge_name) {
            names.push(f.edge_name.clone());
        }
    }
    for name in names {
        let Ok(infos) = guarded(|| info.edges_with_name(&name).collect::<Vec<EdgeInfo>>()) else {
            continue;
        };
        for ei in infos {
            let sub: &IRQueryComponent = match comp.folds.get(&ei.eid()) {
                Some(fold) => &fold.component,
                None => comp,
            };
            walk_reports(sh, ei.destination(), sub, out);
        }
    }
}

fn shared_for(schema: Arc<GenSchema>, table: DataTable, ir: &IRQuery) -> PruneShared {
    let mut vtypes = BTreeMap::new();
    vertex_types(&ir.root_component, &mut vtypes);
    PruneShared {
        schema,
        table,
        vtypes,
        mode: PruneMode { dynamic: false, lookahead: false },
        stats: RefCell::new(PruneStats::default()),
        lookahead: RefCell::new(BTreeMap::new()),
        ir: ir.clone(),
    }
}

/// `(hints <schema> <query text hex> <ir> <args>)` → `(hints (v <vid> (static …) (dyn …) (mand …))…)`:
/// what the `ResolveInfo` of `resolve_starting_vertices` reports for the root, and what the
/// `NeighborInfo`s reached from it by `edges_with_name(..).destination()` report for every other Vid.
fn eval_hints(args: &[Sexp]) -> Option<String> {
    let [schema, text, ir, qargs] = args else { return None };
    let text = String::from_utf8(unhex(text.as_atom()?)?).ok()?;
    let qargs = crate::engine::ir_sexp::args_from_sexp(qargs)?;
    let schema = load_schema(schema)?;
    let q = match compile(&schema.real, &text) {
        Err(names) => return Some(Answer::FrontendErr(names).render()),
        Ok(q) => q,
    };
    if ir_to_sexp(&q.ir_query) != *ir {
        return Some("(ir-mismatch)".to_string());
    }
    let captured: Rc<RefCell<Option<String>>> = Rc::new(RefCell::new(None));
    let cap = captured.clone();
    let sh = shared_for(schema.gen_schema.clone(), DataTable::default(), &q.ir_query);
    let on_call: OnCall = Rc::new(move |kind, _ty, _name, info: Info<'_>| {
        if kind != CallKind::Start {
            return;
        }
        if let Info::Vertex(ri) = info {
            let mut out = BTreeMap::new();
            walk_reports(&sh, ri, &sh.ir.root_component, &mut out);
            let items: Vec<Sexp> = out
                .into_iter()
                .map(|(vid, mut rep)| {
                    let mut l = vec![Sexp::atom(vid.to_string())];
                    l.append(&mut rep);
                    Sexp::call("v", l)
                })
                .collect();
            *cap.borrow_mut() = Some(Sexp::call("hints", items).to_string());
        }
    });
    let adapter = Watch { inner: TableAdapter::new(&schema.gen_schema, DataTable::default()), on_call };
    let res = guarded(|| interpret_ir(Arc::new(adapter), q.clone(), real_args(&qargs)).map(|_| ()));
    if let Ok(Err(e)) = &res {
        return Some(Answer::ArgsErr(args_error_names(e)).render());
    }
    let out = captured.borrow().clone();
    Some(out.unwrap_or_else(|| "(no-start-call)".to_string()))
}

/// the `(eids …)` argument / the Eids whose `resolve_neighbors` call happens in this run
fn direct_points(l: &Loaded) -> BTreeMap<u64, (u64, Vec<Sexp>)> {
    let points: Rc<RefCell<BTreeMap<u64, (u64, Vec<Sexp>)>>> = Rc::new(RefCell::new(BTreeMap::new()));
    let pts = points.clone();
    let sh = shared_for(l.p.schema.gen_schema.clone(), l.p.table.clone(), &l.q.ir_query);
    let on_call: OnCall = Rc::new(move |kind, _ty, _name, info: Info<'_>| match (kind, info) {
        (CallKind::Start, Info::Vertex(ri)) => {
            pts.borrow_mut().insert(0, (vid_num(ri.vid()), info_report(&sh, ri)));
        }
        (CallKind::Neighbors, Info::Edge(ei)) => {
            let eid = eid_num(ei.eid());
            if !pts.borrow().contains_key(&eid) {
                let dest = ei.destination();
                pts.borrow_mut().insert(eid, (vid_num(dest.vid()), info_report(&sh, &dest)));
            }
        }
        _ => {}
    });
    let adapter = Watch { inner: l.p.adapter(), on_call };
    let _ = guarded(|| execute(Arc::new(adapter), l.q.clone(), &l.args));
    let out = points.borrow().clone();
    out
}

/// `(points <schema> <data> <query text hex> <ir> <args> (eids <eid>…))` →
/// `(points (start <vid> (static …) (dyn …) (mand …)) (e <eid> <vid> …)…)`: the hints of the hint
/// object of each resolution point — `ResolveInfo` of the starting vertices, `destination()` of the
/// `ResolveEdgeInfo` of the listed edges (`(e <eid> -)` when the edge is not resolved in this run).
fn eval_points(args: &[Sexp]) -> Option<String> {
    let [a @ .., eids] = args else { return None };
    let ("eids", eids) = eids.as_call()? else { return None };
    let l = match load5(a)? {
        Ok(l) => l,
        Err(answer) => return Some(answer),
    };
    let pts = direct_points(&l);
    let mut items = vec![];
    if let Some((vid, rep)) = pts.get(&0) {
        let mut v = vec![Sexp::atom(vid.to_string())];
        v.extend(rep.iter().cloned());
        items.push(Sexp::call("start", v));
    }
    for e in eids {
        let eid: u64 = e.as_atom()?.parse().ok()?;
        match pts.get(&eid) {
            Some((vid, rep)) => {
                let mut v = vec![Sexp::atom(eid.to_string()), Sexp::atom(vid.to_string())];
                v.extend(rep.iter().cloned());
                items.push(Sexp::call("e", v));
            }
            None => items.push(Sexp::call("e", vec![Sexp::atom(eid.to_string()), Sexp::atom("-")])),
        }
    }
    Some(Sexp::call("points", items).to_string())
}

fn parse_bare_op(op: &str) -> Option<Operation<(), ()>> {
    Some(match op {
        "eq" => Operation::Equals((), ()),
        "neq" => Operation::NotEquals((), ()),
        "lt" => Operation::LessThan((), ()),
        "le" => Operation::LessThanOrEqual((), ()),
        "gt" => Operation::GreaterThan((), ()),
        "ge" => Operation::GreaterThanOrEqual((), ()),
        "one_of" => Operation::OneOf((), ()),
        _ => return None,
    })
}

const TINY_SCHEMA: &str = "(schema (types (A obj)) (sub (A)) (props (A (id (T Int 0)))) (edges (A)) (roots (RA A (T A 1 0) (params))))";

/// `(tag-cand <ctx|count> <op> <nonexistent | (some <value>)> <initial candidate>)` → the candidate
/// `DynamicallyResolvedValue::resolve` computes for one context (hooks `verif_dynamic`): `ctx` =
/// `compute_candidate_from_operation` (context-field / imported-tag paths), `count` =
/// `resolve_fold_specific_field` (the value must be `(u n)`).
fn eval_tag_cand(args: &[Sexp]) -> Option<String> {
    let [path, op, tagged, initial] = args else { return None };
    let op = parse_bare_op(op.as_atom()?)?;
    let tagged: Option<FieldValue> = if tagged.as_atom() == Some("nonexistent") {
        None
    } else {
        match tagged.as_call()? {
            ("some", [v]) => Some(sexp_to_value(v)?),
            _ => return None,
        }
    };
    let initial = parse_cand(initial)?;
    let c = match path.as_atom()? {
        "ctx" => verif_dynamic::candidate_from_tagged_value(&op, tagged, initial),
        "count" => {
            let count = match tagged {
                None => None,
                Some(FieldValue::Uint64(n)) => Some(n as usize),
                Some(_) => return None,
            };
            let schema = load_schema(&Sexp::parse(TINY_SCHEMA)?)?;
            let q = compile(&schema.real, "{ RA { id @output(name: \"o\") } }").ok()?;
            verif_dynamic::candidate_from_fold_count(q, Arc::new(BTreeMap::new()), op, count, initial)
        }
        _ => return None,
    };
    Some(cand_to_sexp(&c).to_string())
}

fn tag_cand_cases(rng: &mut Rng, n_random: usize) -> Vec<Case> {
    let v = |s: &str| Sexp::parse(s).unwrap();
    let values: Vec<Sexp> = [
        "n", "(i 3)", "(u 3)", "(i 4)", "(i -1)", "(u 0)", "(u 18446744073709551615)", "(i -9223372036854775808)",
        "(s 61)", "(s -)", "(f 1)", "(b 1)", "(l)", "(l (i 3) (u 4))", "(l n (i 3))", "(l (s 61))",
    ]
    .iter()
    .map(|s| v(s))
    .collect();
    let initials: Vec<Sexp> = [
        "all", "imp", "(range unb unb 0)", "(single (i 3))", "(single n)", "(multi (i 3) (i 4) n)",
        "(range (inc (i 3)) unb 1)", "(range unb (exc (u 4)) 0)", "(range (exc (i 0)) (inc (i 3)) 1)", "(range (inc (s 61)) unb 0)",
    ]
    .iter()
    .map(|s| v(s))
    .collect();
    let ops = ["eq", "neq", "lt", "le", "gt", "ge", "one_of"];
    let mut out = vec![];
    let mk = |path: &str, op: &str, tagged: Sexp, init: &Sexp| {
        Case::new(Sexp::call("tag-cand", vec![Sexp::atom(path), Sexp::atom(op), tagged, init.clone()]), &["tag-cand", &format!("nt:tag-cand:{op}")])
    };
    for op in ops {
        for init in &initials {
            out.push(mk("ctx", op, Sexp::atom("nonexistent"), init));
            out.push(mk("count", op, Sexp::atom("nonexistent"), init));
            for val in &values {
                out.push(mk("ctx", op, Sexp::call("some", vec![val.clone()]), init));
            }
            for n in ["(u 0)", "(u 1)", "(u 3)", "(u 4)"] {
                out.push(mk("count", op, Sexp::call("some", vec![v(n)]), init));
            }
        }
    }
    for _ in 0..n_random {
        let op = ops[rng.below(ops.len())];
        let val = value_to_sexp(&random_value(rng, 1));
        let init = &initials[rng.below(initials.len())];
        out.push(mk("ctx", op, Sexp::call("some", vec![val]), init));
    }
    out
}

// ---- directed streams over fixed small worlds -----------------------------------------------------
/// `hints`, `points` and `prune-exec` requests of one hand-built query over a fixed world (skipped when
/// the frontend rejects the query or the plain run panics).
fn push_directed(
    out: &mut Vec<Case>,
    schema_sexp: &Sexp,
    data_sexp: &Sexp,
    schema: &crate::engine::run::LoadedSchema,
    text: &str,
    args_text: &str,
    tags_v: Vec<String>,
) {
    let Ok(Ok(q)) = guarded(|| compile(&schema.real, text)) else { return };
    let ir = ir_to_sexp(&q.ir_query);
    let hx = Sexp::atom(hex(text.as_bytes()));
    let Some(args) = Sexp::parse(args_text) else { return };
    out.push(Case {
        request: Sexp::call("hints", vec![schema_sexp.clone(), hx.clone(), ir.clone(), args.clone()]),
        tags: tags_v.clone(),
    });
    let five = vec![schema_sexp.clone(), data_sexp.clone(), hx, ir, args];
    let Ok(Some(Ok(l))) = guarded(|| load5(&five)) else { return };
    if guarded(|| execute(Arc::new(l.p.adapter()), l.q.clone(), &l.args)).is_err() {
        return;
    }
    let eids: Vec<Sexp> = direct_points(&l).keys().filter(|e| **e != 0).map(|e| Sexp::atom(e.to_string())).collect();
    let mut pa = five.clone();
    pa.push(Sexp::call("eids", eids));
    out.push(Case { request: Sexp::call("points", pa), tags: tags_v.clone() });
    out.push(Case { request: Sexp::call("prune-exec", five), tags: tags_v });
}

const NL_SCHEMA: &str = "(schema (types (A obj) (B obj)) (sub (A) (B)) (props (A (id (T Int 0)) (xn (T Int 1)) (xr (T Int 0)) (sn (T String 1)) (sr (T String 0)) (ln (T Int 1 1)) (lr (T Int 0 0))) (B (id (T Int 0)) (y (T Int 1)) (s (T String 1)))) (edges (A (e B (T B 1 0) (params))) (B)) (roots (RA A (T A 1 0) (params))))";
const NL_DATA: &str = "(data (vertices \
 (0 A (id (i 0)) (xn (i 2)) (xr (i 2)) (sn (s 62)) (sr (s 62)) (ln (l (i 1) (i 2))) (lr (l (i 2) (i 3)))) \
 (1 A (id (i 1)) (xn n) (xr (i 5)) (sn n) (sr (s 61)) (ln n) (lr (l))) \
 (2 A (id (i 2)) (xn (i 3)) (xr (i 1)) (sn (s 61)) (sr (s 63)) (ln (l n (i 3))) (lr (l (i 1)))) \
 (10 B (id (i 10)) (y n) (s n)) (11 B (id (i 11)) (y (i 1)) (s (s 61))) (12 B (id (i 12)) (y (i 2)) (s (s 62))) \
 (13 B (id (i 13)) (y (i 3)) (s (s 63))) (14 B (id (i 14)) (y (i 5)) (s n)) (15 B (id (i 15)) (y n) (s (s 62)))) \
 (adj (0 e (params) (nbrs 10 11 12 13 14 15)) (1 e (params) (nbrs 15 14 13 12 11 10)) (2 e (params) (nbrs 10 12 12 15))) \
 (starts (RA (params) (nbrs 0 1 2))) (rx))";

/// Nullability of the operands of tag filters: a NULLABLE filtered property with null values in the
/// data (`y: Int`, `s: String`), operand tags of nullable and of non-nullable type (`Int`/`Int!`,
/// `String`/`String!`, `[Int]`/`[Int!]!`), every operator that can take such a tag — also `!=` and
/// `not_one_of`, whose candidates must keep null — alone and in ordered pairs, behind a plain edge, an
/// `@optional` edge and inside a fold.
fn nullability_cases() -> Vec<Case> {
    // (GraphQL operator, protocol name, operand kind: 0 = Int tag, 1 = list tag)
    let int_ops: [(&str, &str, u8); 7] =
        [("=", "eq", 0), ("!=", "neq", 0), ("<", "lt", 0), ("<=", "le", 0), (">", "gt", 0), ("one_of", "one_of", 1), ("not_one_of", "not_one_of", 1)];
    let str_ops: [(&str, &str); 4] = [("=", "eq"), ("!=", "neq"), ("<", "lt"), (">", "gt")];
    let (Some(schema_sexp), Some(data_sexp)) = (Sexp::parse(NL_SCHEMA), Sexp::parse(NL_DATA)) else { return vec![] };
    let Some(schema) = load_schema(&schema_sexp) else { return vec![] };
    let mut out = vec![];
    let edges = [("e", "plain"), ("e @optional", "optional"), ("e @fold", "fold")];
    let tag_prop = |kind: u8, nullable: bool| match (kind, nullable) {
        (0, true) => "xn",
        (0, false) => "xr",
        (_, true) => "ln",
        (_, false) => "lr",
    };
    let decl = |props: &[&str]| -> String {
        let mut seen: Vec<&str> = vec![];
        for p in props {
            if !seen.contains(p) {
                seen.push(p);
            }
        }
        seen.iter().map(|p| format!("{p} @tag(name: \"t{p}\") ")).collect()
    };
    let nn = |b: bool| if b { "nullable-tag" } else { "non-null-tag" };
    for (edge, ekind) in edges {
        // one tagged filter
        for (g, n, kind) in int_ops {
            for nullable in [true, false] {
                let t = tag_prop(kind, nullable);
                let text = format!(
                    "{{ RA {{ {}id @output(name: \"o0\") {edge} {{ y @filter(op: \"{g}\", value: [\"%t{t}\"]) @output(name: \"o1\") }} }} }}",
                    decl(&[t])
                );
                let tags = vec!["tag-nullability".to_string(), "nt:tag-nullability".to_string(), format!("tag-null:{n}:{}:{ekind}", nn(nullable))];
                push_directed(&mut out, &schema_sexp, &data_sexp, &schema, &text, "(args)", tags);
            }
        }
        for (g, n) in str_ops {
            for nullable in [true, false] {
                let t = if nullable { "sn" } else { "sr" };
                let text = format!(
                    "{{ RA {{ {}id @output(name: \"o0\") {edge} {{ s @filter(op: \"{g}\", value: [\"%t{t}\"]) @output(name: \"o1\") }} }} }}",
                    decl(&[t])
                );
                let tags = vec!["tag-nullability".to_string(), "nt:tag-nullability".to_string(), format!("tag-null:str-{n}:{}:{ekind}", nn(nullable))];
                push_directed(&mut out, &schema_sexp, &data_sexp, &schema, &text, "(args)", tags);
            }
        }
        // ordered pairs of tagged filters on `y`
        for (g1, n1, k1) in int_ops {
            for (g2, n2, k2) in int_ops {
                for (a, b) in [(true, false), (false, true), (false, false)] {
                    let (t1, t2) = (tag_prop(k1, a), tag_prop(k2, b));
                    let text = format!(
                        "{{ RA {{ {}id @output(name: \"o0\") {edge} {{ y @filter(op: \"{g1}\", value: [\"%t{t1}\"]) @filter(op: \"{g2}\", value: [\"%t{t2}\"]) @output(name: \"o1\") }} }} }}",
                        decl(&[t1, t2])
                    );
                    let tags = vec![
                        "tag-nullability".to_string(),
                        "nt:tag-nullability".to_string(),
                        format!("tag-null:{n1}-then-{n2}:{}+{}:{ekind}", nn(a), nn(b)),
                    ];
                    push_directed(&mut out, &schema_sexp, &data_sexp, &schema, &text, "(args)", tags);
                }
            }
        }
    }
    out
}

// ---- directed stream: two `%tag` filters on ONE property ------------------------------------------

const TT_SCHEMA: &str = "(schema (types (A obj) (B obj)) (sub (A) (B)) (props (A (id (T Int 0)) (x1 (T Int 1)) (x2 (T Int 1)) (l1 (T Int 1 1)) (l2 (T Int 1 1))) (B (id (T Int 0)) (y (T Int 1)))) (edges (A (e B (T B 1 0) (params))) (B)) (roots (RA A (T A 1 0) (params))))";
const TT_DATA: &str = "(data (vertices \
 (0 A (id (i 0)) (x1 (i 1)) (x2 (i 3)) (l1 (l (i 1) (i 2))) (l2 (l (i 3) (i 4)))) \
 (1 A (id (i 1)) (x1 (i 4)) (x2 (i 2)) (l1 (l (i 0) (i 4))) (l2 (l (i 2) (i 5)))) \
 (2 A (id (i 2)) (x1 (i 2)) (x2 (i 2)) (l1 (l (i 2))) (l2 (l (i 2) (i 3)))) \
 (10 B (id (i 10)) (y (i 0))) (11 B (id (i 11)) (y (i 1))) (12 B (id (i 12)) (y (i 2))) (13 B (id (i 13)) (y (i 3))) \
 (14 B (id (i 14)) (y (i 4))) (15 B (id (i 15)) (y (i 5))) (16 B (id (i 16)) (y n))) \
 (adj (0 e (params) (nbrs 10 11 12 13 14 15 16)) (1 e (params) (nbrs 16 15 14 13 12 11 10)) (2 e (params) (nbrs 12 12 13 11))) \
 (starts (RA (params) (nbrs 0 1 2))) (rx))";

/// Every ordered pair of tag-filter operators (one per priority class of
/// `dynamically_required_property`: `=` > `one_of` > ordering > `!=`; `>=` is left out because of
/// finding F-1) on the property `y` of the neighbour, each operand tag taken from {first, second}
/// tagged property of the root vertex — so that the two filters refer to the same tag or to different
/// tags, in both textual orders — behind a plain edge and inside a fold (imported tags).
fn two_tag_cases() -> Vec<Case> {
    let ops: [(&str, &str, bool); 6] =
        [("=", "eq", false), ("one_of", "one_of", true), ("<", "lt", false), ("<=", "le", false), (">", "gt", false), ("!=", "neq", false)];
    let (Some(schema_sexp), Some(data_sexp)) = (Sexp::parse(TT_SCHEMA), Sexp::parse(TT_DATA)) else { return vec![] };
    let Some(schema) = load_schema(&schema_sexp) else { return vec![] };
    let mut out = vec![];
    for (g1, n1, list1) in ops {
        for (g2, n2, list2) in ops {
            for t1 in 1..=2 {
                for t2 in 1..=2 {
                    for folded in [false, true] {
                        let prop = |list: bool, k: i32| format!("{}{k}", if list { "l" } else { "x" });
                        let (p1, p2) = (prop(list1, t1), prop(list2, t2));
                        let mut tagged = vec![p1.clone()];
                        if p2 != p1 {
                            tagged.push(p2.clone());
                        }
                        let tags: String = tagged.iter().map(|p| format!("{p} @tag(name: \"t{p}\") ")).collect();
                        let edge = if folded { "e @fold" } else { "e" };
                        let text = format!(
                            "{{ RA {{ {tags}id @output(name: \"o0\") {edge} {{ y @filter(op: \"{g1}\", value: [\"%t{p1}\"]) @filter(op: \"{g2}\", value: [\"%t{p2}\"]) @output(name: \"o1\") }} }} }}"
                        );
                        let same = if p1 == p2 { "same-tag" } else { "different-tags" };
                        let tags_v = vec![
                            "two-tag-filters".to_string(),
                            "nt:two-tag-filters".to_string(),
                            format!("two-tag:{n1}-then-{n2}:{same}"),
                        ];
                        push_directed(&mut out, &schema_sexp, &data_sexp, &schema, &text, "(args)", tags_v);
                    }
                }
            }
        }
    }
    out
}

/// What the oracle found for one execution.
struct PruneVerdict {
    failures: Vec<(String, String)>,
    stats: PruneStats,
}

fn rows_summary(a: &Answer) -> String {
    let s = a.render();
    if s.len() > 600 { format!("{}…", &s[..600]) } else { s }
}

/// ORACLE: rows(pruned) == rows(plain), as lists, in three pruning modes.
fn prune_verdict(l: &Loaded) -> PruneVerdict {
    let mut failures = vec![];
    let mut total = PruneStats::default();
    let plain = match guarded(|| execute(Arc::new(l.p.adapter()), l.q.clone(), &l.args)) {
        Ok(a) => a,
        Err(_) => return PruneVerdict { failures, stats: total }, // C09's business
    };
    let modes = [
        ("static", PruneMode { dynamic: false, lookahead: false }),
        ("dynamic", PruneMode { dynamic: true, lookahead: false }),
        ("lookahead", PruneMode { dynamic: false, lookahead: true }),
    ];
    for (name, mode) in modes {
        match guarded(|| run_pruned(l, mode)) {
            Ok((pruned, stats)) => {
                if name == "dynamic" || name == "static" {
                    total.dynamic_resolutions += stats.dynamic_resolutions;
                    total.dynamic_dropped += stats.dynamic_dropped;
                }
                if name == "static" {
                    total.static_dropped += stats.static_dropped;
                    total.mandatory_dropped += stats.mandatory_dropped;
                }
                if name == "lookahead" {
                    total.lookahead_dropped += stats.lookahead_dropped;
                }
                if pruned != plain {
                    failures.push((
                        format!("pruning-changes-rows:{name}"),
                        format!("plain {} | pruned {} | dropped {stats:?}", rows_summary(&plain), rows_summary(&pruned)),
                    ));
                    if name == "static" {
                        break; // the richer modes contain the static pruning
                    }
                }
            }
            Err(info) => {
                // stable keys for the two known panic sites (the second message embeds field name and type)
                let key = if info.contains("produced an invalid value when resolving @tag") {
                    "panic@dynamic.rs:tag_produced_an_invalid_value".to_string()
                } else {
                    panic_key(&info)
                };
                failures.push((format!("hint-resolution-panic:{key}"), format!("{info} (mode {name})")));
            }
        }
    }
    PruneVerdict { failures, stats: total }
}

#[derive(Default)]
pub struct C04 {
    stats: RefCell<GenStats>,
    variants: RefCell<usize>,
    totals: RefCell<(usize, PruneStats)>,
}

impl Prop for C04 {
    fn id(&self) -> &'static str {
        "C04"
    }
    fn rule(&self) -> &'static str {
        "the worlds of C01 plus tag-only query variants (see C05). Per accepted query one (hints <schema> <query> <ir> <args>) request: static candidates of every property, presence of a dynamic candidate, and mandatory edges (Eids) reported for EVERY Vid by the root ResolveInfo and the NeighborInfos reached from it by edges_with_name(..).destination() (model: Hints.walkInfos). Per accepted (query, dataset) whose plain run does not panic: one (points ... (eids ..)) request — the same report from the hint object of each resolution point that occurs in the run (ResolveInfo of resolve_starting_vertices, ResolveEdgeInfo::destination() of each resolve_neighbors call; model: VInfo.resolve / ofEdge / ofFold) — and one (prune-exec ...) request answered with the rows of the PLAIN run (model: rows of the Lean Interp under the Lean pruneAdapter, i.e. the open global theorem is tested on every case). A directed stream over a fixed small world (nt:two-tag-filters): every ordered pair of tag-filter operators of the priority classes = > one_of > ordering > != on ONE property, the two operands being the same tag or different tags in both textual orders, behind a plain edge and inside a fold; hints / points (which report the chosen (property, operation, tag, initial candidate) of every dynamic candidate) / prune-exec requests; a second directed stream (nt:tag-nullability): a nullable filtered property with null values, operand tags of nullable and non-nullable type (Int/Int!, String/String!, [Int]/[Int!]!), every tag-capable operator incl. != and not_one_of alone and in ordered pairs, behind a plain edge, an @optional edge and inside a fold. A grid of (tag-cand <ctx|count> <op> <tag value|nonexistent> <initial>) requests ties candidateOfTag to compute_candidate_from_operation / resolve_fold_specific_field through the verif_dynamic hooks. ORACLE on the implementation: the PruningAdapter (table adapter that, at every resolve_starting_vertices / resolve_neighbors, drops destination vertices whose property values are outside statically_required_property(p) for any property p of the destination type, outside dynamically_required_property(p).resolve(..) for the context, or that lack — recursively through destination() look-ahead — a neighbour along an edge reported by mandatory_edges_with_name) must return exactly the rows of the plain adapter, as lists, in three modes (static+mandatory; +dynamic; +hints claimed for the Vid by look-ahead from the root); a panic inside hint resolution is a failure keyed by its site. Non-trivial (nt:<why>): the pruned run actually dropped a vertex (nt:dropped-static / -mandatory / -dynamic) or resolved a dynamic candidate (nt:dynamic-resolved)."
    }
    fn generate(&self, tier: Tier, rng: &mut Rng) -> Vec<Case> {
        let (worlds, stats, variants) = hint_worlds(tier, rng);
        *self.stats.borrow_mut() = stats;
        *self.variants.borrow_mut() = variants;
        let mut out = tag_cand_cases(rng, if tier == Tier::Quick { 300 } else { 3000 });
        out.extend(two_tag_cases());
        out.extend(nullability_cases());
        for w in &worlds {
            for q in w.accepted() {
                let tags = feature_tags(&q.gq.features);
                let Some(ir) = q.ir.clone() else { continue };
                let text = Sexp::atom(hex(q.gq.text.as_bytes()));
                out.push(Case {
                    request: Sexp::call(
                        "hints",
                        vec![w.schema_sexp.clone(), text, ir, crate::engine::ir_sexp::args_to_sexp(&q.gq.args)],
                    ),
                    tags: tags.clone(),
                });
                for d in 0..w.datasets.len() {
                    let Some(r) = w.request("prune-exec", d, q) else { continue };
                    let Some((_, a)) = r.as_call() else { continue };
                    // pre-run: skip executions whose plain run panics (C09), learn which edges are resolved
                    let Ok(Some(Ok(l))) = guarded(|| load5(a)) else { continue };
                    if guarded(|| execute(Arc::new(l.p.adapter()), l.q.clone(), &l.args)).is_err() {
                        continue;
                    }
                    let eids: Vec<Sexp> = direct_points(&l).keys().filter(|e| **e != 0).map(|e| Sexp::atom(e.to_string())).collect();
                    let mut pa = a.to_vec();
                    pa.push(Sexp::call("eids", eids));
                    out.push(Case { request: Sexp::call("points", pa), tags: tags.clone() });
                    out.push(Case { request: r, tags: tags.clone() });
                }
            }
        }
        out
    }
    fn eval(&self, request: &Sexp) -> Option<String> {
        let (h, args) = request.as_call()?;
        match h {
            "hints" => eval_hints(args),
            "points" => eval_points(args),
            "tag-cand" => eval_tag_cand(args),
            "prune-exec" => eval_exec("exec", args),
            _ => None,
        }
    }
    fn oracle(&self, evaluated: &[Evaluated]) -> Vec<OracleFailure> {
        let mut fails = vec![];
        let mut runs = 0usize;
        let mut total = PruneStats::default();
        for e in evaluated {
            let Some(("prune-exec", args)) = e.request.as_call() else { continue };
            let Ok(Some(Ok(l))) = guarded(|| load5(args)) else { continue };
            let v = prune_verdict(&l);
            runs += 1;
            total.static_dropped += v.stats.static_dropped;
            total.mandatory_dropped += v.stats.mandatory_dropped;
            total.dynamic_dropped += v.stats.dynamic_dropped;
            total.lookahead_dropped += v.stats.lookahead_dropped;
            total.dynamic_resolutions += v.stats.dynamic_resolutions;
            let mut seen = BTreeSet::new();
            for (key, detail) in v.failures {
                if seen.insert(key.clone()) {
                    fails.push(OracleFailure { key, detail: format!("{detail} | query: {}", l.text), requests: vec![e.line.clone()] });
                }
            }
        }
        *self.totals.borrow_mut() = (runs, total);
        fails
    }
    fn post_tags(&self, e: &Evaluated) -> Vec<String> {
        let Some(("prune-exec", args)) = e.request.as_call() else { return vec![] };
        let Ok(Some(Ok(l))) = guarded(|| load5(args)) else { return vec![] };
        let mut t = vec![];
        if let Ok((_, st)) = guarded(|| run_pruned(&l, PruneMode { dynamic: true, lookahead: false })) {
            if st.static_dropped > 0 {
                t.push("nt:dropped-static".to_string());
            }
            if st.mandatory_dropped > 0 {
                t.push("nt:dropped-mandatory".to_string());
            }
            if st.dynamic_dropped > 0 {
                t.push("nt:dropped-dynamic".to_string());
            }
            if st.dynamic_resolutions > 0 {
                t.push("nt:dynamic-resolved".to_string());
            }
        }
        t
    }
    fn extra_stats(&self, _evaluated: &[Evaluated]) -> serde_json::Value {
        let (runs, t) = self.totals.borrow().clone();
        serde_json::json!({"generator": self.stats.borrow().to_json(), "tag_only_variants": *self.variants.borrow(),
            "executions_pruned_in_3_modes": runs, "vertices_dropped_static": t.static_dropped, "vertices_dropped_mandatory": t.mandatory_dropped,
            "vertices_dropped_dynamic": t.dynamic_dropped, "vertices_dropped_lookahead": t.lookahead_dropped, "dynamic_resolution_stages": t.dynamic_resolutions})
    }
}

fn main() {
    main_for(vec![Box::new(C05::default()), Box::new(C04::default())]);
}
