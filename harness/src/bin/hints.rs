//! Hints group: C05 (required-properties hints list every property the engine requests) and
//! C04 (pruning data with the query hints never changes results).
#[path = "../engine/mod.rs"]
#[allow(dead_code)]
mod engine;

use std::cell::RefCell;
use std::collections::{BTreeMap, BTreeSet};
use std::rc::Rc;
use std::sync::Arc;

use trustfall_core::interpreter::execution::interpret_ir;
use trustfall_core::interpreter::{
    Adapter, AsVertex, ContextIterator, ContextOutcomeIterator, EdgeInfo, ResolveEdgeInfo, ResolveInfo, VertexInfo,
    VertexIterator,
};
use trustfall_core::ir::{Argument, EdgeParameters, FieldRef, FieldValue, IRQuery, IRQueryComponent};

use crate::engine::adapter::{CallKind, Info, TableAdapter, Vtx};
use crate::engine::common::*;
use crate::engine::data_gen::DataTable;
use crate::engine::ir_sexp::{ir_to_sexp, op_parts, vid_num};
use crate::engine::run::{Answer, args_error_names, compile, execute, load_schema, prepare, real_args};
use crate::engine::query_gen::{Dir, Field, GenQuery, Node};
use crate::engine::worlds::{GenStats, World, WorldKnobs, compile_query};
use tfharness::framework::*;
use tfharness::rng::Rng;
use tfharness::sexp::{Sexp, hex, unhex};


// ------------------------------------------------------------------------------------------------
// a thin wrapper adapter: one callback per adapter call (with the call's hint object), no event log

type OnCall = Rc<dyn Fn(CallKind, Option<&str>, &str, Info<'_>)>;

struct Watch {
    inner: TableAdapter,
    on_call: OnCall,
}

impl Adapter<'static> for Watch {
    type Vertex = Vtx;

    fn resolve_starting_vertices(
        &self,
        edge_name: &Arc<str>,
        parameters: &EdgeParameters,
        resolve_info: &ResolveInfo,
    ) -> VertexIterator<'static, Self::Vertex> {
        (self.on_call)(CallKind::Start, None, edge_name, Info::Vertex(resolve_info));
        self.inner.resolve_starting_vertices(edge_name, parameters, resolve_info)
    }

    fn resolve_property<V: AsVertex<Self::Vertex> + 'static>(
        &self,
        contexts: ContextIterator<'static, V>,
        type_name: &Arc<str>,
        property_name: &Arc<str>,
        resolve_info: &ResolveInfo,
    ) -> ContextOutcomeIterator<'static, V, FieldValue> {
        (self.on_call)(CallKind::Property, Some(type_name), property_name, Info::Vertex(resolve_info));
        self.inner.resolve_property(contexts, type_name, property_name, resolve_info)
    }

    fn resolve_neighbors<V: AsVertex<Self::Vertex> + 'static>(
        &self,
        contexts: ContextIterator<'static, V>,
        type_name: &Arc<str>,
        edge_name: &Arc<str>,
        parameters: &EdgeParameters,
        resolve_info: &ResolveEdgeInfo,
    ) -> ContextOutcomeIterator<'static, V, VertexIterator<'static, Self::Vertex>> {
        (self.on_call)(CallKind::Neighbors, Some(type_name), edge_name, Info::Edge(resolve_info));
        self.inner.resolve_neighbors(contexts, type_name, edge_name, parameters, resolve_info)
    }

    fn resolve_coercion<V: AsVertex<Self::Vertex> + 'static>(
        &self,
        contexts: ContextIterator<'static, V>,
        type_name: &Arc<str>,
        coerce_to_type: &Arc<str>,
        resolve_info: &ResolveInfo,
    ) -> ContextOutcomeIterator<'static, V, bool> {
        (self.on_call)(CallKind::Coercion, Some(type_name), coerce_to_type, Info::Vertex(resolve_info));
        self.inner.resolve_coercion(contexts, type_name, coerce_to_type, resolve_info)
    }
}

// ------------------------------------------------------------------------------------------------
// worlds of the hints group: the C01 worlds + "tag-only" variants of their queries

fn count_outputs(n: &Node) -> usize {
    n.fields
        .iter()
        .map(|f| match f {
            Field::Prop { dirs, .. } => dirs.iter().filter(|d| matches!(d, Dir::Output(_))).count(),
            Field::Edge { node, kind, .. } => {
                count_outputs(node)
                    + match kind {
                        crate::engine::query_gen::Kind::Fold(fd) => {
                            fd.iter().filter(|d| matches!(d, crate::engine::query_gen::FDir::CountOutput(_))).count()
                        }
                        _ => 0,
                    }
            }
        })
        .sum()
}

/// Drop `@output` from properties that carry a `@tag` and no `@filter` (each with p = 2/3), as long as
/// the query keeps at least one output. The generator itself always outputs or filters a tagged
/// property, which hides the tag-specific part of `required_properties`.
fn strip_tag_outputs(n: &mut Node, rng: &mut Rng, budget: &mut usize, changed: &mut bool) {
    for f in n.fields.iter_mut() {
        match f {
            Field::Prop { dirs, .. } => {
                let tagged = dirs.iter().any(|d| matches!(d, Dir::Tag(_)));
                let filtered = dirs.iter().any(|d| matches!(d, Dir::Filter(..)));
                let outs = dirs.iter().filter(|d| matches!(d, Dir::Output(_))).count();
                if tagged && !filtered && outs > 0 && *budget > outs && rng.chance(2, 3) {
                    dirs.retain(|d| !matches!(d, Dir::Output(_)));
                    *budget -= outs;
                    *changed = true;
                }
            }
            Field::Edge { node, .. } => strip_tag_outputs(node, rng, budget, changed),
        }
    }
}

/// The worlds of C01 for this tier and seed, each accepted query followed (when it has a tagged,
/// unfiltered, output property) by its tag-only variant, compiled by the real frontend.
fn hint_worlds(tier: Tier, rng: &mut Rng) -> (Vec<World>, GenStats, usize) {
    let (mut worlds, stats) = generate_worlds(rng, &WorldKnobs::for_tier(tier));
    let mut variants = 0usize;
    for w in worlds.iter_mut() {
        let mut extra = vec![];
        for q in w.queries.iter().filter(|q| q.compiled.is_ok()) {
            let mut query = q.gq.query.clone();
            let mut budget = count_outputs(&query.node);
            let mut changed = false;
            strip_tag_outputs(&mut query.node, rng, &mut budget, &mut changed);
            if !changed {
                continue;
            }
            let mut features = q.gq.features.clone();
            features.insert("tag-only".to_string());
            let text = query.to_graphql();
            let gq = GenQuery { query, text, args: q.gq.args.clone(), features };
            let wq = compile_query(&w.schema, &w.real, gq);
            if wq.compiled.is_ok() {
                variants += 1;
                extra.push(wq);
            }
        }
        w.queries.extend(extra);
    }
    (worlds, stats, variants)
}

// ------------------------------------------------------------------------------------------------
// C05 — required-properties hints list every property the engine will request

fn required_names<V: VertexInfo>(info: &V) -> Vec<String> {
    info.required_properties().map(|r| r.name.to_string()).collect()
}

/// Walk the whole query from the hint object of `comp`'s vertex `info.vid()` through
/// `edges_with_name(..)` / `EdgeInfo::destination()` and record `required_properties()` of every Vid.
fn walk_required<V: VertexInfo>(info: &V, comp: &IRQueryComponent, out: &mut BTreeMap<u64, Vec<String>>) {
    let vid = info.vid();
    out.insert(vid_num(vid), required_names(info));
    let mut names: Vec<Arc<str>> = vec![];
    for e in comp.edges.values() {
        if e.from_vid == vid && !names.contains(&e.edge_name) {
            names.push(e.edge_name.clone());
        }
    }
    for f in comp.folds.values() {
        if f.from_vid == vid && !names.contains(&f.edge_name) {
            names.push(f.edge_name.clone());
        }
    }
    for name in names {
        let infos: Vec<EdgeInfo> = info.edges_with_name(&name).collect();
        for ei in infos {
            let eid = ei.eid();
            let sub: &IRQueryComponent = match comp.folds.get(&eid) {
                Some(fold) => &fold.component,
                None => comp,
            };
            walk_required(ei.destination(), sub, out);
        }
    }
}

fn render_required(m: &BTreeMap<u64, Vec<String>>) -> String {
    let mut s = String::from("(req");
    for (vid, props) in m {
        s.push_str(&format!(" ({vid}"));
        for p in props {
            s.push(' ');
            s.push_str(p);
        }
        s.push(')');
    }
    s.push(')');
    s
}

/// `(required <schema> <query text hex> <ir> <args>)` → `(req (<vid> <prop>…)…)`.
/// The hint object of the root vertex is the `ResolveInfo` the engine hands to
/// `resolve_starting_vertices`; every other Vid is reached from it by navigation.
fn eval_required(args: &[Sexp]) -> Option<String> {
    let [schema, text, ir, qargs] = args else { return None };
    let text = String::from_utf8(unhex(text.as_atom()?)?).ok()?;
    let qargs = crate::engine::ir_sexp::args_from_sexp(qargs)?;
    let schema = load_schema(schema)?;
    let q = match compile(&schema.real, &text) {
        Err(names) => return Some(Answer::FrontendErr(names).render()),
        Ok(q) => q,
    };
    if ir_to_sexp(&q.ir_query) != *ir {
        return Some("(ir-mismatch)".to_string());
    }
    let captured: Rc<RefCell<Option<String>>> = Rc::new(RefCell::new(None));
    let cap = captured.clone();
    let irq: IRQuery = q.ir_query.clone();
    let on_call: OnCall = Rc::new(move |kind, _ty, _name, info: Info<'_>| {
        if kind != CallKind::Start {
            return;
        }
        if let Info::Vertex(ri) = info {
            let mut out = BTreeMap::new();
            walk_required(ri, &irq.root_component, &mut out);
            *cap.borrow_mut() = Some(render_required(&out));
        }
    });
    let adapter = Watch { inner: TableAdapter::new(&schema.gen_schema, DataTable::default()), on_call };
    // building the pipeline may panic on known C09 defects (F-4); the capture happens before that
    let res = guarded(|| interpret_ir(Arc::new(adapter), q.clone(), real_args(&qargs)).map(|_| ()));
    if let Ok(Err(e)) = &res {
        return Some(Answer::ArgsErr(args_error_names(e)).render());
    }
    let out = captured.borrow().clone();
    Some(out.unwrap_or_else(|| "(no-start-call)".to_string()))
}

/// One violated check inside a real `resolve_property` call.
#[derive(Debug, Clone)]
struct ReqViolation {
    key: String,
    detail: String,
}

/// The `(vid, property)` pairs the engine resolves because of an imported context-field tag or a
/// context-field tag operand of a fold-count filter (the call-site class of finding F-3).
fn imported_tag_sites(comp: &IRQueryComponent, out: &mut BTreeSet<(u64, String)>) {
    for fold in comp.folds.values() {
        for r in fold.imported_tags.iter() {
            if let FieldRef::ContextField(c) = r {
                out.insert((vid_num(c.vertex_id), c.field_name.to_string()));
            }
        }
        for f in fold.post_filters.iter() {
            if let Some(Argument::Tag(FieldRef::ContextField(c))) = op_parts(f).2 {
                out.insert((vid_num(c.vertex_id), c.field_name.to_string()));
            }
        }
        imported_tag_sites(&fold.component, out);
    }
}

/// Run one `(req-exec …)` request under the wrapper adapter that checks, inside every real
/// `resolve_property` call, that the property is in `resolve_info.required_properties()`.
fn run_req(args: &[Sexp]) -> Option<Result<(String, Vec<ReqViolation>, usize), String>> {
    let r = parse_request(args)?;
    let p = prepare(r.schema, r.data, &r.text)?;
    let q = match &p.query {
        Err(names) => return Some(Err(Answer::FrontendErr(names.clone()).render())),
        Ok(q) => q.clone(),
    };
    if ir_to_sexp(&q.ir_query) != *r.fourth {
        return Some(Err("(ir-mismatch)".to_string()));
    }
    let violations: Rc<RefCell<Vec<ReqViolation>>> = Rc::new(RefCell::new(vec![]));
    let ncalls: Rc<RefCell<usize>> = Rc::new(RefCell::new(0));
    let nav: Rc<RefCell<BTreeMap<u64, Vec<String>>>> = Rc::new(RefCell::new(BTreeMap::new()));
    let mut imported = BTreeSet::new();
    imported_tag_sites(&q.ir_query.root_component, &mut imported);
    let (v1, n1, nav1) = (violations.clone(), ncalls.clone(), nav.clone());
    let irq: IRQuery = q.ir_query.clone();
    let on_call: OnCall = Rc::new(move |kind, type_name, name, info: Info<'_>| match (kind, info) {
        (CallKind::Start, Info::Vertex(ri)) => {
            let mut out = BTreeMap::new();
            walk_required(ri, &irq.root_component, &mut out);
            *nav1.borrow_mut() = out;
        }
        (CallKind::Property, Info::Vertex(ri)) => {
            *n1.borrow_mut() += 1;
            let vid = vid_num(ri.vid());
            let list = required_names(ri);
            if !list.iter().any(|p| p == name) {
                let class = if imported.contains(&(vid, name.to_string())) { "imported-tag" } else { "other" };
                v1.borrow_mut().push(ReqViolation {
                    key: format!("property-not-required:{class}"),
                    detail: format!(
                        "resolve_property({}.{name}) at vid {vid}: required_properties() = {list:?}",
                        type_name.unwrap_or("?")
                    ),
                });
            }
            // the list seen by the call = the list reached by navigation from the root
            if let Some(navlist) = nav1.borrow().get(&vid) {
                if *navlist != list {
                    v1.borrow_mut().push(ReqViolation {
                        key: "required-list-differs-between-hint-objects".into(),
                        detail: format!("vid {vid}: ResolveInfo {list:?} vs NeighborInfo {navlist:?}"),
                    });
                }
            }
        }
        _ => {}
    });
    let adapter = Watch { inner: p.adapter(), on_call };
    let answer = execute(Arc::new(adapter), q, &r.args);
    if let Answer::ArgsErr(_) = answer {
        return Some(Err(answer.render()));
    }
    let v = violations.borrow().clone();
    let n = *ncalls.borrow();
    Some(Ok((answer.render(), v, n)))
}

#[derive(Default)]
pub struct C05 {
    stats: RefCell<GenStats>,
    variants: RefCell<usize>,
    checked: RefCell<(usize, usize)>,
}

impl Prop for C05 {
    fn id(&self) -> &'static str {
        "C05"
    }
    fn rule(&self) -> &'static str {
        "the worlds of C01 (same generator: schemas x 2 datasets x ~10 type-directed queries with plain/optional/fold/recurse edges, coercions, filters with variable and tag operands incl. tags imported into (nested) folds, fold-count tags/filters/outputs). Per accepted query one (required <schema> <query> <ir> <args>) request: required_properties() of EVERY Vid of the query, obtained on the implementation from the ResolveInfo handed to resolve_starting_vertices and, for the other Vids, by navigating edges_with_name(..).destination() from it (model: requiredProps); per accepted (query, dataset) one (req-exec ...) request answered with the rows (model: Interp). Oracle on the implementation: inside every real resolve_property call the property must be in resolve_info.required_properties() (failure property-not-required:<imported-tag|other>), and that list must equal the list reached by navigation for the same Vid. A case is non-trivial (nt:<feature>) when the query has a tag (local / earlier vertex / from an optional scope / imported into a fold / nested import), a fold-count filter or tag, or an output inside a fold; req-exec cases additionally must return at least one row."
    }
    fn generate(&self, tier: Tier, rng: &mut Rng) -> Vec<Case> {
        let (worlds, stats, variants) = hint_worlds(tier, rng);
        *self.stats.borrow_mut() = stats;
        *self.variants.borrow_mut() = variants;
        let mut out = vec![];
        for w in &worlds {
            for q in w.accepted() {
                let tags = feature_tags(&q.gq.features);
                let Some(ir) = q.ir.clone() else { continue };
                let text = Sexp::atom(hex(q.gq.text.as_bytes()));
                out.push(Case {
                    request: Sexp::call(
                        "required",
                        vec![w.schema_sexp.clone(), text, ir, crate::engine::ir_sexp::args_to_sexp(&q.gq.args)],
                    ),
                    tags: tags.clone(),
                });
                for d in 0..w.datasets.len() {
                    if let Some(r) = w.request("req-exec", d, q) {
                        out.push(Case { request: r, tags: tags.clone() });
                    }
                }
            }
        }
        out
    }
    fn eval(&self, request: &Sexp) -> Option<String> {
        let (h, args) = request.as_call()?;
        match h {
            "required" => eval_required(args),
            // authoring aid for corpus lines (not a protocol request): the rendering of the real IR
            "ir-of" => {
                let [schema, text] = args else { return None };
                let text = String::from_utf8(unhex(text.as_atom()?)?).ok()?;
                let schema = load_schema(schema)?;
                Some(match compile(&schema.real, &text) {
                    Err(names) => Answer::FrontendErr(names).render(),
                    Ok(q) => ir_to_sexp(&q.ir_query).to_string(),
                })
            }
            "req-exec" => Some(match run_req(args)? {
                Ok((rows, _, _)) => rows,
                Err(answer) => answer,
            }),
            _ => None,
        }
    }
    fn oracle(&self, evaluated: &[Evaluated]) -> Vec<OracleFailure> {
        // panics of accepted queries are C09's business (known defects F-4, F-5, F-9, F-10): not reported here
        let mut fails = vec![];
        let (mut runs, mut calls) = (0usize, 0usize);
        for e in evaluated {
            let Some(("req-exec", args)) = e.request.as_call() else { continue };
            match guarded(|| run_req(args)) {
                Ok(Some(Ok((_, violations, n)))) => {
                    runs += 1;
                    calls += n;
                    let mut seen = BTreeSet::new();
                    for v in violations {
                        if seen.insert(v.key.clone()) {
                            let text = parse_request(args).map(|r| r.text).unwrap_or_default();
                            fails.push(OracleFailure {
                                key: v.key,
                                detail: format!("{} | query: {text}", v.detail),
                                requests: vec![e.line.clone()],
                            });
                        }
                    }
                }
                _ => continue,
            }
        }
        *self.checked.borrow_mut() = (runs, calls);
        fails
    }
    fn post_tags(&self, e: &Evaluated) -> Vec<String> {
        let is_exec = matches!(e.request.as_call(), Some(("req-exec", _)));
        if is_exec && !e.answer.starts_with("(rows (row") {
            return vec![];
        }
        ["tag-only", "tag-local", "tag-earlier", "tag-from-opt", "tag-import", "tag-import-nested", "count-tag", "count-filter", "output-in-fold", "output-in-nested-fold"]
            .iter()
            .filter(|f| e.tags.iter().any(|t| t == *f))
            .map(|f| format!("nt:{f}"))
            .collect()
    }
    fn extra_stats(&self, _evaluated: &[Evaluated]) -> serde_json::Value {
        let (runs, calls) = *self.checked.borrow();
        serde_json::json!({"generator": self.stats.borrow().to_json(), "tag_only_variants": *self.variants.borrow(), "executions_checked": runs, "resolve_property_calls_checked": calls})
    }
}

fn main() {
    main_for(vec![Box::new(C05::default())]);
}
