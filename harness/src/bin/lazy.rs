//! C03 — laziness: rows are produced on demand; the number of starting vertices pulled when the k-th
//! row is handed out is exactly the model's demand (`Lazy.pullsFor`), nothing is pulled before the
//! first request, and nothing is pulled after the result iterator is dropped.
#[path = "../engine/mod.rs"]
#[allow(dead_code)]
mod engine;

use std::cell::{Cell, RefCell};
use std::rc::Rc;
use std::sync::Arc;

use trustfall_core::interpreter::execution::interpret_ir;
use trustfall_core::interpreter::{
    Adapter, AsVertex, ContextIterator, ContextOutcomeIterator, ResolveEdgeInfo, ResolveInfo, VertexIterator,
};
use trustfall_core::ir::{EdgeParameters, FieldValue};

use crate::engine::adapter::{TableAdapter, Vtx};
use crate::engine::common::*;
use crate::engine::ir_sexp::ir_to_sexp;
use crate::engine::run::{Answer, args_error_names, prepare, real_args};
use crate::engine::worlds::{GenStats, WorldKnobs};
use tfharness::framework::*;
use tfharness::rng::Rng;
use tfharness::sexp::Sexp;

/// Table adapter whose starting-vertex iterator counts how many vertices have been pulled out of it.
struct CountingAdapter {
    inner: TableAdapter,
    pulled: Rc<Cell<usize>>,
    /// number of times the starting iterator reported exhaustion
    start_calls: Rc<Cell<usize>>,
}

impl Adapter<'static> for CountingAdapter {
    type Vertex = Vtx;

    fn resolve_starting_vertices(
        &self,
        edge_name: &Arc<str>,
        parameters: &EdgeParameters,
        resolve_info: &ResolveInfo,
    ) -> VertexIterator<'static, Self::Vertex> {
        self.start_calls.set(self.start_calls.get() + 1);
        let pulled = self.pulled.clone();
        Box::new(self.inner.resolve_starting_vertices(edge_name, parameters, resolve_info).inspect(move |_| {
            pulled.set(pulled.get() + 1);
        }))
    }

    fn resolve_property<V: AsVertex<Self::Vertex> + 'static>(
        &self,
        contexts: ContextIterator<'static, V>,
        type_name: &Arc<str>,
        property_name: &Arc<str>,
        resolve_info: &ResolveInfo,
    ) -> ContextOutcomeIterator<'static, V, FieldValue> {
        self.inner.resolve_property(contexts, type_name, property_name, resolve_info)
    }

    fn resolve_neighbors<V: AsVertex<Self::Vertex> + 'static>(
        &self,
        contexts: ContextIterator<'static, V>,
        type_name: &Arc<str>,
        edge_name: &Arc<str>,
        parameters: &EdgeParameters,
        resolve_info: &ResolveEdgeInfo,
    ) -> ContextOutcomeIterator<'static, V, VertexIterator<'static, Self::Vertex>> {
        self.inner.resolve_neighbors(contexts, type_name, edge_name, parameters, resolve_info)
    }

    fn resolve_coercion<V: AsVertex<Self::Vertex> + 'static>(
        &self,
        contexts: ContextIterator<'static, V>,
        type_name: &Arc<str>,
        coerce_to_type: &Arc<str>,
        resolve_info: &ResolveInfo,
    ) -> ContextOutcomeIterator<'static, V, bool> {
        self.inner.resolve_coercion(contexts, type_name, coerce_to_type, resolve_info)
    }
}

/// What one observed run shows.
struct Demand {
    /// counter after `interpret_ir` returned, before the first `next()`
    before_first: usize,
    /// counter right after the k-th row was handed out (k = 1..)
    pulls: Vec<usize>,
    /// counter right after the iterator was dropped (or exhausted and dropped)
    after_drop: usize,
    /// starting vertices listed in the request
    n_starts: usize,
}

/// Run the request, taking at most `limit` rows (`None` = until exhaustion), then drop the iterator.
/// `Err` = the answer to give instead (frontend / argument error, stale IR).
fn observe(args: &[Sexp], limit: Option<usize>) -> Option<Result<Demand, String>> {
    let r = parse_request(args)?;
    let p = prepare(r.schema, r.data, &r.text)?;
    let q = match &p.query {
        Err(names) => return Some(Err(Answer::FrontendErr(names.clone()).render())),
        Ok(q) => q.clone(),
    };
    if ir_to_sexp(&q.ir_query) != *r.fourth {
        return Some(Err("(ir-mismatch)".to_string()));
    }
    let n_starts = p.table.starts.values().map(|v| v.len()).sum();
    let pulled = Rc::new(Cell::new(0usize));
    let adapter = CountingAdapter { inner: p.adapter(), pulled: pulled.clone(), start_calls: Rc::new(Cell::new(0)) };
    let mut rows = match interpret_ir(Arc::new(adapter), q, real_args(&r.args)) {
        Err(e) => return Some(Err(Answer::ArgsErr(args_error_names(&e)).render())),
        Ok(rows) => rows,
    };
    let before_first = pulled.get();
    let mut pulls = vec![];
    while limit.is_none_or(|l| pulls.len() < l) {
        match rows.next() {
            Some(_) => pulls.push(pulled.get()),
            None => break,
        }
    }
    drop(rows);
    let after_drop = pulled.get();
    Some(Ok(Demand { before_first, pulls, after_drop, n_starts }))
}

/// Independent demand, from the implementation alone: the query is run once per listed starting vertex
/// (a table whose only starting vertex is that one), which gives the number of rows each starting
/// vertex contributes; row k of the full run then comes from the first starting vertex whose cumulative
/// row count reaches k, and that 1-based position is what the pull counter must show after row k.
/// `None` = not applicable (frontend / argument error, stale IR).
fn start_blocks(args: &[Sexp]) -> Option<Vec<usize>> {
    let r = parse_request(args)?;
    let p = prepare(r.schema, r.data, &r.text)?;
    let q = p.query.as_ref().ok()?.clone();
    if p.table.starts.len() != 1 {
        return None;
    }
    let (key, starts) = p.table.starts.iter().next().map(|(k, v)| (k.clone(), v.clone()))?;
    let mut blocks = vec![];
    for v in starts {
        let mut table = p.table.clone();
        table.starts.insert(key.clone(), vec![v]);
        let adapter = TableAdapter::new(&p.schema.gen_schema, table);
        let rows = interpret_ir(Arc::new(adapter), q.clone(), real_args(&r.args)).ok()?;
        blocks.push(rows.count());
    }
    Some(blocks)
}

fn render_pulls(p: &[usize]) -> String {
    format!("(pulls{})", p.iter().map(|x| format!(" {x}")).collect::<String>())
}

#[derive(Default)]
pub struct C03 {
    stats: RefCell<GenStats>,
    checked: RefCell<(usize, usize, usize)>,
}

impl Prop for C03 {
    fn id(&self) -> &'static str {
        "C03"
    }
    fn rule(&self) -> &'static str {
        "the worlds of the engine generator (schemas x 2 datasets x ~10 accepted queries per seed). Each (schema, dataset, query, args) is sent as (demand ...): the implementation runs interpret_ir over a table adapter whose starting-vertex iterator counts how many vertices were pulled, and answers (pulls p1 ... pK) = the counter right after each of the K rows was handed out (model = Lazy.pullsFor over the per-start-vertex row blocks of Interp). Oracle on the implementation: the counter is 0 after interpret_ir returns and before the first next() (pulled-before-first-request); p is monotone (pulls-not-monotone) and p_K <= number of starting vertices (pulled-more-than-exist); the query is also run over each listed starting vertex alone, which gives the number of rows each one contributes, and p_k must be exactly the position of the starting vertex that contributes row k (pulled-beyond-contributing-start / pulled-less-than-contributing-start; rows-differ-from-start-blocks when the full run is not the concatenation of those blocks); for prefixes k in {0, 1, K/2} a fresh run that takes k rows and drops the iterator shows the same counter as the full run at row k and the counter does not move by dropping (pulls-after-drop / prefix-run-differs). The generator appends its DIRECTED tagged-regex worlds (quick 4, thorough 40 worlds x 2 datasets x 8 queries; engine/tagged_regex.rs): a regex / not_regex filter whose operand is a @tag, on the same vertex / a neighbour / inside @optional / inside a (nested) @fold, over datasets whose tagged String values come in runs of equal values (valid patterns, invalid patterns, null) over consecutive STARTING vertices - the shape on which a filter that batches or looks ahead over equal tag values pulls starting vertices beyond the one that contributes the row (nt:tagged-regex-stream: such a query over >= 2 starting vertices). A case is non-trivial (nt:multi-start) when the dataset lists >= 2 starting vertices for the query's root edge and the query returns >= 1 row; nt:early-row when additionally the first row is handed out before all starting vertices were pulled."
    }
    fn generate(&self, tier: Tier, rng: &mut Rng) -> Vec<Case> {
        let (worlds, stats) = generate_worlds(rng, &WorldKnobs::for_tier(tier));
        *self.stats.borrow_mut() = stats;
        let mut out = vec![];
        for w in &worlds {
            for q in w.accepted() {
                let tags = feature_tags(&q.gq.features);
                for d in 0..w.datasets.len() {
                    if let Some(r) = w.request("demand", d, q) {
                        out.push(Case { request: r, tags: tags.clone() });
                    }
                }
            }
        }
        out
    }
    fn eval(&self, request: &Sexp) -> Option<String> {
        let (h, args) = request.as_call()?;
        match h {
            "demand" => Some(match observe(args, None)? {
                Ok(d) => render_pulls(&d.pulls),
                Err(answer) => answer,
            }),
            "exec" | "spec-exec" => eval_exec(h, args),
            _ => None,
        }
    }
    fn oracle(&self, evaluated: &[Evaluated]) -> Vec<OracleFailure> {
        // panics of known-defective queries are C09's business: both sides answer `panic` here
        let mut fails = vec![];
        let (mut runs, mut prefix_runs, mut block_runs) = (0usize, 0usize, 0usize);
        for e in evaluated {
            let Some(("demand", args)) = e.request.as_call() else { continue };
            if e.panic_info.is_some() {
                continue;
            }
            let mut fail = |key: &str, detail: String| {
                let text = parse_request(args).map(|r| r.text).unwrap_or_default();
                fails.push(OracleFailure { key: key.to_string(), detail: format!("{detail} | query: {text}"), requests: vec![e.line.clone()] });
            };
            let Ok(Some(Ok(full))) = guarded(|| observe(args, None)) else { continue };
            runs += 1;
            if full.before_first != 0 {
                fail("pulled-before-first-request", format!("{} starting vertices pulled before the first next()", full.before_first));
            }
            if full.pulls.windows(2).any(|w| w[0] > w[1]) {
                fail("pulls-not-monotone", render_pulls(&full.pulls));
            }
            if full.pulls.last().is_some_and(|p| *p > full.n_starts) || full.after_drop > full.n_starts {
                fail("pulled-more-than-exist", format!("{} of {} | after exhaustion {}", render_pulls(&full.pulls), full.n_starts, full.after_drop));
            }
            if render_pulls(&full.pulls) != e.answer {
                fail("rerun-differs", format!("first {} second {}", e.answer, render_pulls(&full.pulls)));
            }
            // exact demand against the per-starting-vertex blocks measured on the implementation itself
            if let Ok(Some(blocks)) = guarded(|| start_blocks(args)) {
                block_runs += blocks.len();
                let expected: Vec<usize> = blocks.iter().enumerate().flat_map(|(i, b)| std::iter::repeat_n(i + 1, *b)).collect();
                if expected.len() != full.pulls.len() {
                    fail(
                        "rows-differ-from-start-blocks",
                        format!("{} rows in the full run, {} in the runs over one starting vertex each (blocks {blocks:?})", full.pulls.len(), expected.len()),
                    );
                } else if let Some(k) = (0..expected.len()).find(|k| full.pulls[*k] != expected[*k]) {
                    fail(
                        if full.pulls[k] > expected[k] { "pulled-beyond-contributing-start" } else { "pulled-less-than-contributing-start" },
                        format!(
                            "row {} comes from starting vertex #{} but {} starting vertices had been pulled when it was handed out | observed {} | expected {} | rows per starting vertex {blocks:?}",
                            k + 1,
                            expected[k],
                            full.pulls[k],
                            render_pulls(&full.pulls),
                            render_pulls(&expected)
                        ),
                    );
                }
            }
            let k_total = full.pulls.len();
            let mut prefixes = vec![0usize, 1, k_total / 2];
            prefixes.retain(|k| *k <= k_total);
            prefixes.dedup();
            for k in prefixes {
                let Ok(Some(Ok(part))) = guarded(|| observe(args, Some(k))) else {
                    fail("prefix-run-panicked", format!("k = {k}"));
                    continue;
                };
                prefix_runs += 1;
                let expected = if k == 0 { 0 } else { full.pulls[k - 1] };
                let at_k = part.pulls.last().copied().unwrap_or(part.before_first);
                if part.pulls.len() != k || at_k != expected {
                    fail("prefix-run-differs", format!("k = {k}: full run {expected}, prefix run {at_k} ({} rows)", part.pulls.len()));
                }
                if part.after_drop != at_k {
                    fail("pulls-after-drop", format!("k = {k}: {at_k} before the drop, {} after", part.after_drop));
                }
            }
        }
        *self.checked.borrow_mut() = (runs, prefix_runs, block_runs);
        fails
    }
    fn post_tags(&self, e: &Evaluated) -> Vec<String> {
        let mut t = vec![];
        let Some(("demand", args)) = e.request.as_call() else { return t };
        let n_starts = args
            .get(1)
            .and_then(engine::data_gen::DataTable::from_sexp)
            .map(|d| d.starts.values().map(|v| v.len()).sum::<usize>())
            .unwrap_or(0);
        t.push(format!("starts:{}", n_starts.min(4)));
        if let Some(rest) = e.answer.strip_prefix("(pulls") {
            let pulls: Vec<usize> = rest.trim_end_matches(')').split_whitespace().filter_map(|x| x.parse().ok()).collect();
            t.push(if pulls.is_empty() { "rows:0".into() } else { "rows:>0".into() });
            if n_starts >= 2 && !pulls.is_empty() {
                t.push("nt:multi-start".into());
                if pulls[0] < n_starts {
                    t.push("nt:early-row".into());
                }
            }
            // directed family: a tagged regex filter over runs of equal / valid / invalid tag values
            // spanning several starting vertices
            if n_starts >= 2 && e.tags.iter().any(|t| t == engine::tagged_regex::FEATURE) {
                t.push(format!("nt:{}", engine::tagged_regex::FEATURE));
            }
        } else {
            t.push(format!("answer:{}", e.answer.chars().take(12).collect::<String>()));
        }
        t
    }
    fn extra_stats(&self, _evaluated: &[Evaluated]) -> serde_json::Value {
        let (runs, prefix_runs, block_runs) = *self.checked.borrow();
        serde_json::json!({"generator": self.stats.borrow().to_json(), "full_runs_checked": runs, "prefix_runs_checked": prefix_runs, "single_start_runs_checked": block_runs})
    }
}

fn main() {
    main_for(vec![Box::new(C03::default())]);
}
