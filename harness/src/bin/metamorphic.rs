//! C23 — query transformations with known effects change results exactly as predicted.
//!
//! For every generated, accepted query the transformations of `lean/TrustfallModel/Model/Transform.lean`
//! are applied on the generator's own query tree (the same AST the Lean `Spec` reads); both queries run
//! on the real engine and the relation proved on `Spec.rows` (`Props/C23.lean`) is checked on the
//! engine's rows.  Every query — original and transformed — is sent as a `(spec-exec …)` request, so the
//! transformed queries are also compared with the Lean `Spec` by `./check`.
//!
//! A transformed request is tied to the request(s) it is related to by a GraphQL comment in front of
//! its query text:
//!   `# c23 key=<oracle key> rel=<relation> left=<fnv64 of the left request line> [left2=<…>] [ren=a>b,…]`
//! (comments are ignored by the frontend and by the Lean driver), so that a replay file holding the
//! two or three request lines re-establishes the pairing.
#[path = "../engine/mod.rs"]
#[allow(dead_code)]
mod engine;

use std::cell::RefCell;
use std::collections::{BTreeMap, BTreeSet, HashMap};

use trustfall_core::ir::FieldValue;

use crate::engine::common::*;
use crate::engine::data_gen::{DataView, Dataset, gen_value, regex_pool, string_pool};
use crate::engine::ir_sexp::{args_to_sexp, data_view};
use crate::engine::query_gen::{Arg, Dir, FDir, Field, GenQuery, Kind, Node, Op, Query, QueryKnobs};
use crate::engine::schema_gen::GenSchema;
use crate::engine::worlds::{GenStats, Rejection, World, WorldKnobs, WorldQuery, compile_query};
use crate::engine::{Ty, params_sexp};
use tfharness::framework::*;
use tfharness::rng::Rng;
use tfharness::sexp::{Sexp, hex, unhex};

// ------------------------------------------------------------------------------------------------
// addressing nodes of the tree

#[derive(Debug, Clone)]
struct NodeSite {
    /// field indices from the root node, each selecting an edge field
    path: Vec<usize>,
    /// the type whose fields the node selects (after its coercion)
    ty: String,
    under_fold: bool,
    under_opt: bool,
}

fn walk(schema: &GenSchema, node: &Node, declared: &str, path: &mut Vec<usize>, under_fold: bool, under_opt: bool, out: &mut Vec<NodeSite>) {
    let ty = node.coerce_to.clone().unwrap_or_else(|| declared.to_string());
    out.push(NodeSite { path: path.clone(), ty: ty.clone(), under_fold, under_opt });
    for (i, f) in node.fields.iter().enumerate() {
        if let Field::Edge { name, kind, node: child, .. } = f {
            let Some(e) = schema.edge(&ty, name) else { continue };
            path.push(i);
            walk(
                schema,
                child,
                &e.target,
                path,
                under_fold || matches!(kind, Kind::Fold(_)),
                under_opt || matches!(kind, Kind::Optional),
                out,
            );
            path.pop();
        }
    }
}

fn node_sites(schema: &GenSchema, q: &Query) -> Vec<NodeSite> {
    let mut out = vec![];
    if let Some(r) = schema.root(&q.root) {
        walk(schema, &q.node, &r.target, &mut vec![], false, false, &mut out);
    }
    out
}

fn node_at<'a>(q: &'a Query, path: &[usize]) -> &'a Node {
    let mut n = &q.node;
    for i in path {
        match &n.fields[*i] {
            Field::Edge { node, .. } => n = node,
            _ => unreachable!("path through a property"),
        }
    }
    n
}

fn node_at_mut<'a>(q: &'a mut Query, path: &[usize]) -> &'a mut Node {
    let mut n = &mut q.node;
    for i in path {
        match &mut n.fields[*i] {
            Field::Edge { node, .. } => n = node,
            _ => unreachable!("path through a property"),
        }
    }
    n
}

fn for_each_node_mut(n: &mut Node, f: &mut dyn FnMut(&mut Node)) {
    f(n);
    for fld in &mut n.fields {
        if let Field::Edge { node, .. } = fld {
            for_each_node_mut(node, f);
        }
    }
}

fn for_each_node(n: &Node, f: &mut dyn FnMut(&Node)) {
    f(n);
    for fld in &n.fields {
        if let Field::Edge { node, .. } = fld {
            for_each_node(node, f);
        }
    }
}

fn subtree_has_count_filter(n: &Node) -> bool {
    let mut found = false;
    for_each_node(n, &mut |x| {
        for f in &x.fields {
            if let Field::Edge { kind: Kind::Fold(fds), .. } = f {
                if fds.iter().any(|d| matches!(d, FDir::CountFilter(..))) {
                    found = true;
                }
            }
        }
    });
    found
}


/// The shape that makes the engine truncate a fold to its first elements (`get_min_fold_count_limit`): a
/// fold whose count is filtered with `>=` / `>` against a variable. Known defects F-23 / F-29 live there;
/// requests of such queries get an `(exec …)` partner so that `./check` can classify a Spec mismatch as
/// `spec-mismatch:fold-limit-truncation`.
fn has_min_fold_trigger(q: &Query) -> bool {
    let mut found = false;
    for_each_node(&q.node, &mut |x| {
        for f in &x.fields {
            if let Field::Edge { kind: Kind::Fold(fds), .. } = f {
                if fds.iter().any(|d| matches!(d, FDir::CountFilter(Op::Ge | Op::Gt, Arg::Var(_)))) {
                    found = true;
                }
            }
        }
    });
    found
}

fn output_names(q: &Query) -> Vec<String> {
    let mut out = vec![];
    for_each_node(&q.node, &mut |x| {
        for f in &x.fields {
            match f {
                Field::Prop { dirs, .. } => {
                    for d in dirs {
                        if let Dir::Output(o) = d {
                            out.push(o.clone());
                        }
                    }
                }
                Field::Edge { kind: Kind::Fold(fds), .. } => {
                    for d in fds {
                        if let FDir::CountOutput(o) = d {
                            out.push(o.clone());
                        }
                    }
                }
                _ => {}
            }
        }
    });
    out
}

fn tag_names(q: &Query) -> Vec<String> {
    let mut out = vec![];
    for_each_node(&q.node, &mut |x| {
        for f in &x.fields {
            match f {
                Field::Prop { dirs, .. } => {
                    for d in dirs {
                        if let Dir::Tag(t) = d {
                            out.push(t.clone());
                        }
                    }
                }
                Field::Edge { kind: Kind::Fold(fds), .. } => {
                    for d in fds {
                        if let FDir::CountTag(t) = d {
                            out.push(t.clone());
                        }
                    }
                }
                _ => {}
            }
        }
    });
    out
}

// ------------------------------------------------------------------------------------------------
// the transformations (mirror of Model/Transform.lean)

/// `addFilter p j k op arg`
fn add_filter(q: &mut Query, path: &[usize], j: usize, k: usize, op: Op, arg: Arg) {
    if let Field::Prop { dirs, .. } = &mut node_at_mut(q, path).fields[j] {
        let k = k.min(dirs.len());
        dirs.insert(k, Dir::Filter(op, arg));
    }
}

/// `setRecurseDepth p j d`
fn set_recurse_depth(q: &mut Query, path: &[usize], j: usize, d: u32) {
    if let Field::Edge { kind, .. } = &mut node_at_mut(q, path).fields[j] {
        if let Kind::Recurse(x) = kind {
            *x = d;
        }
    }
}

/// `makeOptional p j`
fn make_optional(q: &mut Query, path: &[usize], j: usize) {
    if let Field::Edge { kind, .. } = &mut node_at_mut(q, path).fields[j] {
        if *kind == Kind::Plain {
            *kind = Kind::Optional;
        }
    }
}

/// `swapSiblings p j`
fn swap_siblings(q: &mut Query, path: &[usize], j: usize) {
    let n = node_at_mut(q, path);
    if j + 1 < n.fields.len() {
        n.fields.swap(j, j + 1);
    }
}

/// `renameOutputs σ` / `renameTags σ`
fn rename(q: &mut Query, outs: &BTreeMap<String, String>, tags: &BTreeMap<String, String>) {
    let o = |n: &mut String| {
        if let Some(x) = outs.get(n) {
            *n = x.clone();
        }
    };
    let t = |n: &mut String| {
        if let Some(x) = tags.get(n) {
            *n = x.clone();
        }
    };
    for_each_node_mut(&mut q.node, &mut |x| {
        for f in &mut x.fields {
            match f {
                Field::Prop { dirs, .. } => {
                    for d in dirs {
                        match d {
                            Dir::Output(n) => o(n),
                            Dir::Tag(n) => t(n),
                            Dir::Filter(_, Arg::Tag(n)) => t(n),
                            _ => {}
                        }
                    }
                }
                Field::Edge { kind: Kind::Fold(fds), .. } => {
                    for d in fds {
                        match d {
                            FDir::CountOutput(n) => o(n),
                            FDir::CountTag(n) => t(n),
                            FDir::CountFilter(_, Arg::Tag(n)) => t(n),
                            _ => {}
                        }
                    }
                }
                _ => {}
            }
        }
    });
}

/// `paramEdgeToFilter p j name' params' prop op arg` (the edge keeps its name here: `name' = name`)
fn param_edge_to_filter(q: &mut Query, path: &[usize], j: usize, params2: Vec<(String, FieldValue)>, prop: &str, op: Op, arg: Arg) {
    if let Field::Edge { params, kind, node, .. } = &mut node_at_mut(q, path).fields[j] {
        if matches!(kind, Kind::Plain | Kind::Fold(_)) {
            *params = params2;
            node.fields.insert(0, Field::Prop { name: prop.to_string(), dirs: vec![Dir::Filter(op, arg)] });
        }
    }
}

fn neg_op(op: Op) -> Option<Op> {
    use Op::*;
    Some(match op {
        IsNull => IsNotNull,
        IsNotNull => IsNull,
        Eq => Neq,
        Neq => Eq,
        Contains => NotContains,
        NotContains => Contains,
        OneOf => NotOneOf,
        NotOneOf => OneOf,
        HasPrefix => NotHasPrefix,
        NotHasPrefix => HasPrefix,
        HasSuffix => NotHasSuffix,
        NotHasSuffix => HasSuffix,
        HasSubstring => NotHasSubstring,
        NotHasSubstring => HasSubstring,
        Regex => NotRegex,
        NotRegex => Regex,
        Lt | Le | Gt | Ge => return None,
    })
}

// ------------------------------------------------------------------------------------------------
// building well-typed filters

/// values the property takes in the dataset on vertices of (a subtype of) `ty`
fn prop_values(schema: &GenSchema, ds: &Dataset, ty: &str, prop: &str) -> Vec<FieldValue> {
    ds.vertices
        .iter()
        .filter(|v| schema.is_subtype(&v.ty, ty))
        .filter_map(|v| {
            if prop == "__typename" {
                Some(FieldValue::from(v.ty.as_str()))
            } else {
                v.props.iter().find(|(p, _)| p == prop).map(|(_, x)| x.clone())
            }
        })
        .collect()
}

fn flip_repr(v: &FieldValue) -> FieldValue {
    match v {
        FieldValue::Int64(i) if *i >= 0 => FieldValue::Uint64(*i as u64),
        FieldValue::Uint64(u) if *u <= i64::MAX as u64 => FieldValue::Int64(*u as i64),
        FieldValue::List(l) => FieldValue::List(l.iter().map(flip_repr).collect::<Vec<_>>().into()),
        other => other.clone(),
    }
}

/// A value for a variable compared with the property: mostly one the property really takes (so that the
/// filter is neither always true nor always false), sometimes in the other integer representation.
fn operand_value(rng: &mut Rng, schema: &GenSchema, ds: &Dataset, ty: &str, prop: &str, pty: &Ty, nullable_ok: bool) -> FieldValue {
    let vals = prop_values(schema, ds, ty, prop);
    let mut v = if !vals.is_empty() && rng.chance(3, 4) { rng.pick(&vals).clone() } else { gen_value(rng, pty, prop) };
    if v == FieldValue::Null && !nullable_ok {
        v = gen_value(rng, &pty.with_nullable(false), prop);
    }
    if rng.chance(1, 2) { flip_repr(&v) } else { v }
}

struct NewFilter {
    op: Op,
    /// variable value (None for unary operators)
    value: Option<FieldValue>,
}

/// A filter that type-checks on a property of type `pty`. `negatable`: only operators with a complement.
fn gen_filter(rng: &mut Rng, schema: &GenSchema, ds: &Dataset, ty: &str, prop: &str, pty: &Ty, negatable: bool) -> NewFilter {
    use Op::*;
    let mut cats: Vec<&[Op]> = vec![&[Eq, Neq], &[Eq, Neq], &[OneOf, NotOneOf]];
    if pty.is_nullable() {
        cats.push(&[IsNull, IsNotNull]);
    }
    if !negatable && !pty.is_list() && matches!(pty.base.as_str(), "Int" | "Float" | "String") {
        cats.push(&[Lt, Le, Gt, Ge]);
        cats.push(&[Lt, Le, Gt, Ge]);
    }
    if pty.is_list() {
        cats.push(&[Contains, NotContains]);
    }
    if !pty.is_list() && pty.base == "String" {
        cats.push(&[HasPrefix, NotHasPrefix, HasSuffix, NotHasSuffix, HasSubstring, NotHasSubstring]);
        cats.push(&[Regex, NotRegex]);
    }
    let cat = cats[rng.below(cats.len())];
    let op = cat[rng.below(cat.len())];
    let value = match op {
        IsNull | IsNotNull => None,
        Eq | Neq => Some(operand_value(rng, schema, ds, ty, prop, pty, pty.is_nullable())),
        Lt | Le | Gt | Ge => Some(operand_value(rng, schema, ds, ty, prop, pty, false)),
        OneOf | NotOneOf => {
            let n = rng.below(3);
            let items: Vec<FieldValue> = (0..n).map(|_| operand_value(rng, schema, ds, ty, prop, pty, pty.is_nullable())).collect();
            Some(FieldValue::List(items.into()))
        }
        Contains | NotContains => {
            let elem = pty.elem().unwrap();
            let mut pool = vec![];
            for v in prop_values(schema, ds, ty, prop) {
                if let FieldValue::List(l) = v {
                    pool.extend(l.iter().cloned());
                }
            }
            let mut v = if !pool.is_empty() && rng.chance(3, 4) { rng.pick(&pool).clone() } else { gen_value(rng, &elem, prop) };
            if v == FieldValue::Null && !elem.is_nullable() {
                v = gen_value(rng, &elem.with_nullable(false), prop);
            }
            Some(v)
        }
        Regex | NotRegex => Some(FieldValue::from(*rng.pick(&regex_pool().0))),
        _ => Some(FieldValue::from(*rng.pick(&string_pool()))),
    };
    NewFilter { op, value }
}

// ------------------------------------------------------------------------------------------------
// requests

fn fnv64(s: &str) -> u64 {
    let mut h: u64 = 0xcbf2_9ce4_8422_2325;
    for b in s.as_bytes() {
        h ^= *b as u64;
        h = h.wrapping_mul(0x0000_0100_0000_01b3);
    }
    h
}

#[derive(Debug, Clone, Default)]
struct Link {
    key: String,
    rel: String,
    left: u64,
    left2: Option<u64>,
    ren: Vec<(String, String)>,
    kind: String,
}

impl Link {
    fn header(&self) -> String {
        let mut s = format!("# c23 kind={} key={} rel={} left={:016x}", self.kind, self.key, self.rel, self.left);
        if let Some(l2) = self.left2 {
            s.push_str(&format!(" left2={l2:016x}"));
        }
        if !self.ren.is_empty() {
            s.push_str(&format!(" ren={}", self.ren.iter().map(|(a, b)| format!("{a}>{b}")).collect::<Vec<_>>().join(",")));
        }
        s.push('\n');
        s
    }
    fn parse(text: &str) -> Option<Link> {
        let first = text.lines().next()?;
        let rest = first.strip_prefix("# c23 ")?;
        let mut l = Link::default();
        for part in rest.split_whitespace() {
            let (k, v) = part.split_once('=')?;
            match k {
                "kind" => l.kind = v.to_string(),
                "key" => l.key = v.to_string(),
                "rel" => l.rel = v.to_string(),
                "left" => l.left = u64::from_str_radix(v, 16).ok()?,
                "left2" => l.left2 = Some(u64::from_str_radix(v, 16).ok()?),
                "ren" => {
                    l.ren = v.split(',').filter_map(|p| p.split_once('>')).map(|(a, b)| (a.to_string(), b.to_string())).collect()
                }
                _ => {}
            }
        }
        Some(l)
    }
}

fn spec_exec(schema: &Sexp, data: Sexp, text: &str, q: &Query, args: &BTreeMap<String, FieldValue>) -> Sexp {
    Sexp::call("spec-exec", vec![schema.clone(), data, Sexp::atom(hex(text.as_bytes())), q.to_sexp(), args_to_sexp(args)])
}

/// One variant of a query: tree + arguments, compiled by the real frontend.
struct Variant {
    query: Query,
    args: BTreeMap<String, FieldValue>,
    wq: WorldQuery,
}

#[derive(Default)]
struct Counters {
    /// kind → (sites found, variants built, frontend-rejected, args-rejected, skipped for a known defect)
    per_kind: BTreeMap<String, [usize; 5]>,
    rejections: BTreeMap<String, usize>,
}

impl Counters {
    fn bump(&mut self, kind: &str, i: usize) {
        self.per_kind.entry(kind.to_string()).or_default()[i] += 1;
    }
}

fn compile_variant(w: &World, query: Query, args: BTreeMap<String, FieldValue>, kind: &str, c: &mut Counters) -> Option<Variant> {
    let text = query.to_graphql();
    let gq = GenQuery { query: query.clone(), text, args: args.clone(), features: BTreeSet::new() };
    let wq = compile_query(&w.schema, &w.real, gq);
    match &wq.compiled {
        Ok(_) => {
            c.bump(kind, 1);
            Some(Variant { query, args, wq })
        }
        Err(Rejection::Frontend(names)) => {
            c.bump(kind, 2);
            *c.rejections.entry(format!("{kind}:frontend:{}", names.join("+"))).or_default() += 1;
            None
        }
        Err(Rejection::Args(names)) => {
            c.bump(kind, 3);
            *c.rejections.entry(format!("{kind}:args:{}", names.join("+"))).or_default() += 1;
            None
        }
    }
}

fn view_of(v: &Variant) -> DataView {
    let iq = v.wq.compiled.as_ref().ok().unwrap();
    data_view(&iq.ir_query, &v.args)
}

fn merge_views(a: &DataView, b: &DataView) -> DataView {
    let mut edges = a.edges.clone();
    edges.extend(b.edges.iter().cloned());
    let mut patterns = a.patterns.clone();
    patterns.extend(b.patterns.iter().cloned());
    DataView { root: a.root.clone(), edges, patterns, all_strings_are_patterns: a.all_strings_are_patterns || b.all_strings_are_patterns }
}

/// A group of requests for one dataset: variants in the order given; `links[i]` refers to earlier
/// members of the group by index.
struct Planned {
    variant: Variant,
    /// (kind, key, rel, left index or usize::MAX for the base request, left2 index, ren)
    link: Option<(String, String, String, usize, Option<usize>, Vec<(String, String)>)>,
    /// data override: build the dataset text with this function instead of the variant's own view
    data: Option<Box<dyn Fn(&World, usize) -> Sexp>>,
}

const BASE: usize = usize::MAX;
/// (query, dataset) pairs whose original result has more rows than this are not transformed at all …
const MAX_BASE_ROWS: usize = 1500;
/// … and a recursion depth is raised only when the original result has at most this many rows.
const MAX_BASE_ROWS_RECURSE: usize = 150;

// ------------------------------------------------------------------------------------------------
// the property

#[derive(Default)]
pub struct C23 {
    stats: RefCell<GenStats>,
    counters: RefCell<Counters>,
    answers: RefCell<HashMap<u64, String>>,
    checked: RefCell<BTreeMap<String, [usize; 3]>>,
}

fn world_knobs(tier: Tier) -> WorldKnobs {
    WorldKnobs {
        n_schemas: if tier == Tier::Quick { 20 } else { 120 },
        n_datasets: 2,
        n_queries: 10,
        query: QueryKnobs::clean(),
        ..WorldKnobs::for_tier(tier)
    }
}

impl C23 {
    /// All planned variants of one accepted query (independent of the dataset except for the operand
    /// values, which are drawn from dataset 0).
    fn plan(&self, rng: &mut Rng, w: &World, base: &WorldQuery) -> Vec<Planned> {
        let mut c = self.counters.borrow_mut();
        let schema = &w.schema;
        let ds0 = &w.datasets[0];
        let q0 = &base.gq.query;
        let args0 = &base.gq.args;
        let sites = node_sites(schema, q0);
        let mut out: Vec<Planned> = vec![];
        let mut fresh = 0usize;
        let mut fresh_var = |p: &str| {
            fresh += 1;
            format!("{p}{fresh}")
        };

        // property sites: (node site, field index, property name, type)
        let mut props: Vec<(NodeSite, usize, String, Ty)> = vec![];
        for s in &sites {
            for (j, f) in node_at(q0, &s.path).fields.iter().enumerate() {
                if let Field::Prop { name, .. } = f {
                    if let Some(t) = schema.prop_ty(&s.ty, name) {
                        props.push((s.clone(), j, name.clone(), t));
                    }
                }
            }
        }
        let pick = |rng: &mut Rng, n: usize| if n == 0 { None } else { Some(rng.below(n)) };

        // --- add a filter (outside folds) -------------------------------------------------------
        {
            let cands: Vec<_> = props.iter().filter(|p| !p.0.under_fold).collect();
            if let Some(i) = pick(rng, cands.len()) {
                c.bump("add-filter", 0);
                let (s, j, name, pty) = cands[i];
                let nf = gen_filter(rng, schema, ds0, &s.ty, name, pty, false);
                let mut q = q0.clone();
                let mut args = args0.clone();
                let arg = match nf.value {
                    None => Arg::None,
                    Some(v) => {
                        let var = fresh_var("mv");
                        args.insert(var.clone(), v);
                        Arg::Var(var)
                    }
                };
                let k = rng.below(8);
                add_filter(&mut q, &s.path, *j, k, nf.op, arg);
                if let Some(v) = compile_variant(w, q, args, "add-filter", &mut c) {
                    out.push(Planned {
                        variant: v,
                        link: Some(("add-filter".into(), "add-filter-adds-rows".into(), "sub".into(), BASE, None, vec![])),
                        data: None,
                    });
                }
            }
        }

        // --- add a filter whose operand is a tag defined at the same or an enclosing vertex --------
        {
            // (node path, field index, tag name, type of the tagged property)
            let mut tags: Vec<(Vec<usize>, usize, String, Ty)> = vec![];
            for (s, j, _, pty) in &props {
                if let Field::Prop { dirs, .. } = &node_at(q0, &s.path).fields[*j] {
                    for d in dirs {
                        if let Dir::Tag(t) = d {
                            tags.push((s.path.clone(), *j, t.clone(), pty.clone()));
                        }
                    }
                }
            }
            let mut cands = vec![];
            for (pi, (s, j, _, pty)) in props.iter().enumerate() {
                if s.under_fold {
                    continue;
                }
                for (ti, (tpath, tj, _, tty)) in tags.iter().enumerate() {
                    let visible = s.path.starts_with(tpath) && !(tpath.len() == s.path.len() && tj == j);
                    if visible && tty.eqn(pty) {
                        cands.push((pi, ti));
                    }
                }
            }
            if let Some(i) = pick(rng, cands.len()) {
                c.bump("add-filter-tag", 0);
                let (pi, ti) = cands[i];
                let (s, j, _, pty) = &props[pi];
                let mut ops = vec![Op::Eq, Op::Neq];
                if !pty.is_list() && matches!(pty.base.as_str(), "Int" | "Float" | "String") {
                    ops.extend([Op::Lt, Op::Le, Op::Gt, Op::Ge]);
                }
                let op = *rng.pick(&ops);
                let mut q = q0.clone();
                let k = rng.below(8);
                add_filter(&mut q, &s.path, *j, k, op, Arg::Tag(tags[ti].2.clone()));
                if let Some(v) = compile_variant(w, q, args0.clone(), "add-filter-tag", &mut c) {
                    out.push(Planned {
                        variant: v,
                        link: Some(("add-filter-tag".into(), "add-filter-adds-rows".into(), "sub".into(), BASE, None, vec![])),
                        data: None,
                    });
                }
            }
        }

        // --- a filter and its complement (strict positions) --------------------------------------
        {
            let cands: Vec<_> = props.iter().filter(|p| !p.0.under_fold && !p.0.under_opt).collect();
            if let Some(i) = pick(rng, cands.len()) {
                c.bump("partition", 0);
                let (s, j, name, pty) = cands[i];
                let nf = gen_filter(rng, schema, ds0, &s.ty, name, pty, true);
                let nop = neg_op(nf.op).expect("negatable operator");
                let mut args = args0.clone();
                let arg = match nf.value {
                    None => Arg::None,
                    Some(v) => {
                        let var = fresh_var("mv");
                        args.insert(var.clone(), v);
                        Arg::Var(var)
                    }
                };
                let k = rng.below(8);
                let mut qp = q0.clone();
                add_filter(&mut qp, &s.path, *j, k, nf.op, arg.clone());
                let mut qn = q0.clone();
                add_filter(&mut qn, &s.path, *j, k, nop, arg);
                let vp = compile_variant(w, qp, args.clone(), "partition", &mut c);
                let vn = compile_variant(w, qn, args, "partition", &mut c);
                if let (Some(vp), Some(vn)) = (vp, vn) {
                    let ip = out.len();
                    out.push(Planned {
                        variant: vp,
                        link: Some(("partition-pos".into(), "add-filter-adds-rows".into(), "sub".into(), BASE, None, vec![])),
                        data: None,
                    });
                    out.push(Planned {
                        variant: vn,
                        link: Some(("partition".into(), "partition-broken".into(), "part".into(), BASE, Some(ip), vec![])),
                        data: None,
                    });
                }
            }
        }

        // --- `=` against `one_of [x]` (anywhere) --------------------------------------------------
        {
            if let Some(i) = pick(rng, props.len()) {
                c.bump("eq-oneof", 0);
                let (s, j, name, pty) = &props[i];
                let x = operand_value(rng, schema, ds0, &s.ty, name, pty, pty.is_nullable());
                let k = rng.below(8);
                let (vx, vw) = (fresh_var("mv"), fresh_var("mw"));
                let mut qe = q0.clone();
                add_filter(&mut qe, &s.path, *j, k, Op::Eq, Arg::Var(vx.clone()));
                let mut qo = q0.clone();
                add_filter(&mut qo, &s.path, *j, k, Op::OneOf, Arg::Var(vw.clone()));
                let mut ae = args0.clone();
                ae.insert(vx, x.clone());
                let mut ao = args0.clone();
                ao.insert(vw, FieldValue::List(vec![x].into()));
                let ve = compile_variant(w, qe, ae, "eq-oneof", &mut c);
                let vo = compile_variant(w, qo, ao, "eq-oneof", &mut c);
                if let (Some(ve), Some(vo)) = (ve, vo) {
                    let ie = out.len();
                    out.push(Planned { variant: ve, link: None, data: None });
                    out.push(Planned {
                        variant: vo,
                        link: Some(("eq-oneof".into(), "eq-oneof-differ".into(), "eq".into(), ie, None, vec![])),
                        data: None,
                    });
                }
            }
        }

        // --- recursion depth ---------------------------------------------------------------------
        {
            let mut cands = vec![];
            for s in sites.iter().filter(|s| !s.under_fold) {
                for (j, f) in node_at(q0, &s.path).fields.iter().enumerate() {
                    if let Field::Edge { kind: Kind::Recurse(d), .. } = f {
                        cands.push((s.clone(), j, *d));
                    }
                }
            }
            if let Some(i) = pick(rng, cands.len()) {
                c.bump("recurse-raise", 0);
                let (s, j, d) = &cands[i];
                let mut q = q0.clone();
                set_recurse_depth(&mut q, &s.path, *j, d + 1 + rng.below(2) as u32);
                if let Some(v) = compile_variant(w, q, args0.clone(), "recurse-raise", &mut c) {
                    out.push(Planned {
                        variant: v,
                        link: Some(("recurse-raise".into(), "recurse-depth-removes-rows".into(), "sup".into(), BASE, None, vec![])),
                        data: None,
                    });
                }
                if *d > 1 {
                    c.bump("recurse-lower", 0);
                    let mut q = q0.clone();
                    set_recurse_depth(&mut q, &s.path, *j, d - 1);
                    if let Some(v) = compile_variant(w, q, args0.clone(), "recurse-lower", &mut c) {
                        out.push(Planned {
                            variant: v,
                            link: Some(("recurse-lower".into(), "recurse-depth-removes-rows".into(), "sub".into(), BASE, None, vec![])),
                            data: None,
                        });
                    }
                }
            }
        }

        // --- make an edge @optional ----------------------------------------------------------------
        {
            let mut cands = vec![];
            for s in sites.iter().filter(|s| !s.under_fold) {
                for (j, f) in node_at(q0, &s.path).fields.iter().enumerate() {
                    if let Field::Edge { kind: Kind::Plain, node, .. } = f {
                        cands.push((s.clone(), j, subtree_has_count_filter(node)));
                    }
                }
            }
            if let Some(i) = pick(rng, cands.len()) {
                c.bump("make-optional", 0);
                // a fold-count filter below the edge is fine (it passes in a missing scope; formerly F-9)
                let (s, j, _count_filter_below) = &cands[i];
                let mut q = q0.clone();
                make_optional(&mut q, &s.path, *j);
                if let Some(v) = compile_variant(w, q, args0.clone(), "make-optional", &mut c) {
                    out.push(Planned {
                        variant: v,
                        link: Some(("make-optional".into(), "optional-drops-rows".into(), "sup".into(), BASE, None, vec![])),
                        data: None,
                    });
                }
            }
        }

        // --- rename outputs ------------------------------------------------------------------------
        {
            let names = output_names(q0);
            c.bump("rename-outputs", 0);
            let mut map = BTreeMap::new();
            if names.len() >= 2 && rng.chance(1, 2) {
                // a permutation of the existing names: the sorted order of every row changes
                let k = 1 + rng.below(names.len() - 1);
                for (i, n) in names.iter().enumerate() {
                    map.insert(n.clone(), names[(i + k) % names.len()].clone());
                }
            } else {
                for (i, n) in names.iter().enumerate() {
                    // fresh names whose order is the reverse of the old one
                    map.insert(n.clone(), format!("r{:03}_{n}", names.len() - i));
                }
            }
            let mut q = q0.clone();
            rename(&mut q, &map, &BTreeMap::new());
            if let Some(v) = compile_variant(w, q, args0.clone(), "rename-outputs", &mut c) {
                out.push(Planned {
                    variant: v,
                    link: Some((
                        "rename-outputs".into(),
                        "rename-changes-contents".into(),
                        "ren".into(),
                        BASE,
                        None,
                        map.into_iter().collect(),
                    )),
                    data: None,
                });
            }
        }

        // --- rename tags ---------------------------------------------------------------------------
        {
            let names = tag_names(q0);
            if !names.is_empty() {
                c.bump("rename-tags", 0);
                let mut map = BTreeMap::new();
                if names.len() >= 2 && rng.chance(1, 2) {
                    let k = 1 + rng.below(names.len() - 1);
                    for (i, n) in names.iter().enumerate() {
                        map.insert(n.clone(), names[(i + k) % names.len()].clone());
                    }
                } else {
                    for (i, n) in names.iter().enumerate() {
                        map.insert(n.clone(), format!("g{:03}_{n}", names.len() - i));
                    }
                }
                let mut q = q0.clone();
                rename(&mut q, &BTreeMap::new(), &map);
                if let Some(v) = compile_variant(w, q, args0.clone(), "rename-tags", &mut c) {
                    out.push(Planned {
                        variant: v,
                        link: Some(("rename-tags".into(), "rename-changes-contents".into(), "eq".into(), BASE, None, vec![])),
                        data: None,
                    });
                }
            }
        }

        // --- reorder adjacent siblings ---------------------------------------------------------------
        {
            // (site, j, both edges?)
            let mut cands = vec![];
            for s in &sites {
                let n = node_at(q0, &s.path);
                for j in 0..n.fields.len().saturating_sub(1) {
                    let both_edges = matches!(n.fields[j], Field::Edge { .. }) && matches!(n.fields[j + 1], Field::Edge { .. });
                    if both_edges && s.under_fold {
                        // inside a fold the order of the elements is observable: not a predicted relation
                        continue;
                    }
                    cands.push((s.clone(), j, both_edges));
                }
            }
            // one swap involving a property and one swap of two edges, where available
            for want_edges in [false, true] {
                let sub: Vec<_> = cands.iter().filter(|x| x.2 == want_edges).collect();
                if let Some(i) = pick(rng, sub.len()) {
                    let kind = if want_edges { "reorder-edges" } else { "reorder-props" };
                    c.bump(kind, 0);
                    let (s, j, _) = sub[i];
                    let mut q = q0.clone();
                    swap_siblings(&mut q, &s.path, *j);
                    if let Some(v) = compile_variant(w, q, args0.clone(), kind, &mut c) {
                        let (key, rel) =
                            if want_edges { ("reorder-changes-multiset", "eqms") } else { ("reorder-changes-rows", "eq") };
                        out.push(Planned { variant: v, link: Some((kind.into(), key.into(), rel.into(), BASE, None, vec![])), data: None });
                    }
                }
            }
        }

        // --- a parameterised edge as a filter ----------------------------------------------------------
        {
            let mut cands = vec![];
            for s in sites.iter().filter(|s| !s.under_fold) {
                for (j, f) in node_at(q0, &s.path).fields.iter().enumerate() {
                    if let Field::Edge { name, kind, node, params } = f {
                        if !matches!(kind, Kind::Plain | Kind::Fold(_)) {
                            continue;
                        }
                        let Some(e) = schema.edge(&s.ty, name) else { continue };
                        if e.params.is_empty() {
                            continue;
                        }
                        let child_ty = node.coerce_to.clone().unwrap_or_else(|| e.target.clone());
                        if schema.prop_ty(&child_ty, "id").is_none() {
                            continue;
                        }
                        cands.push((s.clone(), j, name.clone(), params.clone()));
                    }
                }
            }
            if let Some(i) = pick(rng, cands.len()) {
                c.bump("param-edge", 0);
                let (s, j, ename, params) = cands[i].clone();
                // the "unparameterised" reading: another value of k (7..9: at least all base neighbours)
                let cur = params.iter().find(|(k, _)| k == "k").map(|(_, v)| v.clone());
                let mut k2 = FieldValue::Int64(7 + rng.below(3) as i64);
                if Some(&k2) == cur.as_ref() {
                    k2 = FieldValue::Int64(11);
                }
                let params2 = vec![("k".to_string(), k2)];
                let max_id = ds0.vertices.iter().map(|v| v.id).max().unwrap_or(0);
                let thr = rng.below(max_id as usize + 2) as i64;
                let var = fresh_var("mk");
                let mut q = q0.clone();
                param_edge_to_filter(&mut q, &s.path, j, params2, "id", Op::Lt, Arg::Var(var.clone()));
                let mut args = args0.clone();
                args.insert(var, FieldValue::Int64(thr));
                let left = compile_variant(w, q0.clone(), args0.clone(), "param-edge", &mut c);
                let right = compile_variant(w, q, args, "param-edge", &mut c);
                if let (Some(left), Some(right)) = (left, right) {
                    // the IR tuples of the rewritten edge on both sides
                    // the complete parameter tuple (explicit values, else the schema's default, else null)
                    let tuple_of = |q: &Query| -> Option<BTreeMap<String, FieldValue>> {
                        let Field::Edge { params, .. } = &node_at(q, &s.path).fields[j] else { return None };
                        let e = schema.edge(&s.ty, &ename)?;
                        let mut m = BTreeMap::new();
                        for p in &e.params {
                            let val = params
                                .iter()
                                .find(|(k, _)| *k == p.name)
                                .map(|(_, v)| v.clone())
                                .or_else(|| p.default.clone())
                                .unwrap_or(FieldValue::Null);
                            m.insert(p.name.clone(), val);
                        }
                        Some(m)
                    };
                    let tl = tuple_of(&left.query);
                    let tr = tuple_of(&right.query);
                    if let (Some(tl), Some(tr)) = (tl, tr) {
                        let ptext = |m: &BTreeMap<String, FieldValue>| params_sexp(m.iter().map(|(k, v)| (k.as_str(), v))).to_string();
                        let (ltext, rtext) = (ptext(&tl), ptext(&tr));
                        if ltext != rtext {
                            let view = merge_views(&view_of(&left), &view_of(&right));
                            let ename2 = ename.clone();
                            let mk_data = move |w: &World, d: usize| -> Sexp {
                                let base = w.datasets[d].to_sexp(&w.schema, &view);
                                craft_param_data(base, &ename2, &ltext, &rtext, thr)
                            };
                            let mk_data = std::rc::Rc::new(mk_data);
                            let (m1, m2) = (mk_data.clone(), mk_data);
                            let il = out.len();
                            out.push(Planned { variant: left, link: None, data: Some(Box::new(move |w, d| m1(w, d))) });
                            out.push(Planned {
                                variant: right,
                                link: Some(("param-edge".into(), "param-edge-differs".into(), "eq".into(), il, None, vec![])),
                                data: Some(Box::new(move |w, d| m2(w, d))),
                            });
                        }
                    }
                }
            }
        }

        // --- add a filter on a fold's count (one, then a second one on the same fold) ---------------
        // Kept last so that the random choices of the transformations above are unchanged. Added after
        // seeded change C23-5 / C22-5 (a `!=` count filter next to `>=` kept the min-fold-size shortcut
        // on): `q -> q + cf1 -> q + cf1 + cf2`, each step `rows' <+ rows`, operators drawn with a bias
        // towards the (exclusion, lower bound) pairs, operands small integers around real fold sizes.
        {
            let mut cands = vec![];
            for s in sites.iter().filter(|s| !s.under_fold) {
                for (j, f) in node_at(q0, &s.path).fields.iter().enumerate() {
                    if let Field::Edge { kind: Kind::Fold(_), .. } = f {
                        cands.push((s.clone(), j));
                    }
                }
            }
            // not in the operand-type-matrix worlds: their cells include the trigger of known finding F-5 (an
            // ordering filter on a list-typed property panics); a count filter `>= 0` on a fold with nothing
            // observed inside lets the engine skip the fold's contents, so the engine answers with rows where
            // the specification (which materialises the fold) reports the F-5 panic - a consequence of F-5,
            // not a transformation failure (seen once in the thorough tier, DESIGN §14)
            if base.gq.features.contains(engine::operand_matrix::FEATURE) {
                cands.clear();
            }
            if let Some(i) = pick(rng, cands.len()) {
                c.bump("add-count-filter", 0);
                let (s, j) = &cands[i];
                let excl = [Op::Neq, Op::NotOneOf];
                let lower = [Op::Ge, Op::Gt];
                let any = [Op::Eq, Op::Neq, Op::Lt, Op::Le, Op::Gt, Op::Ge, Op::OneOf, Op::NotOneOf];
                let (op1, op2) = match rng.below(4) {
                    0 => (*rng.pick(&excl), *rng.pick(&lower)),
                    1 => (*rng.pick(&lower), *rng.pick(&excl)),
                    _ => (*rng.pick(&any), *rng.pick(&any)),
                };
                let mut args = args0.clone();
                let mut operand = |rng: &mut Rng, op: Op, args: &mut BTreeMap<String, FieldValue>| {
                    let var = fresh_var("mc");
                    let one = |rng: &mut Rng| {
                        let x = rng.below(4) as i64;
                        if rng.chance(1, 2) { FieldValue::Int64(x) } else { FieldValue::Uint64(x as u64) }
                    };
                    let v = if matches!(op, Op::OneOf | Op::NotOneOf) {
                        let n = 1 + rng.below(2);
                        FieldValue::List((0..n).map(|_| one(rng)).collect::<Vec<_>>().into())
                    } else {
                        one(rng)
                    };
                    args.insert(var.clone(), v);
                    Arg::Var(var)
                };
                let a1 = operand(rng, op1, &mut args);
                // half of the time the chain starts from the query with nothing observed in the fold (no
                // output inside, no count output): the shape in which the engine may stop expanding early
                let strip = rng.chance(1, 2);
                let mut qb = q0.clone();
                let mut left0 = BASE;
                if strip {
                    if let Field::Edge { kind: Kind::Fold(fds), node, .. } = &mut node_at_mut(&mut qb, &s.path).fields[*j] {
                        fds.retain(|d| !matches!(d, FDir::CountOutput(_)));
                        for_each_node_mut(node, &mut |n: &mut Node| {
                            for f in n.fields.iter_mut() {
                                match f {
                                    Field::Prop { dirs, .. } => dirs.retain(|d| !matches!(d, Dir::Output(_))),
                                    Field::Edge { kind: Kind::Fold(fds), .. } => fds.retain(|d| !matches!(d, FDir::CountOutput(_))),
                                    _ => {}
                                }
                            }
                        });
                    }
                    match compile_variant(w, qb.clone(), args0.clone(), "add-count-filter", &mut c) {
                        Some(vb) => {
                            left0 = out.len();
                            out.push(Planned { variant: vb, link: None, data: None });
                        }
                        None => qb = q0.clone(),
                    }
                }
                let mut q1 = qb.clone();
                let k1 = rng.below(4);
                if let Field::Edge { kind: Kind::Fold(fds), .. } = &mut node_at_mut(&mut q1, &s.path).fields[*j] {
                    let k = k1.min(fds.len());
                    fds.insert(k, FDir::CountFilter(op1, a1));
                }
                let args1 = args.clone();
                let a2 = operand(rng, op2, &mut args);
                let mut q2 = q1.clone();
                let k2 = rng.below(4);
                if let Field::Edge { kind: Kind::Fold(fds), .. } = &mut node_at_mut(&mut q2, &s.path).fields[*j] {
                    let k = k2.min(fds.len());
                    fds.insert(k, FDir::CountFilter(op2, a2));
                }
                if let Some(v1) = compile_variant(w, q1, args1, "add-count-filter", &mut c) {
                    let i1 = out.len();
                    out.push(Planned {
                        variant: v1,
                        link: Some(("add-count-filter".into(), "add-filter-adds-rows".into(), "sub".into(), left0, None, vec![])),
                        data: None,
                    });
                    if let Some(v2) = compile_variant(w, q2, args, "add-count-filter", &mut c) {
                        out.push(Planned {
                            variant: v2,
                            link: Some(("add-count-filter-2".into(), "add-filter-adds-rows".into(), "sub".into(), i1, None, vec![])),
                            data: None,
                        });
                    }
                }
            }
        }
        out
    }
}

/// In a `(data …)` text: the neighbours of every vertex along `edge` with parameter tuple `ltext` become
/// the neighbours with tuple `rtext` whose `id` (= vertex id) is below `thr` — the dataset convention under
/// which the parameterised edge *is* the filtered edge.
fn craft_param_data(data: Sexp, edge: &str, ltext: &str, rtext: &str, thr: i64) -> Sexp {
    let Sexp::List(mut items) = data else { return data };
    for it in items.iter_mut() {
        let is_adj = matches!(it.as_call(), Some(("adj", _)));
        if !is_adj {
            continue;
        }
        let Sexp::List(entries) = it else { continue };
        let mut right: HashMap<String, Vec<Sexp>> = HashMap::new();
        for e in entries.iter().skip(1) {
            if let Some([vid, en, ps, nb]) = e.as_list() {
                if en.as_atom() == Some(edge) && ps.to_string() == rtext {
                    if let Some(("nbrs", ns)) = nb.as_call() {
                        right.insert(vid.to_string(), ns.to_vec());
                    }
                }
            }
        }
        for e in entries.iter_mut().skip(1) {
            let Sexp::List(l) = e else { continue };
            if l.len() == 4 && l[1].as_atom() == Some(edge) && l[2].to_string() == ltext {
                let ns = right.get(&l[0].to_string()).cloned().unwrap_or_default();
                let kept: Vec<Sexp> =
                    ns.into_iter().filter(|n| n.as_atom().and_then(|a| a.parse::<i64>().ok()).is_some_and(|id| id < thr)).collect();
                l[3] = Sexp::call("nbrs", kept);
            }
        }
    }
    Sexp::List(items)
}

// ------------------------------------------------------------------------------------------------
// the oracle's comparisons

type Rows = Vec<Vec<(String, String)>>;

fn parse_rows(answer: &str) -> Option<Rows> {
    let s = Sexp::parse(answer)?;
    let ("rows", rows) = s.as_call()? else { return None };
    rows.iter()
        .map(|r| {
            let ("row", cols) = r.as_call()? else { return None };
            cols.iter()
                .map(|c| {
                    let [n, v] = c.as_list()? else { return None };
                    Some((n.as_atom()?.to_string(), v.to_string()))
                })
                .collect()
        })
        .collect()
}

fn is_sublist<T: PartialEq>(small: &[T], big: &[T]) -> bool {
    let mut i = 0;
    for x in big {
        if i < small.len() && small[i] == *x {
            i += 1;
        }
    }
    i == small.len()
}

fn multiset_eq(a: &Rows, b: &Rows) -> bool {
    let (mut a, mut b) = (a.clone(), b.clone());
    a.sort();
    b.sort();
    a == b
}

fn multiset_sub(a: &Rows, b: &Rows) -> bool {
    let mut pool = b.clone();
    for x in a {
        match pool.iter().position(|y| y == x) {
            Some(i) => {
                pool.swap_remove(i);
            }
            None => return false,
        }
    }
    true
}

/// `m` is a merge of `l` and `r` (both keep their order, every element of `m` comes from exactly one).
fn is_interleave<T: PartialEq>(l: &[T], r: &[T], m: &[T]) -> bool {
    if l.len() + r.len() != m.len() {
        return false;
    }
    let mut dp = vec![vec![false; r.len() + 1]; l.len() + 1];
    dp[0][0] = true;
    for i in 0..=l.len() {
        for j in 0..=r.len() {
            if !dp[i][j] {
                continue;
            }
            if i < l.len() && l[i] == m[i + j] {
                dp[i + 1][j] = true;
            }
            if j < r.len() && r[j] == m[i + j] {
                dp[i][j + 1] = true;
            }
        }
    }
    dp[l.len()][r.len()]
}

fn rename_rows(rows: &Rows, ren: &[(String, String)]) -> Rows {
    rows.iter()
        .map(|r| {
            let mut x: Vec<(String, String)> = r
                .iter()
                .map(|(k, v)| (ren.iter().find(|(a, _)| a == k).map(|(_, b)| b.clone()).unwrap_or_else(|| k.clone()), v.clone()))
                .collect();
            x.sort();
            x
        })
        .collect()
}

fn request_text(e: &Evaluated) -> Option<String> {
    let (_, args) = e.request.as_call()?;
    String::from_utf8(unhex(args.get(2)?.as_atom()?)?).ok()
}

impl Prop for C23 {
    fn id(&self) -> &'static str {
        "C23"
    }
    fn rule(&self) -> &'static str {
        "per seed: generated worlds as for C01 (schemas x 2 datasets x ~10 type-directed queries accepted by the real frontend and argument validation; generator setting QueryKnobs::clean(), i.e. without the triggers of the known defects F-4/F-5). For every accepted query one randomly chosen applicable site per transformation: add-filter (a type-correct filter with a fresh variable drawn mostly from the property's values in the dataset, any operator, on a property outside folds: rows' <+ rows), add-filter-tag (=, !=, <, <=, >, >= against a type-compatible tag defined at the same or an enclosing vertex: rows' <+ rows), partition (outside folds and optional scopes, an operator with complement: rows(q) is a merge of rows(q+f) and rows(q+not f)), eq-oneof (`= $x` against `one_of [$x]` on any property, folds included, half of the operands in the other integer representation: equal rows), recurse-raise / recurse-lower (depth d -> d+1|d+2, d-1 outside folds: sublist), make-optional (a plain edge outside folds, also above folds with count filters); (query, dataset) pairs whose original result exceeds 1500 rows are not transformed (150 rows for recurse-raise), counted under skipped_known_defect of `(all)` / `recurse-raise`, rename-outputs / rename-tags (a permutation of the existing names or fresh names in reverse order), reorder-props (swap of two adjacent selections at least one of which is a property, anywhere: identical row sequence), reorder-edges (swap of two adjacent edges outside folds: equal multisets), add-count-filter (a fold outside folds gets a filter on its count, then a second one: any of =, !=, <, <=, >, >=, one_of, not_one_of with a bias towards (exclusion, lower-bound) pairs, operands 0..3 in either integer representation; each step rows' <+ rows), param-edge (an edge with a declared parameter, plain or folded, rewritten to another parameter value plus `id @filter(<)` in a dataset whose adjacency for the original parameter tuple is the filtered adjacency of the new one: equal rows). Transformed queries rejected by the frontend (e.g. a tag used before its definition after a swap) are counted and skipped. Every original and transformed query is sent per dataset as (spec-exec ...) [model = Lean Spec] (queries with a fold-count filter >=/> on a variable additionally as (exec ...) [model = Interp over the real IR], so that a Spec mismatch can be classified as the known fold-limit truncation F-23/F-29); the relation is checked on the engine's rows. A case is non-trivial (nt:<kind>) when the left query returned at least one row on that dataset; nt:<kind>:strict when the transformation changed the row sequence."
    }
    fn generate(&self, tier: Tier, rng: &mut Rng) -> Vec<Case> {
        let (worlds, stats) = generate_worlds(rng, &world_knobs(tier));
        *self.stats.borrow_mut() = stats;
        let mut out = vec![];
        for w in &worlds {
            for base in w.accepted() {
                let feats = feature_tags(&base.gq.features);
                let planned = self.plan(rng, w, base);
                for d in 0..w.datasets.len() {
                    let Some(base_req) = w.spec_exec_request(d, base) else { continue };
                    // size guard: queries whose result on this dataset is huge (nested recursions over a
                    // dense graph) are not multiplied by a dozen variants
                    let base_rows = match (w.data_sexp(d, base), guarded(|| {
                        let data = w.data_sexp(d, base)?;
                        engine::run::run_query(&w.schema_sexp, &data, &base.gq.text, &base.gq.args)
                    })) {
                        (Some(_), Ok(Some(engine::run::Answer::Rows(r)))) => r.len(),
                        _ => 0,
                    };
                    if base_rows > MAX_BASE_ROWS {
                        self.counters.borrow_mut().bump("(all)", 4);
                        continue;
                    }
                    let base_hash = fnv64(&base_req.to_string());
                    let mut tags = feats.clone();
                    tags.push("t:base".into());
                    out.push(Case { request: base_req, tags });
                    if has_min_fold_trigger(&base.gq.query) {
                        if let Some(x) = w.exec_request(d, base) {
                            out.push(Case { request: x, tags: vec!["t:exec-partner".into()] });
                        }
                    }
                    let mut hashes: Vec<u64> = vec![];
                    for p in &planned {
                        if base_rows > MAX_BASE_ROWS_RECURSE
                            && matches!(&p.link, Some((k, ..)) if k == "recurse-raise")
                        {
                            self.counters.borrow_mut().bump("recurse-raise", 4);
                            // keep the indices of `hashes` aligned with `planned`
                            hashes.push(0);
                            continue;
                        }
                        let v = &p.variant;
                        let data = match &p.data {
                            Some(f) => f(w, d),
                            None => w.datasets[d].to_sexp(&w.schema, &view_of(v)),
                        };
                        let body = v.query.to_graphql();
                        let (text, kind) = match &p.link {
                            None => (format!("# c23aux\n{body}"), "aux".to_string()),
                            Some((kind, key, rel, left, left2, ren)) => {
                                let l = Link {
                                    kind: kind.clone(),
                                    key: key.clone(),
                                    rel: rel.clone(),
                                    left: if *left == BASE { base_hash } else { hashes[*left] },
                                    left2: left2.map(|i| hashes[i]),
                                    ren: ren.clone(),
                                };
                                (format!("{}{body}", l.header()), kind.clone())
                            }
                        };
                        let partner = match (&v.wq.ir, has_min_fold_trigger(&v.query)) {
                            (Some(ir), true) => Some(Sexp::call(
                                "exec",
                                vec![w.schema_sexp.clone(), data.clone(), Sexp::atom(hex(text.as_bytes())), ir.clone(), args_to_sexp(&v.args)],
                            )),
                            _ => None,
                        };
                        let req = spec_exec(&w.schema_sexp, data, &text, &v.query, &v.args);
                        hashes.push(fnv64(&req.to_string()));
                        let mut tags = feats.clone();
                        tags.push(format!("t:{kind}"));
                        out.push(Case { request: req, tags });
                        if let Some(x) = partner {
                            out.push(Case { request: x, tags: vec!["t:exec-partner".into()] });
                        }
                    }
                }
            }
        }
        out
    }
    fn eval(&self, request: &Sexp) -> Option<String> {
        let (h, args) = request.as_call()?;
        match h {
            "spec-exec" | "exec" => eval_exec(h, args),
            _ => None,
        }
    }
    fn post_tags(&self, e: &Evaluated) -> Vec<String> {
        let mut answers = self.answers.borrow_mut();
        answers.insert(fnv64(&e.line), e.answer.clone());
        let mut out = vec![];
        if e.answer == "(rows)" {
            out.push("rows:0".to_string());
        } else if e.answer.starts_with("(rows") {
            out.push("rows:>0".to_string());
        } else {
            out.push(format!("answer:{}", e.answer.chars().take(24).collect::<String>()));
        }
        let is_spec = matches!(e.request.as_call(), Some(("spec-exec", _)));
        if let Some(l) = request_text(e).as_deref().and_then(Link::parse).filter(|_| is_spec) {
            if let Some(left) = answers.get(&l.left) {
                if left.starts_with("(rows (row") {
                    out.push(format!("nt:{}", l.kind));
                    let same = match l.rel.as_str() {
                        "ren" => false,
                        _ => *left == e.answer,
                    };
                    if !same && l.rel != "ren" {
                        out.push(format!("nt:{}:strict", l.kind));
                    }
                }
            }
        }
        out
    }
    fn oracle(&self, evaluated: &[Evaluated]) -> Vec<OracleFailure> {
        let mut fails = panic_failures(evaluated);
        let by_hash: HashMap<u64, &Evaluated> = evaluated.iter().map(|e| (fnv64(&e.line), e)).collect();
        let mut checked = self.checked.borrow_mut();
        for e in evaluated {
            if !matches!(e.request.as_call(), Some(("spec-exec", _))) {
                continue;
            }
            let Some(text) = request_text(e) else { continue };
            let Some(l) = Link::parse(&text) else { continue };
            let stat = checked.entry(l.kind.clone()).or_default();
            let Some(left) = by_hash.get(&l.left) else {
                stat[2] += 1;
                continue;
            };
            let left2 = match l.left2 {
                Some(h) => match by_hash.get(&h) {
                    Some(x) => Some(*x),
                    None => {
                        stat[2] += 1;
                        continue;
                    }
                },
                None => None,
            };
            let (Some(rt), Some(rl)) = (parse_rows(&e.answer), parse_rows(&left.answer)) else {
                // a panic / error answer: reported by the panic oracle (or by the Spec comparison)
                stat[1] += 1;
                continue;
            };
            stat[0] += 1;
            let mut requests = vec![left.line.clone()];
            let ok = match l.rel.as_str() {
                "sub" => is_sublist(&rt, &rl),
                "sup" => is_sublist(&rl, &rt),
                "eq" => rt == rl,
                "eqms" => multiset_eq(&rt, &rl),
                "ren" => rt == rename_rows(&rl, &l.ren),
                "part" => {
                    let Some(l2) = left2 else { continue };
                    let Some(rp) = parse_rows(&l2.answer) else {
                        stat[1] += 1;
                        continue;
                    };
                    requests.push(l2.line.clone());
                    is_interleave(&rp, &rt, &rl)
                }
                _ => true,
            };
            if !ok {
                requests.push(e.line.clone());
                let left_text = request_text(left).unwrap_or_default();
                let extra = match l.rel.as_str() {
                    "sub" => format!(" (multiset inclusion holds: {})", multiset_sub(&rt, &rl)),
                    "sup" => format!(" (multiset inclusion holds: {})", multiset_sub(&rl, &rt)),
                    "eq" => format!(" (multisets equal: {})", multiset_eq(&rt, &rl)),
                    _ => String::new(),
                };
                fails.push(OracleFailure {
                    key: l.key.clone(),
                    detail: format!(
                        "{} relation `{}` violated{extra}: left has {} rows, transformed has {} rows | left query: {} | transformed query: {} | left rows: {} | transformed rows: {}",
                        l.kind,
                        l.rel,
                        rl.len(),
                        rt.len(),
                        left_text.replace('\n', " "),
                        text.replace('\n', " "),
                        left.answer.chars().take(600).collect::<String>(),
                        e.answer.chars().take(600).collect::<String>()
                    ),
                    requests,
                });
            }
        }
        fails
    }
    fn extra_stats(&self, _evaluated: &[Evaluated]) -> serde_json::Value {
        let c = self.counters.borrow();
        let per_kind: BTreeMap<String, serde_json::Value> = c
            .per_kind
            .iter()
            .map(|(k, v)| {
                (
                    k.clone(),
                    serde_json::json!({"sites_chosen": v[0], "variants_accepted": v[1], "frontend_rejected": v[2], "args_rejected": v[3], "skipped_known_defect": v[4]}),
                )
            })
            .collect();
        let checked: BTreeMap<String, serde_json::Value> = self
            .checked
            .borrow()
            .iter()
            .map(|(k, v)| (k.clone(), serde_json::json!({"relations_checked": v[0], "non_row_answers": v[1], "left_request_missing": v[2]})))
            .collect();
        serde_json::json!({
            "generator": self.stats.borrow().to_json(),
            "transformations": per_kind,
            "rejections": c.rejections,
            "relations": checked,
        })
    }
}

fn main() {
    main_for(vec![Box::new(C23::default())])
}
