//! C27 — Python bindings agree with the Rust engine.
//!
//! The Python extension is built from /repo/pytrustfall's *current working tree* by
//! `harness/py/build_ext.sh` (scratch target dir outside /repo and /verif) and driven through
//! `harness/py/c27_helper.py` (one subprocess, JSON lines).  Everything the helper does goes through
//! the public Python API (`trustfall.execute_query`), i.e. through the real `shim.rs`/`value.rs`.
use std::cell::RefCell;
use std::collections::BTreeMap;
use std::io::{BufRead, BufReader, Write};
use std::process::{Child, ChildStdin, ChildStdout, Command, Stdio};
use std::sync::Arc;

use trustfall_core::frontend::parse;
use trustfall_core::interpreter::execution::interpret_ir;
use trustfall_core::interpreter::helpers::{resolve_neighbors_with, resolve_property_with};
use trustfall_core::interpreter::{
    Adapter, AsVertex, ContextIterator, ContextOutcomeIterator, ResolveEdgeInfo, ResolveInfo, VertexIterator,
};
use trustfall_core::ir::{EdgeParameters, FieldValue};
use trustfall_core::numbers_interpreter::NumbersAdapter;
use trustfall_core::schema::Schema;
use trustfall_core::test_types::TestGraphQLQuery;

use tfharness::framework::*;
use tfharness::rng::Rng;
use tfharness::sexp::{Sexp, hex, unhex};
use tfharness::values::*;

const HARNESS_DIR: &str = env!("CARGO_MANIFEST_DIR");
const KINDS_SCHEMA: &str = include_str!("../../py/kinds.graphql");
/// Root of the repository under test: `VERIF_REPO_ROOT` (set by ./mutcheck to its private copy),
/// default `/repo`.
fn repo_root() -> String {
    std::env::var("VERIF_REPO_ROOT").unwrap_or_else(|_| "/repo".to_string())
}
fn query_dir() -> String {
    format!("{}/trustfall_core/test_data/tests/valid_queries", repo_root())
}
fn numbers_schema_path() -> String {
    format!("{}/trustfall_core/test_data/schemas/numbers.graphql", repo_root())
}
const ROW_LIMIT: usize = 3000;

// ------------------------------------------------------------------------------------------------
// Python objects as protocol terms
// ------------------------------------------------------------------------------------------------
#[derive(Debug, Clone, PartialEq)]
enum Py {
    None,
    Bool(bool),
    /// decimal text (Python ints are unbounded)
    Int(String),
    /// order key of a finite float
    Float(i64),
    NonFinite(&'static str),
    Str(Vec<u8>),
    List(Vec<Py>),
    Other(Option<String>),
    /// instance of a subclass of the built-in type of the inner object (`how` names the subclass);
    /// `how == "tuple"`: the tuple of the elements of the inner list
    Sub(String, Box<Py>),
}

/// the object an instance of a subclass is *as a value*: subclass wrappers removed (tuples stay)
fn plain(p: &Py) -> Py {
    match p {
        Py::Sub(how, inner) if how != "tuple" => plain(inner),
        Py::Sub(how, inner) => Py::Sub(how.clone(), Box::new(plain(inner))),
        Py::List(l) => Py::List(l.iter().map(plain).collect()),
        other => other.clone(),
    }
}

fn py_int(n: i128) -> Py {
    Py::Int(n.to_string())
}

fn py_to_sexp(p: &Py) -> Sexp {
    match p {
        Py::None => Sexp::atom("none"),
        Py::Bool(b) => Sexp::call("pb", vec![Sexp::atom(if *b { "1" } else { "0" })]),
        Py::Int(s) => Sexp::call("pi", vec![Sexp::atom(s.clone())]),
        Py::Float(k) => Sexp::call("pf", vec![Sexp::atom(k.to_string())]),
        Py::NonFinite(s) => Sexp::atom(*s),
        Py::Str(b) => Sexp::call("ps", vec![Sexp::atom(hex(b))]),
        Py::List(l) => Sexp::call("pl", l.iter().map(py_to_sexp).collect()),
        Py::Other(None) => Sexp::atom("other"),
        Py::Other(Some(w)) => Sexp::call("other", vec![Sexp::atom(w.clone())]),
        Py::Sub(how, inner) => Sexp::call("sub", vec![Sexp::atom(how.clone()), py_to_sexp(inner)]),
    }
}

fn sexp_to_py(s: &Sexp) -> Option<Py> {
    match s.as_atom() {
        Some("none") => return Some(Py::None),
        Some("pnan") => return Some(Py::NonFinite("pnan")),
        Some("pinf") => return Some(Py::NonFinite("pinf")),
        Some("pninf") => return Some(Py::NonFinite("pninf")),
        Some("other") => return Some(Py::Other(None)),
        Some(_) => return None,
        None => {}
    }
    let (h, args) = s.as_call()?;
    match (h, args) {
        ("pb", [x]) => Some(Py::Bool(x.as_atom()? == "1")),
        ("pi", [x]) => {
            let t = x.as_atom()?;
            let digits = t.strip_prefix('-').unwrap_or(t);
            if digits.is_empty() || !digits.bytes().all(|c| c.is_ascii_digit()) {
                return None;
            }
            Some(Py::Int(t.to_string()))
        }
        ("pf", [x]) => Some(Py::Float(x.as_atom()?.parse().ok()?)),
        ("ps", [x]) => {
            let b = unhex(x.as_atom()?)?;
            String::from_utf8(b.clone()).ok()?;
            Some(Py::Str(b))
        }
        ("pl", xs) => Some(Py::List(xs.iter().map(sexp_to_py).collect::<Option<Vec<_>>>()?)),
        ("other", [w]) => Some(Py::Other(Some(w.as_atom()?.to_string()))),
        ("sub", [how, inner]) => {
            let how = how.as_atom()?;
            let inner = sexp_to_py(inner)?;
            let ok = match how {
                "strsub" | "strmixin" | "strenum" => matches!(inner, Py::Str(_)),
                "intsub" | "intenum" => matches!(inner, Py::Int(_)),
                "floatsub" => matches!(inner, Py::Float(_) | Py::NonFinite(_)),
                "listsub" | "tuple" => matches!(inner, Py::List(_)),
                _ => false,
            };
            ok.then(|| Py::Sub(how.to_string(), Box::new(inner)))
        }
        _ => None,
    }
}

/// `Some(n)` when the decimal text fits i128 (everything that can be in a 64-bit range does).
fn int_val(s: &str) -> Option<i128> {
    if s.len() > 38 { None } else { s.parse().ok() }
}

fn in_i64(n: i128) -> bool {
    (i64::MIN as i128..=i64::MAX as i128).contains(&n)
}

fn in_u64(n: i128) -> bool {
    (0..=u64::MAX as i128).contains(&n)
}

// ------------------------------------------------------------------------------------------------
// The property, stated independently of value.rs: which Python objects are convertible, to what,
// and what a Rust value must look like in Python.
// ------------------------------------------------------------------------------------------------
#[derive(PartialEq, Clone, Copy, Debug)]
enum Kind {
    Null,
    Int,
    Float,
    Str,
    Bool,
    List,
}

fn py_kind(p: &Py) -> Option<Kind> {
    Some(match p {
        Py::None => Kind::Null,
        Py::Bool(_) => Kind::Bool,
        Py::Int(_) => Kind::Int,
        Py::Float(_) => Kind::Float,
        Py::Str(_) => Kind::Str,
        Py::List(_) => Kind::List,
        Py::NonFinite(_) | Py::Other(_) => return None,
        Py::Sub(how, _) if how == "tuple" => return None,
        Py::Sub(_, inner) => return py_kind(inner),
    })
}

/// Specification: `Ok(value)` for a convertible object (integers in [-2^63, 2^64), finite floats,
/// strings, booleans, None, lists of one kind apart from None), `Err(why)` for a non-convertible one.
fn spec_from_py(p: &Py) -> Result<FieldValue, &'static str> {
    match p {
        Py::None => Ok(FieldValue::Null),
        Py::Bool(b) => Ok(FieldValue::Boolean(*b)),
        Py::Int(s) => match int_val(s) {
            Some(n) if in_i64(n) => Ok(FieldValue::Int64(n as i64)),
            Some(n) if in_u64(n) => Ok(FieldValue::Uint64(n as u64)),
            _ => Err("int-out-of-range"),
        },
        Py::Float(k) => Ok(FieldValue::Float64(float_from_key(*k))),
        Py::NonFinite(_) => Err("non-finite-float"),
        Py::Str(b) => Ok(FieldValue::String(Arc::from(String::from_utf8(b.clone()).unwrap()))),
        Py::Other(_) => Err("unsupported-type"),
        // a tuple is not a list; an instance of a str/int/float/list subclass IS a str/int/float/list
        Py::Sub(how, _) if how == "tuple" => Err("unsupported-type"),
        Py::Sub(_, inner) => spec_from_py(inner),
        Py::List(l) => {
            let mut out = vec![];
            for x in l {
                out.push(spec_from_py(x)?);
            }
            let mut kinds = l.iter().filter_map(py_kind).filter(|k| *k != Kind::Null);
            if let Some(first) = kinds.next() {
                if kinds.any(|k| k != first) {
                    return Err("mixed-kinds");
                }
            }
            Ok(FieldValue::List(out.into()))
        }
    }
}

/// Specification of Rust → Python: integers of either representation are Python ints, and so on.
fn spec_to_py(v: &FieldValue) -> Option<Py> {
    Some(match v {
        FieldValue::Null => Py::None,
        FieldValue::Int64(i) => py_int(*i as i128),
        FieldValue::Uint64(u) => py_int(*u as i128),
        FieldValue::Float64(f) => Py::Float(float_key(*f)),
        FieldValue::String(s) => Py::Str(s.as_bytes().to_vec()),
        FieldValue::Boolean(b) => Py::Bool(*b),
        FieldValue::List(l) => Py::List(l.iter().map(spec_to_py).collect::<Option<Vec<_>>>()?),
        _ => return None,
    })
}

/// A list (at any depth) whose direct int elements lie on both sides of 2^63 (all in range).
fn has_int_repr_mix(p: &Py) -> bool {
    match &plain(p) {
        Py::List(l) => {
            let ints: Vec<i128> = l
                .iter()
                .filter_map(|x| if let Py::Int(s) = x { int_val(s) } else { None })
                .filter(|n| in_i64(*n) || in_u64(*n))
                .collect();
            (ints.iter().any(|n| in_i64(*n)) && ints.iter().any(|n| !in_i64(*n))) || l.iter().any(has_int_repr_mix)
        }
        _ => false,
    }
}


/// structural equality including the integer representation
fn same_exact(a: &FieldValue, b: &FieldValue) -> bool {
    render_value(a) == render_value(b)
}

// ------------------------------------------------------------------------------------------------
// helper process
// ------------------------------------------------------------------------------------------------
struct Helper {
    child: Child,
    stdin: ChildStdin,
    stdout: BufReader<ChildStdout>,
}

impl Helper {
    fn start() -> Helper {
        let repo = repo_root();
        // the real tree and private mutant copies keep separate cargo target dirs
        let scratch = std::env::var("C27_SCRATCH").unwrap_or_else(|_| {
            if repo == "/repo" { "/tmp/verif-c27-ext".to_string() } else { "/tmp/verif-c27-ext-mut".to_string() }
        });
        let out = Command::new(format!("{HARNESS_DIR}/py/build_ext.sh"))
            .arg(&repo)
            .arg(&scratch)
            .output()
            .expect("cannot run build_ext.sh");
        if !out.status.success() {
            eprintln!(
                "C27: building the Python extension from {repo}/pytrustfall failed:\n{}",
                String::from_utf8_lossy(&out.stderr)
            );
            std::process::exit(3);
        }
        let pkg = String::from_utf8_lossy(&out.stdout).trim().to_string();
        let kinds_path = format!("{HARNESS_DIR}/py/kinds.graphql");
        let mut child = Command::new("python3")
            .arg(format!("{HARNESS_DIR}/py/c27_helper.py"))
            .env("C27_PKG_DIR", &pkg)
            .env("C27_SCHEMA_KINDS", kinds_path)
            .env("C27_SCHEMA_NUMBERS", numbers_schema_path())
            .env("RUST_BACKTRACE", "0")
            .env("PYTHONDONTWRITEBYTECODE", "1")
            .stdin(Stdio::piped())
            .stdout(Stdio::piped())
            .stderr(Stdio::inherit())
            .spawn()
            .expect("cannot start python3");
        let stdin = child.stdin.take().unwrap();
        let mut stdout = BufReader::new(child.stdout.take().unwrap());
        let mut line = String::new();
        stdout.read_line(&mut line).unwrap();
        let ready: serde_json::Value = serde_json::from_str(&line).unwrap_or(serde_json::Value::Null);
        if ready.get("ready").is_none() {
            eprintln!("C27: the Python helper did not start (importing the built extension failed?): {line}");
            std::process::exit(3);
        }
        Helper { child, stdin, stdout }
    }

    fn call(&mut self, req: serde_json::Value) -> serde_json::Value {
        writeln!(self.stdin, "{req}").unwrap();
        self.stdin.flush().unwrap();
        let mut line = String::new();
        self.stdout.read_line(&mut line).unwrap();
        if line.is_empty() {
            eprintln!("C27: the Python helper died on {req}");
            std::process::exit(3);
        }
        let resp: serde_json::Value = serde_json::from_str(&line).expect("helper answered non-JSON");
        if let Some(e) = resp.get("helper_error") {
            panic!("helper error: {e}");
        }
        resp
    }
}

impl Drop for Helper {
    fn drop(&mut self) {
        let _ = self.child.kill();
        let _ = self.child.wait();
    }
}

// ------------------------------------------------------------------------------------------------
// "kinds" adapter (Rust side; Python mirror: KindsMirror in c27_helper.py)
// ------------------------------------------------------------------------------------------------
type Item = BTreeMap<String, FieldValue>;

#[derive(Debug, Clone)]
struct KindsAdapter {
    items: Arc<Vec<Item>>,
}

impl<'a> Adapter<'a> for KindsAdapter {
    type Vertex = usize;

    fn resolve_starting_vertices(
        &self,
        edge_name: &Arc<str>,
        _parameters: &EdgeParameters,
        _resolve_info: &ResolveInfo,
    ) -> VertexIterator<'a, Self::Vertex> {
        match edge_name.as_ref() {
            "Item" => Box::new(0..self.items.len()),
            _ => Box::new(std::iter::empty()),
        }
    }

    fn resolve_property<V: AsVertex<Self::Vertex> + 'a>(
        &self,
        contexts: ContextIterator<'a, V>,
        _type_name: &Arc<str>,
        property_name: &Arc<str>,
        _resolve_info: &ResolveInfo,
    ) -> ContextOutcomeIterator<'a, V, FieldValue> {
        let items = self.items.clone();
        let name = property_name.to_string();
        resolve_property_with(contexts, move |v: &usize| {
            if name == "idx" {
                FieldValue::Int64(*v as i64)
            } else {
                items[*v].get(&name).cloned().unwrap_or(FieldValue::Null)
            }
        })
    }

    fn resolve_neighbors<V: AsVertex<Self::Vertex> + 'a>(
        &self,
        contexts: ContextIterator<'a, V>,
        _type_name: &Arc<str>,
        edge_name: &Arc<str>,
        _parameters: &EdgeParameters,
        _resolve_info: &ResolveEdgeInfo,
    ) -> ContextOutcomeIterator<'a, V, VertexIterator<'a, Self::Vertex>> {
        assert_eq!(edge_name.as_ref(), "next");
        let n = self.items.len();
        resolve_neighbors_with(contexts, move |v: &usize| {
            if *v + 1 < n { Box::new(std::iter::once(*v + 1)) } else { Box::new(std::iter::empty()) }
        })
    }

    fn resolve_coercion<V: AsVertex<Self::Vertex> + 'a>(
        &self,
        _contexts: ContextIterator<'a, V>,
        _type_name: &Arc<str>,
        _coerce_to_type: &Arc<str>,
        _resolve_info: &ResolveInfo,
    ) -> ContextOutcomeIterator<'a, V, bool> {
        unimplemented!()
    }
}

const KINDS_QUERIES: &[(&str, &str)] = &[
    ("all-kinds-out", "{ Item { idx @output i @output f @output s @output b @output li @output lf @output ls @output lb @output lli @output } }"),
    ("int-ge", r#"{ Item { idx @output i @filter(op: ">=", value: ["$x"]) @output } }"#),
    ("int-one-of", r#"{ Item { idx @output i @filter(op: "one_of", value: ["$x"]) } }"#),
    ("float-lt", r#"{ Item { idx @output f @filter(op: "<", value: ["$x"]) @output } }"#),
    ("str-prefix", r#"{ Item { idx @output s @filter(op: "has_prefix", value: ["$x"]) @output } }"#),
    ("bool-eq", r#"{ Item { idx @output b @filter(op: "=", value: ["$x"]) } }"#),
    ("ints-contains", r#"{ Item { idx @output li @filter(op: "contains", value: ["$x"]) @output } }"#),
    ("nested-eq", r#"{ Item { idx @output lli @filter(op: "=", value: ["$x"]) } }"#),
    ("null-and-optional", r#"{ Item { idx @output s @filter(op: "is_null") next @optional { n: i @output nf: f @output } } }"#),
    ("strs-not-contains", r#"{ Item { idx @output ls @filter(op: "not_contains", value: ["$x"]) lf @output lb @output } }"#),
    ("tag-int-lt", r#"{ Item { idx @output i @tag(name: "t") next { j: i @filter(op: "<", value: ["%t"]) @output } } }"#),
    ("float-one-of", r#"{ Item { idx @output f @filter(op: "one_of", value: ["$x"]) } }"#),
    ("int-fold-count", r#"{ Item { idx @output next @fold @transform(op: "count") @filter(op: "=", value: ["$x"]) @output(name: "c") } }"#),
];

fn rand_int_fv(rng: &mut Rng) -> FieldValue {
    random_int(rng)
}

fn rand_float_fv(rng: &mut Rng) -> FieldValue {
    rng.pick(&boundary_floats()).clone()
}

fn rand_str_fv(rng: &mut Rng) -> FieldValue {
    rng.pick(&boundary_strings()).clone()
}

/// list of ints in both representations, freely mixed on either side of 2^63 (plus nulls): a Python
/// adapter must be able to return such a list (it could not before the repair of F-24)
fn rand_int_list(rng: &mut Rng) -> FieldValue {
    let n = rng.below(4);
    let mut out = vec![];
    for _ in 0..n {
        if rng.chance(1, 6) {
            out.push(FieldValue::Null);
        } else {
            out.push(rand_int_fv(rng));
        }
    }
    FieldValue::List(out.into())
}

fn rand_list(rng: &mut Rng, mut f: impl FnMut(&mut Rng) -> FieldValue) -> FieldValue {
    let n = rng.below(4);
    let out: Vec<FieldValue> = (0..n).map(|_| if rng.chance(1, 6) { FieldValue::Null } else { f(rng) }).collect();
    FieldValue::List(out.into())
}

fn maybe_null(rng: &mut Rng, v: FieldValue) -> FieldValue {
    if rng.chance(1, 6) { FieldValue::Null } else { v }
}

fn kinds_items(seed: u64) -> Vec<Item> {
    let mut rng = Rng::new(seed ^ 0xC27);
    let n = 4 + rng.below(5);
    (0..n)
        .map(|_| {
            let mut it = Item::new();
            let v = rand_int_fv(&mut rng);
            it.insert("i".into(), maybe_null(&mut rng, v));
            let v = rand_float_fv(&mut rng);
            it.insert("f".into(), maybe_null(&mut rng, v));
            let v = rand_str_fv(&mut rng);
            it.insert("s".into(), maybe_null(&mut rng, v));
            let v = FieldValue::Boolean(rng.chance(1, 2));
            it.insert("b".into(), maybe_null(&mut rng, v));
            let v = rand_int_list(&mut rng);
            it.insert("li".into(), maybe_null(&mut rng, v));
            let v = rand_list(&mut rng, rand_float_fv);
            it.insert("lf".into(), maybe_null(&mut rng, v));
            let v = rand_list(&mut rng, rand_str_fv);
            it.insert("ls".into(), maybe_null(&mut rng, v));
            let v = rand_list(&mut rng, |r| FieldValue::Boolean(r.chance(1, 2)));
            it.insert("lb".into(), maybe_null(&mut rng, v));
            let v = rand_list(&mut rng, rand_int_list);
            it.insert("lli".into(), maybe_null(&mut rng, v));
            it
        })
        .collect()
}

/// arguments for kinds query `q`, drawn so that they often hit values present in the items
fn kinds_args(q: usize, items: &[Item], rng: &mut Rng) -> BTreeMap<String, Py> {
    let pick = |rng: &mut Rng, field: &str, fallback: FieldValue| -> FieldValue {
        let present: Vec<FieldValue> =
            items.iter().filter_map(|it| it.get(field)).filter(|v| !matches!(v, FieldValue::Null)).cloned().collect();
        if !present.is_empty() && rng.chance(2, 3) { rng.pick(&present).clone() } else { fallback }
    };
    let mut args = BTreeMap::new();
    let x = match KINDS_QUERIES[q].0 {
        "int-ge" => {
            let fb = rand_int_fv(rng);
            spec_to_py(&pick(rng, "i", fb)).unwrap()
        }
        "int-one-of" => {
            let n = 1 + rng.below(3);
            Py::List(
                (0..n)
                    .map(|_| {
                        let fb = rand_int_fv(rng);
                        spec_to_py(&pick(rng, "i", fb)).unwrap()
                    })
                    .collect(),
            )
        }
        "float-lt" => {
            // sometimes a Python int beyond the 64-bit ranges: must be refused (F-25, repaired: it
            // used to be accepted silently as a float)
            if rng.chance(1, 8) {
                Py::Int("18446744073709551616".into())
            } else {
                let fb = rand_float_fv(rng);
                spec_to_py(&pick(rng, "f", fb)).unwrap()
            }
        }
        "str-prefix" => {
            let v = pick(rng, "s", FieldValue::from("a"));
            let FieldValue::String(s) = &v else { unreachable!() };
            let cut = s.char_indices().map(|(i, _)| i).chain([s.len()]).nth(rng.below(2)).unwrap_or(s.len());
            Py::Str(s.as_bytes()[..cut].to_vec())
        }
        "bool-eq" => Py::Bool(rng.chance(1, 2)),
        "ints-contains" => {
            let present: Vec<FieldValue> = items
                .iter()
                .filter_map(|it| if let Some(FieldValue::List(l)) = it.get("li") { Some(l.to_vec()) } else { None })
                .flatten()
                .filter(|v| !matches!(v, FieldValue::Null))
                .collect();
            let v = if !present.is_empty() && rng.chance(2, 3) { rng.pick(&present).clone() } else { rand_int_fv(rng) };
            spec_to_py(&v).unwrap()
        }
        "nested-eq" => {
            let fb = rand_list(rng, rand_int_list);
            spec_to_py(&pick(rng, "lli", fb)).unwrap()
        }
        "strs-not-contains" => spec_to_py(&rand_str_fv(rng)).unwrap(),
        "float-one-of" => {
            let n = 1 + rng.below(3);
            Py::List(
                (0..n)
                    .map(|_| {
                        if rng.chance(1, 6) {
                            Py::None
                        } else {
                            let fb = rand_float_fv(rng);
                            spec_to_py(&pick(rng, "f", fb)).unwrap()
                        }
                    })
                    .collect(),
            )
        }
        "int-fold-count" => py_int(rng.below(2) as i128),
        _ => return args,
    };
    args.insert("x".to_string(), x);
    args
}

// ------------------------------------------------------------------------------------------------
// Rust → Python probes: a value as a GraphQL literal in an edge parameter
// ------------------------------------------------------------------------------------------------
fn graphql_string(s: &str) -> String {
    let mut out = String::from("\"");
    for c in s.chars() {
        match c {
            '"' => out.push_str("\\\""),
            '\\' => out.push_str("\\\\"),
            c if (c as u32) < 0x20 || c as u32 == 0x7f => out.push_str(&format!("\\u{:04x}", c as u32)),
            c => out.push(c),
        }
    }
    out.push('"');
    out
}

fn graphql_literal(v: &FieldValue) -> Option<String> {
    Some(match v {
        FieldValue::Null => "null".to_string(),
        FieldValue::Int64(i) => i.to_string(),
        FieldValue::Uint64(u) => u.to_string(),
        FieldValue::Float64(f) => format!("{f:?}"),
        FieldValue::String(s) => graphql_string(s),
        FieldValue::Boolean(b) => b.to_string(),
        FieldValue::List(l) => {
            format!("[{}]", l.iter().map(graphql_literal).collect::<Option<Vec<_>>>()?.join(", "))
        }
        _ => return None,
    })
}

/// (base kind, list depth) of a value, `None` for an inconsistent one
fn shape(v: &FieldValue) -> Option<(Option<&'static str>, usize)> {
    match v {
        FieldValue::Null => Some((None, 0)),
        FieldValue::Int64(_) | FieldValue::Uint64(_) => Some((Some("Int"), 0)),
        FieldValue::Float64(_) => Some((Some("Float"), 0)),
        FieldValue::String(_) => Some((Some("String"), 0)),
        FieldValue::Boolean(_) => Some((Some("Boolean"), 0)),
        FieldValue::List(l) => {
            let mut base = None;
            let mut depth = 0;
            for x in l.iter() {
                let (b, d) = shape(x)?;
                if !matches!(x, FieldValue::Null) {
                    if depth != 0 && d + 1 != depth && !(matches!(x, FieldValue::List(_))) {
                        return None;
                    }
                    depth = depth.max(d + 1);
                }
                match (base, b) {
                    (None, b) => base = b,
                    (Some(a), Some(b)) if a != b => return None,
                    _ => {}
                }
            }
            // scalars and lists must not be siblings
            let lists = l.iter().filter(|x| matches!(x, FieldValue::List(_))).count();
            let scalars = l.iter().filter(|x| !matches!(x, FieldValue::List(_) | FieldValue::Null)).count();
            if lists > 0 && scalars > 0 {
                return None;
            }
            Some((base, depth.max(1)))
        }
        _ => None,
    }
}

/// The probe query carrying `v` as a literal, if the frontend turns the literal into exactly `v`.
fn probe_query(schema: &Schema, v: &FieldValue) -> Option<String> {
    let (base, depth) = shape(v)?;
    if depth > 2 {
        return None;
    }
    let edge = format!("Probe{}{}", base.unwrap_or("Int"), if depth == 0 { String::new() } else { depth.to_string() });
    let q = format!("{{ {edge}(x: {}) {{ idx @output }} }}", graphql_literal(v)?);
    let parsed = guarded(|| parse(schema, &q)).ok()?.ok()?;
    let got = parsed.ir_query.root_parameters.get("x")?;
    if same_exact(got, v) { Some(q) } else { None }
}

// ------------------------------------------------------------------------------------------------
// the property
// ------------------------------------------------------------------------------------------------
#[derive(Clone, Debug)]
enum RunResult {
    Rows(Vec<String>),
    /// argument conversion / validation failed, or the run raised
    Failed(String),
}

#[derive(Clone, Debug)]
struct E2e {
    rust: RunResult,
    python: RunResult,
    /// `Some(why)` when the arguments are not convertible under the specification
    args_nonconvertible: Option<&'static str>,
    args_int_repr_mix: bool,
}

pub struct C27 {
    helper: RefCell<Option<Helper>>,
    kinds_schema: Schema,
    /// results of end-to-end runs, by request line (consumed by the oracle)
    e2e: RefCell<BTreeMap<String, E2e>>,
}

impl C27 {
    fn new() -> C27 {
        C27 {
            helper: RefCell::new(None),
            kinds_schema: Schema::parse(KINDS_SCHEMA).expect("kinds schema"),
            e2e: RefCell::new(BTreeMap::new()),
        }
    }

    fn call(&self, req: serde_json::Value) -> serde_json::Value {
        let mut h = self.helper.borrow_mut();
        if h.is_none() {
            *h = Some(Helper::start());
        }
        h.as_mut().unwrap().call(req)
    }

    fn render_rows(rows: impl Iterator<Item = BTreeMap<Arc<str>, FieldValue>>) -> Vec<String> {
        rows.take(ROW_LIMIT)
            .map(|row| {
                let cols: Vec<Sexp> = row
                    .iter()
                    .map(|(k, v)| {
                        let p = spec_to_py(v).map(|p| py_to_sexp(&p)).unwrap_or(Sexp::atom("enum"));
                        Sexp::list(vec![Sexp::atom(k.to_string()), p])
                    })
                    .collect();
                Sexp::call("row", cols).to_string()
            })
            .collect()
    }

    fn run_python(&self, schema: &str, query: &str, args: &BTreeMap<String, Py>, items: &[Item], wrap: bool) -> (RunResult, String) {
        let args_json: serde_json::Map<String, serde_json::Value> =
            args.iter().map(|(k, v)| (k.clone(), serde_json::Value::String(py_to_sexp(v).to_string()))).collect();
        let items_json: Vec<serde_json::Value> = items
            .iter()
            .map(|it| {
                serde_json::Value::Object(it.iter().map(|(k, v)| (k.clone(), serde_json::Value::String(render_value(v)))).collect())
            })
            .collect();
        let resp = self.call(serde_json::json!({
            "op": "query", "schema": schema, "query": query, "args": args_json, "items": items_json, "limit": ROW_LIMIT,
            "wrap_subclasses": wrap,
        }));
        if let Some(rows) = resp.get("rows").and_then(|r| r.as_array()) {
            (RunResult::Rows(rows.iter().map(|r| r.as_str().unwrap().to_string()).collect()), "accepted".to_string())
        } else {
            let class = resp["err"].as_str().unwrap_or("?").to_string();
            let kind = resp["kind"].as_str().unwrap_or("other").to_string();
            let msg = resp["msg"].as_str().unwrap_or("").to_string();
            let answer = if class == "ValueError" && kind != "other" && resp["rows_before"].as_u64() == Some(0) {
                format!("(rejected {kind})")
            } else {
                format!("(pyerr {class})")
            };
            (RunResult::Failed(format!("{class}: {msg}")), answer)
        }
    }

    fn parse_args(args: &[Sexp]) -> Option<BTreeMap<String, Py>> {
        let list = args.iter().find_map(|a| match a.as_call() {
            Some(("args", xs)) => Some(xs),
            _ => None,
        })?;
        let mut out = BTreeMap::new();
        for e in list {
            let l = e.as_list()?;
            if l.len() != 2 {
                return None;
            }
            out.insert(l[0].as_atom()?.to_string(), sexp_to_py(&l[1])?);
        }
        Some(out)
    }

    fn args_facts(args: &BTreeMap<String, Py>) -> (Option<&'static str>, bool) {
        let non = args.values().find_map(|p| spec_from_py(p).err());
        // "mixed-kinds" that is only an int-representation matter cannot happen under the spec;
        // record separately whether some argument has ints on both sides of 2^63 in one list
        (non, args.values().any(has_int_repr_mix))
    }

    fn eval_e2e_numbers(&self, line: &str, stem: &str, args: &BTreeMap<String, Py>) -> Option<String> {
        if !stem.bytes().all(|c| c.is_ascii_alphanumeric() || c == b'_' || c == b'-') {
            return None;
        }
        let text = std::fs::read_to_string(format!("{}/{stem}.graphql.ron", query_dir())).ok()?;
        let test: TestGraphQLQuery = ron::from_str(&text).ok()?;
        if test.schema_name != "numbers" {
            return None;
        }
        let adapter = Arc::new(NumbersAdapter::new());
        let rust_args: Arc<BTreeMap<Arc<str>, FieldValue>> =
            Arc::new(test.arguments.iter().map(|(k, v)| (Arc::from(k.as_str()), v.clone())).collect());
        let rust = match guarded(|| {
            let q = parse(adapter.schema(), &test.query).map_err(|e| format!("frontend: {e}"))?;
            let it = interpret_ir(adapter.clone(), q, rust_args.clone()).map_err(|e| format!("arguments: {e}"))?;
            Ok::<_, String>(Self::render_rows(it))
        }) {
            Ok(Ok(rows)) => RunResult::Rows(rows),
            Ok(Err(e)) => RunResult::Failed(e),
            Err(p) => RunResult::Failed(format!("panic: {p}")),
        };
        let (python, answer) = self.run_python("numbers", &test.query, args, &[], false);
        let (non, mix) = Self::args_facts(args);
        self.e2e.borrow_mut().insert(line.to_string(), E2e { rust, python, args_nonconvertible: non, args_int_repr_mix: mix });
        Some(answer)
    }

    fn eval_e2e_kinds(&self, line: &str, seed: u64, q: usize, args: &BTreeMap<String, Py>, wrap: bool) -> Option<String> {
        let (_, query) = KINDS_QUERIES.get(q)?;
        let items = kinds_items(seed);
        let (non, mix) = Self::args_facts(args);
        let rust = if non.is_some() {
            RunResult::Failed("arguments are not convertible under the specification".into())
        } else {
            let rust_args: Arc<BTreeMap<Arc<str>, FieldValue>> =
                Arc::new(args.iter().map(|(k, v)| (Arc::from(k.as_str()), spec_from_py(v).unwrap())).collect());
            let adapter = Arc::new(KindsAdapter { items: Arc::new(items.clone()) });
            match guarded(|| {
                let q = parse(&self.kinds_schema, query).map_err(|e| format!("frontend: {e}"))?;
                let it = interpret_ir(adapter.clone(), q, rust_args.clone()).map_err(|e| format!("arguments: {e}"))?;
                Ok::<_, String>(Self::render_rows(it))
            }) {
                Ok(Ok(rows)) => RunResult::Rows(rows),
                Ok(Err(e)) => RunResult::Failed(e),
                Err(p) => RunResult::Failed(format!("panic: {p}")),
            }
        };
        let (python, answer) = self.run_python("kinds", query, args, &items, wrap);
        self.e2e.borrow_mut().insert(line.to_string(), E2e { rust, python, args_nonconvertible: non, args_int_repr_mix: mix });
        Some(answer)
    }
}

fn py_pool(tier: Tier, rng: &mut Rng) -> Vec<(Py, &'static str)> {
    let mut out: Vec<(Py, &'static str)> = vec![];
    let p2 = |e: u32| -> i128 { 1i128 << e };
    out.push((Py::None, "none"));
    out.push((Py::Bool(false), "bool"));
    out.push((Py::Bool(true), "nt:bool-true-not-1"));
    for n in [
        0,
        1,
        -1,
        2,
        p2(53),
        p2(53) + 1,
        -p2(53) - 1,
        p2(63) - 2,
        p2(63) - 1,
        p2(63),
        p2(63) + 1,
        p2(64) - 2,
        p2(64) - 1,
        -p2(63) + 1,
        -p2(63),
    ] {
        out.push((py_int(n), "nt:int-in-range-boundary"));
    }
    for n in [
        p2(64),
        p2(64) + 1,
        p2(64) + p2(11),
        p2(64) + p2(11) + 1,
        p2(64) + 3 * p2(11),
        -p2(63) - 1,
        -p2(63) - 1025,
        -p2(64),
        p2(100),
        -p2(100) + 1,
        p2(120) - 1,
    ] {
        out.push((py_int(n), "nt:int-out-of-range"));
    }
    // around the largest finite float: 2^1024 - 2^970 is the first int that no longer rounds to a float
    let huge = |s: &str| Py::Int(s.to_string());
    let two1024 = "179769313486231590772930519078902473361797697894230657273430081157732675805500963132708477322407536021120113879871393357658789768814416622492847430639474124377767893424865485276302219601246094119453082952085005768838150682342462881473913110540827237163350510684586298239947245938479716304835356329624224137216";
    let max_ok = "179769313486231580793728971405303415079934132710037826936173778980444968292764750946649017977587207096330286416692887910946555547851940402630657488671505820681908902000708383676273854845817711531764475730270069855571366959622842914819860834936475292719074168444365510704342711559699508093042880177904174497791";
    let first_bad = "179769313486231580793728971405303415079934132710037826936173778980444968292764750946649017977587207096330286416692887910946555547851940402630657488671505820681908902000708383676273854845817711531764475730270069855571366959622842914819860834936475292719074168444365510704342711559699508093042880177904174497792";
    out.push((huge(max_ok), "nt:int-out-of-range"));
    out.push((huge(first_bad), "nt:int-beyond-float"));
    out.push((huge(two1024), "nt:int-beyond-float"));
    out.push((huge(&format!("-{two1024}")), "nt:int-beyond-float"));
    out.push((huge(&format!("1{}", "0".repeat(400))), "nt:int-beyond-float"));
    for f in boundary_floats() {
        out.push((spec_to_py(&f).unwrap(), "nt:float"));
    }
    for nf in ["pnan", "pinf", "pninf"] {
        out.push((Py::NonFinite(nf), "nt:float-non-finite"));
    }
    for s in boundary_strings() {
        out.push((spec_to_py(&s).unwrap(), "nt:str"));
    }
    out.push((Py::Str("a\"b\\c\n\t\r\0'\u{7f}\u{301}".as_bytes().to_vec()), "nt:str"));
    out.push((Py::Other(None), "nt:unsupported"));
    for w in ["tuple", "dict", "bytes", "set", "object"] {
        out.push((Py::Other(Some(w.to_string())), "nt:unsupported"));
    }
    // lists
    let l = Py::List;
    let i = |n: i128| py_int(n);
    let s = |t: &str| Py::Str(t.as_bytes().to_vec());
    let f = |x: f64| Py::Float(float_key(x));
    let lists: Vec<(Py, &'static str)> = vec![
        (l(vec![]), "nt:list"),
        (l(vec![Py::None]), "nt:list"),
        (l(vec![Py::None, Py::None]), "nt:list"),
        (l(vec![i(1), i(2)]), "nt:list"),
        (l(vec![i(1), Py::None, i(-5)]), "nt:list"),
        (l(vec![i(p2(63)), i(p2(64) - 1)]), "nt:list-unsigned"),
        (l(vec![i(1), i(p2(63))]), "nt:list-int-repr-mix"),
        (l(vec![i(p2(63)), i(1)]), "nt:list-int-repr-mix"),
        (l(vec![Py::None, i(1), Py::None, i(p2(63))]), "nt:list-int-repr-mix"),
        (l(vec![l(vec![i(5), i(p2(64) - 1)])]), "nt:list-int-repr-mix"),
        (l(vec![l(vec![i(1)]), l(vec![i(p2(63))])]), "nt:list-nested"),
        (l(vec![l(vec![i(1)]), l(vec![s("a")])]), "nt:list-nested-mixed-leaves"),
        (l(vec![l(vec![]), l(vec![i(1)]), Py::None]), "nt:list-nested"),
        (l(vec![l(vec![l(vec![f(1.5), Py::None]), l(vec![])]), l(vec![])]), "nt:list-nested"),
        (l(vec![i(1), f(1.5)]), "nt:list-mixed-kinds"),
        (l(vec![f(1.5), i(1)]), "nt:list-mixed-kinds"),
        (l(vec![i(1), s("a")]), "nt:list-mixed-kinds"),
        (l(vec![Py::Bool(true), i(1)]), "nt:list-mixed-kinds"),
        (l(vec![i(1), Py::Bool(true)]), "nt:list-mixed-kinds"),
        (l(vec![i(1), l(vec![i(1)])]), "nt:list-mixed-kinds"),
        (l(vec![Py::None, s("a"), Py::None, Py::Bool(false)]), "nt:list-mixed-kinds"),
        (l(vec![i(p2(64)), f(1.5)]), "nt:list-out-of-range-int"),
        (l(vec![i(p2(64)), i(1)]), "nt:list-out-of-range-int"),
        (l(vec![f(1.5), i(p2(64))]), "nt:list-out-of-range-int"),
        (l(vec![Py::NonFinite("pnan")]), "nt:list-bad-element"),
        (l(vec![i(1), Py::Other(None)]), "nt:list-bad-element"),
        (l(vec![Py::Other(Some("dict".into())), Py::NonFinite("pinf")]), "nt:list-bad-element"),
        (l(vec![i(1), s("a"), Py::NonFinite("pnan")]), "nt:list-bad-element"),
        (l(vec![l(vec![Py::Other(None)])]), "nt:list-bad-element"),
        (l(vec![Py::Bool(true), Py::Bool(false), Py::None]), "nt:list"),
        (l(vec![s("a"), s("")]), "nt:list"),
        (l(vec![f(0.0), f(-0.0), f(5e-324)]), "nt:list"),
    ];
    out.extend(lists);
    // instances of SUBCLASSES of the built-in types: classified by kind, returned as the plain base type
    let sub = |how: &str, inner: Py| Py::Sub(how.to_string(), Box::new(inner));
    let subs: Vec<Py> = vec![
        sub("strsub", s("ab")),
        sub("strsub", s("")),
        sub("strsub", Py::Str("a\"b\\\n日本".as_bytes().to_vec())),
        sub("strmixin", s("abc")),
        sub("strmixin", s("")),
        sub("strenum", s("xyz")),
        sub("intsub", i(5)),
        sub("intsub", i(-1)),
        sub("intsub", i(p2(63))),
        sub("intsub", i(p2(64) - 1)),
        sub("intsub", i(p2(64))),
        sub("intsub", i(-p2(63) - 1)),
        sub("intenum", i(7)),
        sub("intenum", i(0)),
        sub("intenum", i(1)),
        sub("intenum", i(p2(63))),
        sub("intenum", i(p2(64))),
        sub("floatsub", f(1.5)),
        sub("floatsub", f(-0.0)),
        sub("floatsub", Py::NonFinite("pnan")),
        sub("floatsub", Py::NonFinite("pinf")),
        sub("listsub", l(vec![])),
        sub("listsub", l(vec![i(1), i(2)])),
        sub("listsub", l(vec![sub("strsub", s("a")), s("b"), Py::None])),
        sub("listsub", l(vec![i(1), s("a")])),
        sub("tuple", l(vec![i(1), i(2)])),
        sub("tuple", l(vec![])),
        l(vec![sub("strsub", s("a")), Py::None, s("b")]),
        l(vec![sub("strmixin", s("a")), sub("strenum", s("b")), sub("strsub", s("c"))]),
        l(vec![sub("intsub", i(1)), i(p2(63)), sub("intenum", i(3))]),
        l(vec![sub("intenum", i(1)), Py::Bool(true)]),
        l(vec![sub("floatsub", f(0.5)), f(2.0)]),
        l(vec![sub("floatsub", f(0.5)), sub("intsub", i(2))]),
        l(vec![sub("listsub", l(vec![sub("strsub", s("x"))])), l(vec![s("y")])]),
        l(vec![sub("tuple", l(vec![i(1)])), l(vec![i(2)])]),
        l(vec![sub("strsub", s("a")), sub("intsub", i(1))]),
    ];
    for p in subs {
        out.push((p, "nt:py-subclass"));
    }
    // seeded random objects: images of random Rust values plus random raw objects
    let extra = if tier == Tier::Quick { 60 } else { 3000 };
    for _ in 0..extra {
        out.push((random_py(rng, 3), "random"));
    }
    for _ in 0..extra / 2 {
        let v = random_value(rng, 3);
        if let Some(p) = spec_to_py(&v) {
            out.push((p, "random-image"));
        }
    }
    out
}

fn random_py(rng: &mut Rng, depth: usize) -> Py {
    if depth > 0 && rng.chance(1, 3) {
        let n = rng.below(4);
        if rng.chance(3, 4) {
            let proto = random_py(rng, depth - 1);
            Py::List((0..n).map(|_| if rng.chance(1, 8) { Py::None } else { same_kind_py(rng, &proto, depth - 1) }).collect())
        } else {
            Py::List((0..n).map(|_| random_py(rng, depth - 1)).collect())
        }
    } else {
        match rng.below(12) {
            0 => Py::None,
            1 => Py::Bool(rng.chance(1, 2)),
            2..=5 => random_py_int(rng),
            6 => spec_to_py(rng.pick(&boundary_floats())).unwrap(),
            7 => Py::Float(float_key({
                let x = f64::from_bits(rng.next_u64());
                if x.is_finite() { x } else { 2.5 }
            })),
            8 | 9 => spec_to_py(rng.pick(&boundary_strings())).unwrap(),
            10 => Py::NonFinite(*rng.pick(&["pnan", "pinf", "pninf"])),
            _ => Py::Other(Some(rng.pick(&["tuple", "dict", "bytes", "set", "object"]).to_string())),
        }
    }
}

fn random_py_int(rng: &mut Rng) -> Py {
    match rng.below(6) {
        0 => py_int(rng.next_u64() as i64 as i128),
        1 => py_int(rng.next_u64() as i128),
        2 => py_int(rng.below(7) as i128 - 3),
        3 => py_int((1i128 << 63) + rng.below(5) as i128 - 2),
        4 => py_int((1i128 << 64) + rng.below(5) as i128 - 2),
        // up to 2^126: beyond both ranges, float conversion rounds
        _ => py_int(((rng.next_u64() as i128) << 62 | rng.next_u64() as i128) * if rng.chance(1, 2) { -1 } else { 1 }),
    }
}

fn same_kind_py(rng: &mut Rng, proto: &Py, depth: usize) -> Py {
    match proto {
        Py::None => Py::None,
        Py::Bool(_) => Py::Bool(rng.chance(1, 2)),
        Py::Int(_) => random_py_int(rng),
        Py::Float(_) => spec_to_py(rng.pick(&boundary_floats())).unwrap(),
        Py::Str(_) => spec_to_py(rng.pick(&boundary_strings())).unwrap(),
        Py::List(l) => {
            let n = rng.below(4);
            let inner = l.first().cloned().unwrap_or_else(|| random_py(rng, 0));
            Py::List((0..n).map(|_| same_kind_py(rng, &inner, depth.saturating_sub(1))).collect())
        }
        other => other.clone(),
    }
}

/// the same object with str / int / float / list replaced by instances of subclasses
fn to_subclasses(p: &Py, rng: &mut Rng) -> Py {
    let sub = |how: &str, inner: Py| Py::Sub(how.to_string(), Box::new(inner));
    match p {
        Py::Str(_) => sub(*rng.pick(&["strsub", "strmixin", "strenum"]), p.clone()),
        Py::Int(_) => sub(*rng.pick(&["intsub", "intenum"]), p.clone()),
        Py::Float(_) => sub("floatsub", p.clone()),
        Py::List(l) => {
            let inner = Py::List(l.iter().map(|x| to_subclasses(x, rng)).collect());
            if rng.chance(1, 2) { sub("listsub", inner) } else { inner }
        }
        other => other.clone(),
    }
}

fn args_sexp(args: &BTreeMap<String, Py>) -> Sexp {
    Sexp::call("args", args.iter().map(|(k, v)| Sexp::list(vec![Sexp::atom(k.clone()), py_to_sexp(v)])).collect())
}

fn numbers_tests() -> Vec<(String, TestGraphQLQuery)> {
    let mut out = vec![];
    let mut names: Vec<String> = std::fs::read_dir(query_dir())
        .map(|d| d.filter_map(|e| e.ok()).map(|e| e.file_name().to_string_lossy().to_string()).collect())
        .unwrap_or_default();
    names.sort();
    for n in names {
        let Some(stem) = n.strip_suffix(".graphql.ron") else { continue };
        let Ok(text) = std::fs::read_to_string(format!("{}/{n}", query_dir())) else { continue };
        let Ok(test) = ron::from_str::<TestGraphQLQuery>(&text) else { continue };
        if test.schema_name == "numbers" {
            out.push((stem.to_string(), test));
        }
    }
    out
}

impl Prop for C27 {
    fn id(&self) -> &'static str {
        "C27"
    }
    fn rule(&self) -> &'static str {
        "Every request runs the Python extension built from /repo/pytrustfall's working tree through the public API (execute_query). \
(py-from P): the Python object P is passed as a query argument; the exact Rust value it became is read from the engine's argument-type error text; model = fromPy. \
(py-rt P): P is returned as a property value by a Python adapter and read back as a query output (Py->Rust->Py); model = fromPy then toPy; a conversion failure is a panic of the shim. \
(py-to V): the Rust value V reaches Python as a literal edge parameter received by the Python adapter (only values the frontend produces from a literal: no Uint64 below 2^63, no enums, typed lists up to depth 2); model = toPy. \
(e2e-numbers <file> (args..)): a query file of trustfall_core/test_data/tests/valid_queries with schema_name numbers is run by the Rust engine over the Rust NumbersAdapter and by execute_query over a line-by-line Python mirror of that adapter; (e2e-kinds <seed> <query#> (args..)): the same over a seeded table of items with one property per value kind (Int both representations, Float, String, Boolean, lists, nested lists) and filters driven by arguments of each kind; with a trailing `sub` the Python adapter returns every str / int / float / list property value as a subclass instance and the arguments are subclass instances too (rows must still equal the Rust rows). For e2e requests the model only predicts whether the argument dictionary converts (accepted / rejected <kind>); rows are compared by the oracle, not by the model. \
P ranges over None, bools, ints at every boundary of the i64/u64/f64 ranges (incl. 2^53+1, 2^63, 2^64-1, 2^64, ties of float rounding, 2^1024-2^970), finite floats incl. ±0 and subnormals, non-finite floats, strings (incl. quotes, control characters, non-BMP), unsupported objects (tuple, dict, bytes, set, object), instances of SUBCLASSES of str / int / float / list (plain subclass, (str, Enum) member, enum.StrEnum, enum.IntEnum; in range and out of range; as scalars, as list elements, as the list itself; tuples for lists) which must be classified by kind and come back as the plain base type, lists (empty, all-None, homogeneous, int-representation mixes, kind mixes, nested to depth 3, bad elements) and seeded random objects. A case is non-trivial when the conversion is not the identity on an in-range scalar: boundary or out-of-range ints, floats, strings, any list, unsupported objects, and every end-to-end run that produced at least one row or exercised an argument. \
ORACLE (independent specification in the harness): convertible objects (ints in [-2^63,2^64), finite floats, str, bool, None, lists of one kind apart from None) are accepted and convert to the equal value of the right kind, non-convertible ones are rejected; round trips return the identical object; Python rows equal Rust rows (ordered, exact Python types)."
    }
    fn generate(&self, tier: Tier, rng: &mut Rng) -> Vec<Case> {
        let mut out = vec![];
        // conversions
        for (p, tag) in py_pool(tier, rng) {
            let s = py_to_sexp(&p);
            out.push(Case::new(Sexp::call("py-from", vec![s.clone()]), &[tag, "py-from"]));
            out.push(Case::new(Sexp::call("py-rt", vec![s]), &[tag, "py-rt"]));
        }
        // Rust → Python through literal edge parameters
        let mut vals = scalar_pool();
        let l = |v: Vec<FieldValue>| FieldValue::List(v.into());
        vals.push(l(vec![]));
        vals.push(l(vec![FieldValue::Null]));
        vals.push(l(vec![FieldValue::Int64(1), FieldValue::Uint64(1 << 63)]));
        vals.push(l(vec![FieldValue::Uint64(u64::MAX), FieldValue::Null, FieldValue::Int64(i64::MIN)]));
        vals.push(l(vec![l(vec![FieldValue::Int64(1)]), l(vec![]), FieldValue::Null, l(vec![FieldValue::Uint64(u64::MAX)])]));
        vals.push(l(vec![FieldValue::Float64(0.5), FieldValue::Float64(-0.0)]));
        vals.push(l(vec![l(vec![FieldValue::from("a\"\\\n")]), l(vec![FieldValue::from("日本")])]));
        vals.push(l(vec![FieldValue::Boolean(true), FieldValue::Boolean(false)]));
        let extra = if tier == Tier::Quick { 40 } else { 2000 };
        for _ in 0..extra {
            vals.push(random_value(rng, 2));
        }
        for v in vals {
            if probe_query(&self.kinds_schema, &v).is_some() {
                let tag = if matches!(v, FieldValue::List(_)) { "nt:to-list" } else { "nt:to-scalar" };
                out.push(Case::new(Sexp::call("py-to", vec![value_to_sexp(&v)]), &[tag, "py-to"]));
            }
        }
        // end to end: numbers
        for (stem, test) in numbers_tests() {
            let args: BTreeMap<String, Py> =
                test.arguments.iter().filter_map(|(k, v)| Some((k.clone(), spec_to_py(v)?))).collect();
            if args.len() != test.arguments.len() {
                continue; // enum argument: not expressible in Python
            }
            out.push(Case::new(Sexp::call("e2e-numbers", vec![Sexp::atom(stem), args_sexp(&args)]), &["e2e-numbers"]));
        }
        // end to end: kinds
        let seeds = if tier == Tier::Quick { 6 } else { 300 };
        for k in 0..seeds {
            let seed = rng.next_u64() % 1_000_000;
            let items = kinds_items(seed);
            for q in 0..KINDS_QUERIES.len() {
                let reps = if KINDS_QUERIES[q].1.contains("$x") { 2 } else { 1 };
                for _ in 0..reps {
                    let args = kinds_args(q, &items, rng);
                    out.push(Case::new(
                        Sexp::call("e2e-kinds", vec![Sexp::atom(seed.to_string()), Sexp::atom(q.to_string()), args_sexp(&args)]),
                        &["e2e-kinds", KINDS_QUERIES[q].0],
                    ));
                }
            }
            // the same table served by an adapter that returns subclass instances, arguments given as
            // subclass instances too
            for q in 0..KINDS_QUERIES.len() {
                let args: BTreeMap<String, Py> = kinds_args(q, &items, rng).into_iter().map(|(k, v)| (k, to_subclasses(&v, rng))).collect();
                out.push(Case::new(
                    Sexp::call(
                        "e2e-kinds",
                        vec![Sexp::atom(seed.to_string()), Sexp::atom(q.to_string()), args_sexp(&args), Sexp::atom("sub")],
                    ),
                    &["e2e-kinds", KINDS_QUERIES[q].0, "nt:py-subclass"],
                ));
            }
            let _ = k;
        }
        out
    }
    fn eval(&self, request: &Sexp) -> Option<String> {
        let (h, args) = request.as_call()?;
        match (h, args) {
            ("py-from", [p]) => {
                sexp_to_py(p)?;
                let resp = self.call(serde_json::json!({"op": "from", "py": p.to_string()}));
                if let Some(v) = resp.get("ok").and_then(|v| v.as_str()) {
                    Some(format!("(ok {v})"))
                } else {
                    Some(format!("(err {})", resp["err"].as_str().unwrap_or("?")))
                }
            }
            ("py-rt", [p]) => {
                sexp_to_py(p)?;
                let resp = self.call(serde_json::json!({"op": "rt", "py": p.to_string()}));
                if let Some(v) = resp.get("ok").and_then(|v| v.as_str()) {
                    Some(format!("(ok {v})"))
                } else {
                    Some(format!("(panic {})", resp["panic"].as_str().unwrap_or("?")))
                }
            }
            ("py-to", [v]) => {
                let v = sexp_to_value(v)?;
                let Some(q) = probe_query(&self.kinds_schema, &v) else { return Some("unreachable".to_string()) };
                let resp = self.call(serde_json::json!({"op": "to", "query": q}));
                match resp.get("ok").and_then(|v| v.as_str()) {
                    Some(p) => Some(p.to_string()),
                    None => Some(format!("(pyerr {})", resp["err"].as_str().unwrap_or("?"))),
                }
            }
            ("e2e-numbers", [stem, ..]) => {
                let a = Self::parse_args(args)?;
                self.eval_e2e_numbers(&request.to_string(), stem.as_atom()?, &a)
            }
            ("e2e-kinds", [seed, q, ..]) => {
                let a = Self::parse_args(args)?;
                // trailing atom `sub`: the Python adapter hands out str/int/float/list SUBCLASS instances
                let wrap = args.iter().any(|x| x.as_atom() == Some("sub"));
                self.eval_e2e_kinds(&request.to_string(), seed.as_atom()?.parse().ok()?, q.as_atom()?.parse().ok()?, &a, wrap)
            }
            _ => None,
        }
    }
    fn post_tags(&self, e: &Evaluated) -> Vec<String> {
        let mut t = vec![];
        if e.line.starts_with("(e2e-") {
            if let Some(r) = self.e2e.borrow().get(&e.line) {
                match (&r.rust, &r.python) {
                    (RunResult::Rows(a), _) if !a.is_empty() => t.push("nt:e2e-rows".to_string()),
                    (RunResult::Rows(_), _) => t.push("e2e-no-rows".to_string()),
                    (RunResult::Failed(_), _) => t.push("nt:e2e-rust-refuses".to_string()),
                }
                if e.line.contains("(args (") {
                    t.push("nt:e2e-with-arguments".to_string());
                }
            }
        }
        if e.answer.starts_with("(err") || e.answer.starts_with("(panic") || e.answer.starts_with("(rejected") {
            t.push("rejected".to_string());
        }
        t
    }
    fn oracle(&self, evaluated: &[Evaluated]) -> Vec<OracleFailure> {
        let mut fails = vec![];
        let mut fail = |key: String, detail: String, line: &str| {
            fails.push(OracleFailure { key, detail, requests: vec![line.to_string()] });
        };
        for e in evaluated {
            let Some((h, args)) = e.request.as_call() else { continue };
            let ans = Sexp::parse(&e.answer);
            match (h, args) {
                ("py-from", [p]) | ("py-rt", [p]) => {
                    let Some(py) = sexp_to_py(p) else { continue };
                    let spec = spec_from_py(&py);
                    let ok_payload = ans.as_ref().and_then(|a| match a.as_call() {
                        Some(("ok", [x])) => Some(x.clone()),
                        _ => None,
                    });
                    let why_rejects = if has_int_repr_mix(&py) { "int-repr-mix".to_string() } else { e.answer.clone() };
                    match (&spec, ok_payload) {
                        (Ok(_), None) => fail(
                            format!("{h}-rejects-convertible:{why_rejects}"),
                            format!("a convertible Python object is refused: {} -> {}", e.line, e.answer),
                            &e.line,
                        ),
                        (Err(why), Some(got)) => fail(
                            format!("{h}-accepts-nonconvertible:{why}"),
                            format!("a non-convertible Python object ({why}) is accepted: {} -> {got}", e.line),
                            &e.line,
                        ),
                        (Err(_), None) => {}
                        (Ok(want), Some(got)) => {
                            if h == "py-from" {
                                let same = sexp_to_value(&got).map(|g| same_exact(&g, want) && &g == want).unwrap_or(false);
                                if !same {
                                    fail(
                                        "py-from-unfaithful".to_string(),
                                        format!("{} became {got}, expected {}", e.line, render_value(want)),
                                        &e.line,
                                    );
                                }
                            } else if got != *p && sexp_to_py(&got) != Some(plain(&py)) {
                                fail("py-rt-unfaithful".to_string(), format!("{} came back as {got}", e.line), &e.line);
                            }
                        }
                    }
                }
                ("py-to", [v]) => {
                    let Some(v) = sexp_to_value(v) else { continue };
                    if e.answer == "unreachable" {
                        continue;
                    }
                    let want = spec_to_py(&v).map(|p| py_to_sexp(&p).to_string());
                    if want.as_deref() != Some(e.answer.as_str()) {
                        fail(
                            "py-to-unfaithful".to_string(),
                            format!("{} arrived in Python as {}, expected {:?}", e.line, e.answer, want),
                            &e.line,
                        );
                    }
                }
                _ if h.starts_with("e2e-") => {
                    let Some(r) = self.e2e.borrow().get(&e.line).cloned() else { continue };
                    match (&r.rust, &r.python) {
                        (RunResult::Rows(a), RunResult::Rows(b)) => {
                            if a != b {
                                let i = a.iter().zip(b.iter()).position(|(x, y)| x != y).unwrap_or(a.len().min(b.len()));
                                fail(
                                    "e2e-rows-differ".to_string(),
                                    format!(
                                        "rust {} rows, python {} rows, first difference at row {i}: rust={:?} python={:?}",
                                        a.len(),
                                        b.len(),
                                        a.get(i),
                                        b.get(i)
                                    ),
                                    &e.line,
                                );
                            }
                        }
                        (RunResult::Rows(_), RunResult::Failed(msg)) => {
                            let why = if r.args_int_repr_mix && e.answer == "(rejected mixed)" {
                                "int-repr-mix".to_string()
                            } else {
                                e.answer.clone()
                            };
                            fail(
                                format!("e2e-python-rejects-arguments:{why}"),
                                format!("the Rust engine runs the query, the Python bindings fail: {msg}"),
                                &e.line,
                            );
                        }
                        (RunResult::Failed(rmsg), RunResult::Rows(_)) => {
                            if let Some(why) = r.args_nonconvertible {
                                fail(
                                    format!("e2e-python-accepts-nonconvertible:{why}"),
                                    format!("a non-convertible argument ({why}) was accepted and the query ran"),
                                    &e.line,
                                );
                            } else {
                                fail(
                                    "e2e-python-runs-where-rust-fails".to_string(),
                                    format!("rust: {rmsg}"),
                                    &e.line,
                                );
                            }
                        }
                        (RunResult::Failed(_), RunResult::Failed(_)) => {}
                    }
                }
                _ => {}
            }
        }
        fails
    }
    fn extra_stats(&self, evaluated: &[Evaluated]) -> serde_json::Value {
        let e2e = self.e2e.borrow();
        let rows: usize = e2e.values().map(|r| if let RunResult::Rows(a) = &r.rust { a.len() } else { 0 }).sum();
        let count = |p: &str| evaluated.iter().filter(|e| e.line.starts_with(p)).count();
        serde_json::json!({
            "py_from": count("(py-from"), "py_rt": count("(py-rt"), "py_to": count("(py-to"),
            "e2e_numbers": count("(e2e-numbers"), "e2e_kinds": count("(e2e-kinds"),
            "e2e_rows_compared": rows,
            "e2e_with_rows": e2e.values().filter(|r| matches!(&r.rust, RunResult::Rows(a) if !a.is_empty())).count(),
        })
    }
}

fn main() {
    main_for(vec![Box::new(C27::new())]);
}
