//! C15 — recorded traces replay to the same results: direct rows = rows while tracing = rows of a replay
//! from the serialised-and-deserialised trace (RON and JSON) with no underlying adapter.
#[path = "../engine/mod.rs"]
#[allow(dead_code)]
mod engine;

use std::cell::RefCell;
use std::rc::Rc;
use std::sync::Arc;

use trustfall_core::interpreter::execution::interpret_ir;
use trustfall_core::interpreter::replay::assert_interpreted_results;
use trustfall_core::interpreter::trace::{AdapterTap, Trace, TraceOpContent, YieldValue, tap_results};

use crate::engine::adapter::{TableAdapter, Vtx};
use crate::engine::batching::{ALTERNATING, BatchingAdapter, Entry, MAX, Mode, Sched, Sizes};
use crate::engine::common::*;
use crate::engine::ir_sexp::{ir_to_sexp, rows_to_sexp};
use crate::engine::run::{Answer, Row, execute, prepare, real_args};
use crate::engine::worlds::{GenStats, WorldKnobs};
use tfharness::framework::*;
use tfharness::rng::Rng;
use tfharness::sexp::Sexp;

const MAX_OPS_FOR_SERDE: usize = 5000;
/// Recordings under read-ahead adapters are made for results of at most this many rows whose lazy trace
/// has at most this many ops (each costs a traced run, a RON round trip and a replay).
const READAHEAD_MAX_ROWS: usize = 200;
const READAHEAD_MAX_OPS: usize = 2000;

/// The fixed read-ahead schedules a recording is made under (label, schedule).  All of them are
/// demand-driven (nothing is pulled while the `resolve_*` call itself is running; see the note on
/// eager adapters in the `rule` text): on the first demand, and whenever its buffer runs dry, the adapter
/// under the tap pulls 2 / 3 / 1,2,3,4,… / ALL of its input contexts before it yields an output (input
/// side), or re-batches both its input and the lazy adapter's output in chunks of 4.
fn readahead_schedules() -> Vec<(&'static str, Sched)> {
    let cyc = |mode: Mode, sizes: Sizes| Sched { entries: vec![Entry { mode, sizes }], cyclic: true };
    vec![
        // 2-bit digits 01 / 10 of the repo's chunk sequence: chunks of 2 / of 3
        ("in2", cyc(Mode::In, Sizes::LazyWord(0x5555_5555_5555_5555))),
        ("in3", cyc(Mode::In, Sizes::LazyWord(0xAAAA_AAAA_AAAA_AAAA))),
        ("in1234", cyc(Mode::In, Sizes::LazyWord(ALTERNATING))),
        ("in-all", cyc(Mode::In, Sizes::List(vec![0]))),
        ("both4", cyc(Mode::Both, Sizes::LazyWord(MAX))),
    ]
}

/// One recording under a read-ahead adapter.
struct Batched {
    label: &'static str,
    /// rows while tracing, or the panic text
    traced: Result<Vec<Row>, String>,
    /// replay from the RON-round-tripped trace: `Ok` = reproduced the direct rows and then ended
    replay: Result<(), String>,
    /// most input contexts pending (handed to the adapter, output not yet yielded) inside one resolver call
    max_pending: usize,
}

/// Largest number of contexts that were pending inside a single resolver call of a recorded run.
fn max_pending_inputs(trace: &Trace<Vtx>) -> usize {
    let mut pending: std::collections::BTreeMap<_, usize> = Default::default();
    let mut max = 0;
    for op in trace.ops.values() {
        let Some(parent) = op.parent_opid else { continue };
        match &op.content {
            TraceOpContent::YieldInto(_) => {
                let n = pending.entry(parent).or_insert(0);
                *n += 1;
                max = max.max(*n);
            }
            TraceOpContent::YieldFrom(
                YieldValue::ResolveProperty(..) | YieldValue::ResolveNeighborsOuter(..) | YieldValue::ResolveCoercion(..),
            ) => {
                if let Some(n) = pending.get_mut(&parent) {
                    *n = n.saturating_sub(1);
                }
            }
            _ => {}
        }
    }
    max
}

/// Record the query under `AdapterTap` over a read-ahead `BatchingAdapter` over the table adapter, take
/// the trace with `finish()`, round-trip it through RON and replay it with the crate's reader.
fn record_batched(
    table: &Rc<TableAdapter>,
    q: &Arc<trustfall_core::ir::IndexedQuery>,
    args: &std::collections::BTreeMap<String, trustfall_core::ir::FieldValue>,
    direct: &[Row],
    label: &'static str,
    sched: &Sched,
) -> Batched {
    let recorded = guarded(|| {
        let tracer = Rc::new(RefCell::new(Trace::<Vtx>::new(q.ir_query.clone(), args.clone())));
        let tap = Arc::new(AdapterTap::new(BatchingAdapter::new(table.clone(), sched.clone()).fused(), tracer));
        let rows: Vec<Row> = match interpret_ir(tap.clone(), q.clone(), real_args(args)) {
            Err(e) => panic!("arguments rejected while tracing: {e:?}"),
            Ok(rows) => tap_results(tap.clone(), rows).collect(),
        };
        let trace = Arc::try_unwrap(tap).ok().expect("tap still shared").finish();
        (rows, trace)
    });
    let (rows, trace) = match recorded {
        Err(info) => return Batched { label, traced: Err(info.clone()), replay: Err(info), max_pending: 0 },
        Ok(x) => x,
    };
    let max_pending = max_pending_inputs(&trace);
    let via_ron: Result<Trace<Vtx>, String> =
        ron::to_string(&trace).map_err(|e| format!("to ron: {e}")).and_then(|s| ron::from_str(&s).map_err(|e| format!("from ron: {e}")));
    let replay = match via_ron {
        Err(e) => Err(e),
        Ok(t) if t != trace => Err("deserialised trace != recorded trace".to_string()),
        Ok(t) => guarded(|| assert_interpreted_results(&t, direct, true)),
    };
    Batched { label, traced: Ok(rows), replay, max_pending }
}

/// Everything one `(replay-exec …)` request shows.
struct Observed {
    direct: Vec<Row>,
    traced: Vec<Row>,
    trace_ops: usize,
    serde_skipped: bool,
    /// `Err(text)`: serialisation or deserialisation failed
    ron_roundtrip: Result<bool, String>,
    json_roundtrip: Result<bool, String>,
    /// `Ok(())`: the replay from the deserialised trace produced exactly `direct` (and then ended);
    /// `Err(text)`: it panicked / asserted
    replay_ron: Result<(), String>,
    replay_json: Result<(), String>,
    /// recordings under read-ahead adapters (empty for heavy results)
    batched: Vec<Batched>,
}

/// `Err` = the answer to give instead (frontend / argument error, stale IR). Panics of the direct or
/// traced execution propagate (answer `panic`).
fn observe(args: &[Sexp]) -> Option<Result<Observed, String>> {
    let r = parse_request(args)?;
    let p = prepare(r.schema, r.data, &r.text)?;
    let q = match &p.query {
        Err(names) => return Some(Err(Answer::FrontendErr(names.clone()).render())),
        Ok(q) => q.clone(),
    };
    if ir_to_sexp(&q.ir_query) != *r.fourth {
        return Some(Err("(ir-mismatch)".to_string()));
    }
    let t_start = std::time::Instant::now();
    let direct = match execute(Arc::new(p.adapter()), q.clone(), &r.args) {
        Answer::Rows(rows) => rows,
        other => return Some(Err(other.render())),
    };
    let t_direct = t_start.elapsed();
    // the same execution under the tracing tap
    let tracer = Rc::new(RefCell::new(Trace::<Vtx>::new(q.ir_query.clone(), r.args.clone())));
    let tap = Arc::new(AdapterTap::new(p.adapter(), tracer.clone()));
    let traced: Vec<Row> = match interpret_ir(tap.clone(), q.clone(), real_args(&r.args)) {
        Err(_) => return Some(Err("(err args-while-tracing)".to_string())),
        Ok(rows) => tap_results(tap.clone(), rows).collect(),
    };
    // the trace is taken the way the crate's users (and its testbin) take it: through
    // `AdapterTap::finish()` (seeded change C15-1 post-processes the trace there); the row iterator and
    // its clones of the tap are gone by now, so the Arc is unique
    let trace: Trace<Vtx> = match Arc::try_unwrap(tap) {
        Ok(tap) => tap.finish(),
        Err(_) => return Some(Err("(err tap-still-shared)".to_string())),
    };
    drop(tracer);
    let t0 = std::time::Instant::now();
    // RON of a trace costs ~40-120 us per op; the few giant traces (up to 700k ops) are replayed from
    // the in-memory trace instead of the round-tripped one
    let serde_skipped = trace.ops.len() > MAX_OPS_FOR_SERDE;
    let (via_ron, via_json): (Option<Result<Trace<Vtx>, String>>, Option<Result<Trace<Vtx>, String>>) = if serde_skipped {
        (None, None)
    } else {
        (
            Some(ron::to_string(&trace).map_err(|e| format!("to ron: {e}")).and_then(|s| ron::from_str(&s).map_err(|e| format!("from ron: {e}")))),
            Some(
                serde_json::to_string(&trace)
                    .map_err(|e| format!("to json: {e}"))
                    .and_then(|s| serde_json::from_str(&s).map_err(|e| format!("from json: {e}"))),
            ),
        )
    };
    let replay = |t: &Trace<Vtx>| -> Result<(), String> { guarded(|| assert_interpreted_results(t, &direct, true)) };
    let t1 = t0.elapsed();
    let (replay_ron, replay_json) = if serde_skipped {
        (replay(&trace), Ok(()))
    } else {
        let r = |v: &Option<Result<Trace<Vtx>, String>>| match v.as_ref().unwrap() {
            Ok(t) => replay(t),
            Err(e) => Err(e.clone()),
        };
        (r(&via_ron), r(&via_json))
    };
    if std::env::var("C15_TIMING").is_ok() {
        eprintln!("ops {} direct {:?} traced {:?} serde {:?} replay {:?}", trace.ops.len(), t_direct, t_start.elapsed() - t_direct - t0.elapsed(), t1, t0.elapsed() - t1);
    }
    let same = |v: Option<Result<Trace<Vtx>, String>>| -> Result<bool, String> {
        match v {
            None => Ok(true),
            Some(r) => r.map(|t| t == trace),
        }
    };
    let (ron_roundtrip, json_roundtrip) = (same(via_ron), same(via_json));
    // the same recording when the adapter under the tap reads ahead (the lazy table adapter never has
    // more than one input pending inside a call, so the reader's pending-input queue is otherwise
    // never longer than 1: seeded change C15-4)
    let batched = if direct.len() <= READAHEAD_MAX_ROWS && trace.ops.len() <= READAHEAD_MAX_OPS {
        let table = Rc::new(p.adapter());
        readahead_schedules().iter().map(|(label, s)| record_batched(&table, &q, &r.args, &direct, label, s)).collect()
    } else {
        vec![]
    };
    Some(Ok(Observed {
        batched,
        trace_ops: trace.ops.len(),
        serde_skipped,
        ron_roundtrip,
        json_roundtrip,
        replay_ron,
        replay_json,
        direct,
        traced,
    }))
}

/// The oracle's verdict on one observation: (key, detail) per violated clause.
fn violations(o: &Observed) -> Vec<(String, String)> {
    let mut out = vec![];
    let mut fail = |key: &str, detail: String| out.push((key.to_string(), detail.chars().take(1500).collect::<String>()));
    if o.direct != o.traced {
        fail("traced-rows-differ", format!("direct {} rows, traced {} rows", o.direct.len(), o.traced.len()));
    }
    match &o.ron_roundtrip {
        Ok(true) => {}
        Ok(false) => fail("trace-ron-roundtrip", "deserialised trace != recorded trace".into()),
        Err(t) => fail("trace-ron-roundtrip", t.clone()),
    }
    match &o.json_roundtrip {
        Ok(true) => {}
        Ok(false) => fail("trace-json-roundtrip", "deserialised trace != recorded trace".into()),
        Err(t) => fail("trace-json-roundtrip", t.clone()),
    }
    if let (Err(t), true) = (&o.replay_ron, o.ron_roundtrip.is_ok()) {
        fail("replay-ron-failed", t.clone());
    }
    if let (Err(t), true) = (&o.replay_json, o.json_roundtrip.is_ok()) {
        fail("replay-json-failed", t.clone());
    }
    for b in &o.batched {
        match &b.traced {
            Err(info) => fail(&format!("traced-batched-rows-differ:{}", b.label), format!("traced run under the read-ahead adapter panicked: {info}")),
            Ok(rows) if *rows != o.direct => {
                fail(&format!("traced-batched-rows-differ:{}", b.label), format!("direct {} rows, traced under read-ahead {} rows", o.direct.len(), rows.len()))
            }
            Ok(_) => {
                if let Err(t) = &b.replay {
                    fail(&format!("replay-batched-failed:{}", b.label), format!("max inputs pending in one call while recording: {} | {t}", b.max_pending));
                }
            }
        }
    }
    out
}

#[derive(Default)]
pub struct C15 {
    stats: RefCell<GenStats>,
    /// request line → (trace ops, violations), filled by `eval` so that the oracle need not run
    /// every request a second time (it recomputes whatever is missing)
    verdicts: RefCell<std::collections::HashMap<String, (usize, Vec<(String, String)>)>>,
    /// request line → (recordings under read-ahead made, most inputs pending in one call among them)
    readahead: RefCell<std::collections::HashMap<String, (usize, usize)>>,
    /// (read-ahead recordings made, of those with >= 2 inputs pending in some call)
    readahead_totals: RefCell<(usize, usize)>,
    serde_skipped: RefCell<usize>,
    checked: RefCell<(usize, usize)>,
}

impl Prop for C15 {
    fn id(&self) -> &'static str {
        "C15"
    }
    fn rule(&self) -> &'static str {
        "the worlds of the engine generator; per accepted (query, dataset) one (replay-exec <schema> <data> <query> <ir> <args>) request. Implementation: rows of the direct run over the table adapter; rows of the same run under AdapterTap + tap_results (recording a Trace, taken with AdapterTap::finish()); the Trace is serialised to RON and to JSON and read back (traces of more than 5000 ops - about 2.5 % of the cases - are replayed from memory without the round trip); the query is replayed from each deserialised trace with NO underlying adapter (the crate's trace reader, interpreter::replay::assert_interpreted_results, which runs interpret_ir over the trace and compares every produced row and the end of the stream with the direct rows). The answer is the rows of the replayed run (model = Interp rows). Oracle on the implementation: direct rows = traced rows (traced-rows-differ), the RON / JSON round trip of the trace succeeds and is == (trace-ron-roundtrip, trace-json-roundtrip), both replays reproduce the direct rows without panicking (replay-ron-failed, replay-json-failed). Recording under read-ahead: the lazy table adapter never holds more than one input context pending inside a resolver call, so for every result of <= 200 rows (lazy trace <= 2000 ops) the query is additionally recorded with AdapterTap over the harness's BatchingAdapter (engine/batching.rs, the repo's VariableBatchingAdapter generalised) over the table adapter under five fixed schedules - the adapter pulls 2 / 3 / 1,2,3,4,... / ALL input contexts before yielding the first output of a chunk (in2, in3, in1234, in-all) or re-batches both sides in chunks of 4 (both4) - the trace is taken with finish(), round-tripped through RON and replayed by the crate's reader: rows while tracing must equal the direct rows (traced-batched-rows-differ:<schedule>, also when that run panics) and the replay must reproduce them without panicking (replay-batched-failed:<schedule>); these are implementation-side oracle runs, the answer stays the rows. nt:replay-under-readahead: some such recording had >= 2 inputs pending inside one resolver call. Non-trivial (nt:<feature>+rows): the query uses a fold / optional / recursion / coercion / tag and returned >= 1 row."
    }
    fn generate(&self, tier: Tier, rng: &mut Rng) -> Vec<Case> {
        let (worlds, stats) = generate_worlds(rng, &WorldKnobs::for_tier(tier));
        *self.stats.borrow_mut() = stats;
        let mut out = vec![];
        for w in &worlds {
            for q in w.accepted() {
                let tags = feature_tags(&q.gq.features);
                for d in 0..w.datasets.len() {
                    if let Some(r) = w.request("replay-exec", d, q) {
                        out.push(Case { request: r, tags: tags.clone() });
                    }
                }
            }
        }
        out
    }
    fn eval(&self, request: &Sexp) -> Option<String> {
        let (h, args) = request.as_call()?;
        match h {
            "replay-exec" => Some(match observe(args)? {
                Err(answer) => answer,
                Ok(o) => {
                    if o.serde_skipped {
                        *self.serde_skipped.borrow_mut() += 1;
                    }
                    self.verdicts.borrow_mut().insert(request.to_string(), (o.trace_ops, violations(&o)));
                    let deepest = o.batched.iter().map(|b| b.max_pending).max().unwrap_or(0);
                    self.readahead.borrow_mut().insert(request.to_string(), (o.batched.len(), deepest));
                    {
                        let mut t = self.readahead_totals.borrow_mut();
                        t.0 += o.batched.len();
                        t.1 += o.batched.iter().filter(|b| b.max_pending >= 2).count();
                    }
                    match &o.replay_ron {
                        Ok(()) => rows_to_sexp(&o.direct).to_string(),
                        Err(_) => "(replay-failed)".to_string(),
                    }
                }
            }),
            "exec" | "spec-exec" => eval_exec(h, args),
            _ => None,
        }
    }
    fn oracle(&self, evaluated: &[Evaluated]) -> Vec<OracleFailure> {
        let mut fails = vec![];
        let (mut runs, mut ops) = (0usize, 0usize);
        for e in evaluated {
            let Some(("replay-exec", args)) = e.request.as_call() else { continue };
            if e.panic_info.is_some() {
                continue; // known-defective queries panic in the direct run already (C09's business)
            }
            let mut fail = |key: &str, detail: String| {
                let text = parse_request(args).map(|r| r.text).unwrap_or_default();
                let detail: String = detail.chars().take(1500).collect();
                fails.push(OracleFailure { key: key.to_string(), detail: format!("{detail} | query: {text}"), requests: vec![e.line.clone()] });
            };
            let cached = self.verdicts.borrow().get(&e.line).cloned();
            let (n_ops, found) = match cached {
                Some(v) => v,
                None => match guarded(|| observe(args)) {
                    Ok(Some(Ok(o))) => (o.trace_ops, violations(&o)),
                    Ok(_) => continue,
                    Err(info) => {
                        fail("traced-run-panicked", info);
                        continue;
                    }
                },
            };
            runs += 1;
            ops += n_ops;
            for (key, detail) in found {
                fail(&key, detail);
            }
        }
        *self.checked.borrow_mut() = (runs, ops);
        fails
    }
    fn post_tags(&self, e: &Evaluated) -> Vec<String> {
        let mut t = nontrivial_tags(e);
        if let Some((n, deepest)) = self.readahead.borrow().get(&e.line).copied() {
            if n > 0 {
                t.push("readahead-recordings".into());
            }
            if deepest >= 2 {
                t.push("nt:replay-under-readahead".into());
            }
        }
        t.push(if e.answer.starts_with("(rows (row") {
            "rows:>0".into()
        } else {
            format!("answer:{}", e.answer.chars().take(16).collect::<String>())
        });
        t
    }
    fn extra_stats(&self, _evaluated: &[Evaluated]) -> serde_json::Value {
        let (runs, ops) = *self.checked.borrow();
        serde_json::json!({"generator": self.stats.borrow().to_json(), "requests_checked": runs, "trace_ops_recorded": ops, "serde_round_trip_skipped_big_trace": *self.serde_skipped.borrow(),
            "readahead": {"schedules": readahead_schedules().iter().map(|(l, s)| format!("{l} = {}", s.to_sexp())).collect::<Vec<_>>(),
                "recordings": self.readahead_totals.borrow().0, "recordings_with_2_or_more_inputs_pending_in_a_call": self.readahead_totals.borrow().1,
                "limits": {"max_rows": READAHEAD_MAX_ROWS, "max_lazy_trace_ops": READAHEAD_MAX_OPS}}})
    }
}

fn main() {
    // keep the compiler honest about the trace content type we rely on
    let _ = |c: TraceOpContent<Vtx>| matches!(c, TraceOpContent::ProduceQueryResult(_));
    main_for(vec![Box::new(C15::default())]);
}
