//! Group `schema`: C19 (schema validation) and C20 (schema introspection adapter).
//!
//! Requests carry an *abstract schema document* (the same structure as the Lean model's
//! `TF.SchemaDoc.Doc`): the harness renders it to SDL text for the real `Schema::parse`, the Lean
//! driver interprets it directly.  Encoding:
//!
//! ```text
//! doc   := (doc def…)
//! def   := (schema Q) | (directive n) | (scalar n) | (type n (impl…) (field…))
//!        | (interface n (impl…) (field…)) | (unsupported kind n)
//! field := (n ty (arg…))
//! arg   := (n ty default)          default := - | bad | (d value)
//! ty    := (Base f0 f1 … fk)       fi ∈ {0,1}: non-null flag of level i, outermost first; k = list depth
//! ```
//! Names are plain identifiers `[A-Za-z_][A-Za-z0-9_]*`; values use the protocol's value syntax.
use std::collections::{BTreeMap, BTreeSet};
use std::sync::Arc;

use trustfall_core::ir::FieldValue;
use trustfall_core::schema::error::InvalidSchemaError;
use trustfall_core::schema::Schema;

use tfharness::framework::*;
use tfharness::rng::Rng;
use tfharness::sexp::Sexp;
use tfharness::values::*;

// ------------------------------------------------------------------------------------------------
// Abstract documents
// ------------------------------------------------------------------------------------------------

#[derive(Clone, Debug, PartialEq)]
pub enum PTy {
    Named(String, bool),
    List(Box<PTy>, bool),
}

impl PTy {
    pub fn named(n: &str, non_null: bool) -> PTy {
        PTy::Named(n.to_string(), non_null)
    }
    pub fn list(inner: PTy, non_null: bool) -> PTy {
        PTy::List(Box::new(inner), non_null)
    }
    pub fn base(&self) -> &str {
        match self {
            PTy::Named(n, _) => n,
            PTy::List(i, _) => i.base(),
        }
    }
    pub fn depth(&self) -> usize {
        match self {
            PTy::Named(..) => 0,
            PTy::List(i, _) => 1 + i.depth(),
        }
    }
    pub fn non_null(&self) -> bool {
        match self {
            PTy::Named(_, b) | PTy::List(_, b) => *b,
        }
    }
    pub fn display(&self) -> String {
        match self {
            PTy::Named(n, b) => format!("{n}{}", if *b { "!" } else { "" }),
            PTy::List(i, b) => format!("[{}]{}", i.display(), if *b { "!" } else { "" }),
        }
    }
    pub fn to_sexp(&self) -> Sexp {
        let mut v = vec![Sexp::atom(self.base())];
        let mut cur = self;
        loop {
            v.push(Sexp::atom(if cur.non_null() { "1" } else { "0" }));
            match cur {
                PTy::Named(..) => break,
                PTy::List(i, _) => cur = i,
            }
        }
        Sexp::List(v)
    }
    pub fn from_sexp(s: &Sexp) -> Option<PTy> {
        let l = s.as_list()?;
        let (b, flags) = l.split_first()?;
        let b = b.as_atom()?;
        if flags.is_empty() {
            return None;
        }
        let flags: Vec<bool> = flags.iter().map(|f| f.as_atom().map(|a| a == "1")).collect::<Option<_>>()?;
        let mut ty = PTy::Named(b.to_string(), *flags.last().unwrap());
        for f in flags[..flags.len() - 1].iter().rev() {
            ty = PTy::List(Box::new(ty), *f);
        }
        Some(ty)
    }
}

#[derive(Clone, Debug, PartialEq)]
pub enum DefaultV {
    Val(FieldValue),
    /// a constant that does not convert to a `FieldValue` (contains an object literal)
    Bad,
}

#[derive(Clone, Debug, PartialEq)]
pub struct Arg {
    pub name: String,
    pub ty: PTy,
    pub default: Option<DefaultV>,
}

#[derive(Clone, Debug, PartialEq)]
pub struct Field {
    pub name: String,
    pub ty: PTy,
    pub args: Vec<Arg>,
}

#[derive(Clone, Debug, PartialEq)]
pub struct TypeDef {
    pub name: String,
    pub is_interface: bool,
    pub implements: Vec<String>,
    pub fields: Vec<Field>,
}

#[derive(Clone, Debug, PartialEq)]
pub enum Def {
    Schema(String),
    Directive(String),
    Scalar(String),
    Type(TypeDef),
    /// `enum` / `union` / `input` definitions: outside the supported constructs
    Unsupported(String, String),
}

pub type Doc = Vec<Def>;

fn atom(s: &str) -> Sexp {
    Sexp::atom(s)
}

pub fn doc_to_sexp(doc: &Doc) -> Sexp {
    let mut v = vec![atom("doc")];
    for d in doc {
        v.push(match d {
            Def::Schema(q) => Sexp::call("schema", vec![atom(q)]),
            Def::Directive(n) => Sexp::call("directive", vec![atom(n)]),
            Def::Scalar(n) => Sexp::call("scalar", vec![atom(n)]),
            Def::Unsupported(k, n) => Sexp::call("unsupported", vec![atom(k), atom(n)]),
            Def::Type(t) => Sexp::call(
                if t.is_interface { "interface" } else { "type" },
                vec![
                    atom(&t.name),
                    Sexp::List(t.implements.iter().map(|i| atom(i)).collect()),
                    Sexp::List(
                        t.fields
                            .iter()
                            .map(|f| {
                                Sexp::List(vec![
                                    atom(&f.name),
                                    f.ty.to_sexp(),
                                    Sexp::List(
                                        f.args
                                            .iter()
                                            .map(|a| {
                                                Sexp::List(vec![
                                                    atom(&a.name),
                                                    a.ty.to_sexp(),
                                                    match &a.default {
                                                        None => atom("-"),
                                                        Some(DefaultV::Bad) => atom("bad"),
                                                        Some(DefaultV::Val(v)) => Sexp::call("d", vec![value_to_sexp(v)]),
                                                    },
                                                ])
                                            })
                                            .collect(),
                                    ),
                                ])
                            })
                            .collect(),
                    ),
                ],
            ),
        });
    }
    Sexp::List(v)
}

pub fn sexp_to_doc(s: &Sexp) -> Option<Doc> {
    let (h, defs) = s.as_call()?;
    if h != "doc" {
        return None;
    }
    let mut out = vec![];
    for d in defs {
        let (k, a) = d.as_call()?;
        out.push(match (k, a) {
            ("schema", [q]) => Def::Schema(q.as_atom()?.to_string()),
            ("directive", [n]) => Def::Directive(n.as_atom()?.to_string()),
            ("scalar", [n]) => Def::Scalar(n.as_atom()?.to_string()),
            ("unsupported", [k, n]) => Def::Unsupported(k.as_atom()?.to_string(), n.as_atom()?.to_string()),
            ("type" | "interface", [n, impls, fields]) => {
                let mut t = TypeDef {
                    name: n.as_atom()?.to_string(),
                    is_interface: k == "interface",
                    implements: impls.as_list()?.iter().map(|i| i.as_atom().map(str::to_string)).collect::<Option<_>>()?,
                    fields: vec![],
                };
                for f in fields.as_list()? {
                    let [fname, fty, fargs] = f.as_list()? else { return None };
                    let mut args = vec![];
                    for a in fargs.as_list()? {
                        let [an, aty, adef] = a.as_list()? else { return None };
                        let default = match adef {
                            Sexp::Atom(x) if x == "-" => None,
                            Sexp::Atom(x) if x == "bad" => Some(DefaultV::Bad),
                            other => {
                                let (h, v) = other.as_call()?;
                                if h != "d" || v.len() != 1 {
                                    return None;
                                }
                                Some(DefaultV::Val(sexp_to_value(&v[0])?))
                            }
                        };
                        args.push(Arg { name: an.as_atom()?.to_string(), ty: PTy::from_sexp(aty)?, default });
                    }
                    t.fields.push(Field { name: fname.as_atom()?.to_string(), ty: PTy::from_sexp(fty)?, args });
                }
                Def::Type(t)
            }
            _ => return None,
        });
    }
    Some(out)
}

// ------------------------------------------------------------------------------------------------
// SDL rendering
// ------------------------------------------------------------------------------------------------

const PRELUDE: [(&str, &str); 7] = [
    ("filter", "directive @filter(op: String!, value: [String!]) repeatable on FIELD | INLINE_FRAGMENT"),
    ("tag", "directive @tag(name: String) repeatable on FIELD"),
    ("output", "directive @output(name: String) repeatable on FIELD"),
    ("optional", "directive @optional on FIELD"),
    ("recurse", "directive @recurse(depth: Int!) on FIELD"),
    ("fold", "directive @fold on FIELD"),
    ("transform", "directive @transform(op: String!) repeatable on FIELD"),
];

fn const_text(v: &FieldValue) -> String {
    match v {
        FieldValue::Null => "null".into(),
        FieldValue::Int64(i) => i.to_string(),
        FieldValue::Uint64(u) => u.to_string(),
        FieldValue::Float64(f) => {
            let s = format!("{f:?}");
            // `{:?}` of an integral float keeps the `.0`; exponent forms are valid GraphQL floats
            s
        }
        FieldValue::String(s) => {
            let mut out = String::from("\"");
            for c in s.chars() {
                match c {
                    '"' => out.push_str("\\\""),
                    '\\' => out.push_str("\\\\"),
                    '\n' => out.push_str("\\n"),
                    '\r' => out.push_str("\\r"),
                    '\t' => out.push_str("\\t"),
                    c if (c as u32) < 0x20 => out.push_str(&format!("\\u{:04x}", c as u32)),
                    c => out.push(c),
                }
            }
            out.push('"');
            out
        }
        FieldValue::Boolean(b) => b.to_string(),
        FieldValue::Enum(e) => e.to_string(),
        FieldValue::List(l) => format!("[{}]", l.iter().map(const_text).collect::<Vec<_>>().join(", ")),
        _ => unreachable!(),
    }
}

pub fn render_sdl(doc: &Doc) -> String {
    let mut s = String::new();
    for d in doc {
        match d {
            Def::Schema(q) => s.push_str(&format!("schema {{\n    query: {q}\n}}\n")),
            Def::Directive(n) => match PRELUDE.iter().find(|(k, _)| k == n) {
                Some((_, text)) => {
                    s.push_str(text);
                    s.push('\n');
                }
                None => s.push_str(&format!("directive @{n} on FIELD\n")),
            },
            Def::Scalar(n) => s.push_str(&format!("scalar {n}\n")),
            Def::Unsupported(k, n) => match k.as_str() {
                "enum" => s.push_str(&format!("enum {n} {{ A B }}\n")),
                "union" => s.push_str(&format!("union {n} = X | Y\n")),
                _ => s.push_str(&format!("input {n} {{ a: Int }}\n")),
            },
            Def::Type(t) => {
                s.push_str(if t.is_interface { "interface " } else { "type " });
                s.push_str(&t.name);
                if !t.implements.is_empty() {
                    s.push_str(" implements ");
                    s.push_str(&t.implements.join(" & "));
                }
                if !t.fields.is_empty() {
                    s.push_str(" {\n");
                    for f in &t.fields {
                        s.push_str("    ");
                        s.push_str(&f.name);
                        if !f.args.is_empty() {
                            let args: Vec<String> = f
                                .args
                                .iter()
                                .map(|a| {
                                    let d = match &a.default {
                                        None => String::new(),
                                        Some(DefaultV::Bad) => " = {a: 1}".to_string(),
                                        Some(DefaultV::Val(v)) => format!(" = {}", const_text(v)),
                                    };
                                    format!("{}: {}{}", a.name, a.ty.display(), d)
                                })
                                .collect();
                            s.push_str(&format!("({})", args.join(", ")));
                        }
                        s.push_str(&format!(": {}\n", f.ty.display()));
                    }
                    s.push_str("}");
                }
                s.push('\n');
            }
        }
    }
    s
}


// ------------------------------------------------------------------------------------------------
// SDL text → abstract document (for corpus cases taken from the repository's test schemas)
// ------------------------------------------------------------------------------------------------

fn pty_of(t: &async_graphql_parser::types::Type) -> PTy {
    match &t.base {
        async_graphql_parser::types::BaseType::Named(n) => PTy::Named(n.to_string(), !t.nullable),
        async_graphql_parser::types::BaseType::List(i) => PTy::List(Box::new(pty_of(i)), !t.nullable),
    }
}

pub fn doc_of_sdl(text: &str) -> Option<Doc> {
    use async_graphql_parser::types::{TypeKind, TypeSystemDefinition};
    let parsed = async_graphql_parser::parse_schema(text).ok()?;
    let mut doc = vec![];
    for d in parsed.definitions {
        match d {
            TypeSystemDefinition::Schema(s) => doc.push(Def::Schema(s.node.query.as_ref()?.node.to_string())),
            TypeSystemDefinition::Directive(d) => doc.push(Def::Directive(d.node.name.node.to_string())),
            TypeSystemDefinition::Type(t) => {
                let name = t.node.name.node.to_string();
                let (is_interface, implements, fields) = match &t.node.kind {
                    TypeKind::Scalar => {
                        doc.push(Def::Scalar(name));
                        continue;
                    }
                    TypeKind::Object(o) => (false, &o.implements, &o.fields),
                    TypeKind::Interface(i) => (true, &i.implements, &i.fields),
                    TypeKind::Enum(_) => {
                        doc.push(Def::Unsupported("enum".into(), name));
                        continue;
                    }
                    TypeKind::Union(_) => {
                        doc.push(Def::Unsupported("union".into(), name));
                        continue;
                    }
                    TypeKind::InputObject(_) => {
                        doc.push(Def::Unsupported("input".into(), name));
                        continue;
                    }
                };
                let fields = fields
                    .iter()
                    .map(|f| Field {
                        name: f.node.name.node.to_string(),
                        ty: pty_of(&f.node.ty.node),
                        args: f
                            .node
                            .arguments
                            .iter()
                            .map(|a| Arg {
                                name: a.node.name.node.to_string(),
                                ty: pty_of(&a.node.ty.node),
                                default: a.node.default_value.as_ref().map(|v| match FieldValue::try_from(v.node.clone()) {
                                    Ok(v) => DefaultV::Val(v),
                                    Err(_) => DefaultV::Bad,
                                }),
                            })
                            .collect(),
                    })
                    .collect();
                doc.push(Def::Type(TypeDef { name, is_interface, implements: implements.iter().map(|i| i.node.to_string()).collect(), fields }));
            }
        }
    }
    Some(doc)
}

// ------------------------------------------------------------------------------------------------
// Implementation side of C19
// ------------------------------------------------------------------------------------------------

fn names(v: &[String]) -> String {
    format!("({})", v.join(" "))
}

/// One flattened error as `(Variant key…)`; only names and displayed types, never message text.
fn render_error(e: &InvalidSchemaError, out: &mut Vec<String>) {
    use InvalidSchemaError as E;
    match e {
        E::MultipleErrors(v) => {
            for x in &v.0 {
                render_error(x, out);
            }
        }
        E::SchemaParseError(_) => out.push("(SchemaParseError)".into()),
        E::InvalidTypeWideningOfInheritedField(f, t, i, ty, pty) => {
            out.push(format!("(InvalidTypeWideningOfInheritedField {f} {t} {i} {ty} {pty})"))
        }
        E::InvalidTypeNarrowingOfInheritedFieldParameter(f, t, i, p, ty, pty) => {
            out.push(format!("(InvalidTypeNarrowingOfInheritedFieldParameter {f} {t} {i} {p} {ty} {pty})"))
        }
        E::InheritedFieldMissingParameters(f, t, i, ps) => {
            out.push(format!("(InheritedFieldMissingParameters {f} {t} {i} {})", names(ps)))
        }
        E::InheritedFieldUnexpectedParameters(f, t, i, ps) => {
            out.push(format!("(InheritedFieldUnexpectedParameters {f} {t} {i} {})", names(ps)))
        }
        E::InvalidDefaultValueForFieldParameter(t, f, p, ty, _value_text) => {
            out.push(format!("(InvalidDefaultValueForFieldParameter {t} {f} {p} {ty})"))
        }
        E::CircularImplementsRelationships(ts) => out.push(format!("(CircularImplementsRelationships {})", names(ts))),
        E::MissingTransitiveInterfaceImplementation(t, i, j) => {
            out.push(format!("(MissingTransitiveInterfaceImplementation {t} {i} {j})"))
        }
        E::MissingRequiredField(t, i, f, ty) => out.push(format!("(MissingRequiredField {t} {i} {f} {ty})")),
        E::AmbiguousFieldOrigin(t, f, ty, os) => out.push(format!("(AmbiguousFieldOrigin {t} {f} {ty} {})", names(os))),
        E::PropertyFieldWithParameters(t, f, ty, ps) => {
            out.push(format!("(PropertyFieldWithParameters {t} {f} {ty} {})", names(ps)))
        }
        E::InvalidEdgeType(t, f, ty) => out.push(format!("(InvalidEdgeType {t} {f} {ty})")),
        E::UnknownPropertyOrEdgeType(f, ty) => out.push(format!("(UnknownPropertyOrEdgeType {f} {ty})")),
        E::PropertyFieldOnRootQueryType(t, f, ty) => out.push(format!("(PropertyFieldOnRootQueryType {t} {f} {ty})")),
        E::EdgePointsToRootQueryType(t, f, ty) => out.push(format!("(EdgePointsToRootQueryType {t} {f} {ty})")),
        E::ReservedFieldName(t, f) => out.push(format!("(ReservedFieldName {t} {f})")),
        E::ReservedTypeName(t) => out.push(format!("(ReservedTypeName {t})")),
        E::ImplementingNonExistentType(t, i) => out.push(format!("(ImplementingNonExistentType {t} {i})")),
        E::ImplementingNonInterface(t, i) => out.push(format!("(ImplementingNonInterface {t} {i})")),
        E::DuplicateFieldDefinition(t, f) => out.push(format!("(DuplicateFieldDefinition {t} {f})")),
        E::DuplicateTypeOrInterfaceDefinition(t) => out.push(format!("(DuplicateTypeOrInterfaceDefinition {t})")),
        E::DuplicateDirectiveDefinition(n) => out.push(format!("(DuplicateDirectiveDefinition {n})")),
        E::DuplicateScalarDefinition(n) => out.push(format!("(DuplicateScalarDefinition {n})")),
        E::DuplicateSchemaDefinition => out.push("(DuplicateSchemaDefinition)".into()),
        E::MissingSchemaDefinition => out.push("(MissingSchemaDefinition)".into()),
        E::MissingQueryType => out.push("(MissingQueryType)".into()),
        E::UndefinedQueryType(n) => out.push(format!("(UndefinedQueryType {n})")),
        E::QueryTypeNotAnObject(n) => out.push(format!("(QueryTypeNotAnObject {n})")),
        E::BuiltinScalarRedefinition(n) => out.push(format!("(BuiltinScalarRedefinition {n})")),
        E::DuplicateFieldParameterDefinition(t, f, p) => {
            out.push(format!("(DuplicateFieldParameterDefinition {t} {f} {p})"))
        }
        _ => out.push("(UnknownVariant)".into()),
    }
}

/// `Schema::parse` on the rendered text → canonical answer (panics propagate to the framework's guard).
pub fn schema_new_answer(doc: &Doc) -> String {
    let text = render_sdl(doc);
    match Schema::parse(&text) {
        Ok(_) => "ok".to_string(),
        Err(e) => {
            let mut v = vec![];
            render_error(&e, &mut v);
            v.sort();
            format!("(err {})", v.join(" "))
        }
    }
}

// ------------------------------------------------------------------------------------------------
// Generator of valid schemas
// ------------------------------------------------------------------------------------------------

const TYPE_NAMES: [&str; 10] = ["Alpha", "beta", "Gamma", "delta", "Eps", "_Zed", "Z9", "a1", "Omega", "mu_2"];
const SCALARS: [&str; 5] = ["Int", "Float", "String", "Boolean", "ID"];
const ROOT_NAMES: [&str; 4] = ["RootSchemaQuery", "RootSchemaQuery", "Query", "q_root"];

fn type_of<'a>(doc: &'a Doc, n: &str) -> Option<&'a TypeDef> {
    doc.iter().find_map(|d| match d {
        Def::Type(t) if t.name == n => Some(t),
        _ => None,
    })
}

fn types(doc: &Doc) -> Vec<&TypeDef> {
    doc.iter().filter_map(|d| if let Def::Type(t) = d { Some(t) } else { None }).collect()
}

fn types_mut(doc: &mut Doc) -> Vec<&mut TypeDef> {
    doc.iter_mut().filter_map(|d| if let Def::Type(t) = d { Some(t) } else { None }).collect()
}

fn root_name(doc: &Doc) -> Option<String> {
    doc.iter().find_map(|d| if let Def::Schema(q) = d { Some(q.clone()) } else { None })
}

fn random_scalar_ty(rng: &mut Rng, max_depth: usize) -> PTy {
    let base: &str = SCALARS[rng.below(SCALARS.len())];
    let mut t = PTy::named(base, rng.chance(1, 2));
    let d = rng.below(max_depth + 1);
    for _ in 0..d {
        t = PTy::list(t, rng.chance(1, 2));
    }
    t
}

/// a value that is valid for `ty` (never an enum); `None` when no constant fits (`ID!`)
fn value_for(rng: &mut Rng, ty: &PTy) -> Option<FieldValue> {
    if !ty.non_null() && rng.chance(1, 5) {
        return Some(FieldValue::Null);
    }
    match ty {
        PTy::List(inner, _) => {
            let n = rng.below(3);
            let mut items = vec![];
            for _ in 0..n {
                match value_for(rng, inner) {
                    Some(v) => items.push(v),
                    None => break,
                }
            }
            Some(FieldValue::List(items.into()))
        }
        PTy::Named(n, non_null) => match n.as_str() {
            "Int" => Some(match rng.below(5) {
                0 => FieldValue::Int64(0),
                1 => FieldValue::Int64(-(rng.below(1000) as i64)),
                2 => FieldValue::Uint64(u64::MAX - rng.below(3) as u64),
                3 => FieldValue::Int64(i64::MIN),
                _ => FieldValue::Int64(rng.below(100) as i64),
            }),
            "Float" => Some(FieldValue::Float64(*rng.pick(&[1.5, -0.25, 2.0, 1e21, 3.25e-7, 0.1]))),
            "String" => Some(FieldValue::String(Arc::from(*rng.pick(&["", "abc", "a b", "q\"uote", "é", "line\nbreak"])))),
            "Boolean" => Some(FieldValue::Boolean(rng.chance(1, 2))),
            // `ID` admits no constant but `null`
            _ => if *non_null { None } else { Some(FieldValue::Null) },
        },
    }
}

fn default_for(rng: &mut Rng, ty: &PTy) -> Option<DefaultV> {
    value_for(rng, ty).map(DefaultV::Val)
}

/// per-level OR (`or = true`) / AND of the non-null flags of two types of the same shape
fn combine_flags(a: &PTy, b: &PTy, or: bool) -> PTy {
    let f = |x: bool, y: bool| if or { x || y } else { x && y };
    match (a, b) {
        (PTy::Named(n, x), PTy::Named(_, y)) => PTy::Named(n.clone(), f(*x, *y)),
        (PTy::List(i, x), PTy::List(j, y)) => PTy::List(Box::new(combine_flags(i, j, or)), f(*x, *y)),
        _ => a.clone(),
    }
}

/// Narrow a property type: turn some nullable levels non-null.
fn narrow_nullability(rng: &mut Rng, ty: &PTy) -> PTy {
    match ty {
        PTy::Named(n, b) => PTy::Named(n.clone(), *b || rng.chance(1, 3)),
        PTy::List(i, b) => PTy::List(Box::new(narrow_nullability(rng, i)), *b || rng.chance(1, 3)),
    }
}

/// Widen a parameter type: turn some non-null levels nullable.
fn widen_nullability(rng: &mut Rng, ty: &PTy) -> PTy {
    match ty {
        PTy::Named(n, b) => PTy::Named(n.clone(), *b && rng.chance(2, 3)),
        PTy::List(i, b) => PTy::List(Box::new(widen_nullability(rng, i)), *b && rng.chance(2, 3)),
    }
}

fn with_base(ty: &PTy, base: &str) -> PTy {
    match ty {
        PTy::Named(_, b) => PTy::Named(base.to_string(), *b),
        PTy::List(i, b) => PTy::List(Box::new(with_base(i, base)), *b),
    }
}

pub struct GenOpts {
    /// guarantee an interface chain `I2 implements I1`, an implementer of both, a parameterised
    /// inherited edge and a parameterised edge with defaults (so that every mutation applies)
    pub rich: bool,
}

/// A valid schema: `n` vertex types besides the root, some of them interfaces with transitively
/// closed `implements`, own and inherited (possibly narrowed) fields, edges, parameters, defaults.
pub fn gen_valid(rng: &mut Rng, opts: &GenOpts) -> Doc {
    let n = if opts.rich { 3 + rng.below(4) } else { 2 + rng.below(5) };
    let root = rng.pick(&ROOT_NAMES).to_string();
    let mut pool: Vec<&str> = TYPE_NAMES.to_vec();
    let mut names = vec![];
    for _ in 0..n {
        names.push(pool.remove(rng.below(pool.len())).to_string());
    }
    // kinds: interfaces first in `order` so that implements only points backwards (acyclic)
    let n_if = if opts.rich { 2 + rng.below(n - 2) } else { rng.below(n) };
    let is_if: Vec<bool> = (0..n).map(|k| k < n_if).collect();
    // transitively closed implements sets
    let mut impls: Vec<BTreeSet<usize>> = vec![BTreeSet::new(); n];
    for k in 0..n {
        let mut set = BTreeSet::new();
        for j in 0..k.min(n_if) {
            let force = opts.rich && ((k == 1 && j == 0) || (k == n - 1 && j == 1));
            if force || rng.chance(1, 3) {
                set.insert(j);
                set.extend(impls[j].iter().copied());
            }
        }
        impls[k] = set;
    }
    // own fields per type; names carry the owner's index so unrelated types never clash
    let mut own: Vec<Vec<Field>> = vec![];
    for k in 0..n {
        let mut fields = vec![];
        let nf = if opts.rich && k < 2 { 2 + rng.below(2) } else { rng.below(4) };
        for x in 0..nf {
            let fname = format!("{}{}_{}", ["f", "g", "edge", "p"][rng.below(4)], k, x);
            let force_param_edge = opts.rich && k == 0 && x == 0;
            if !force_param_edge && rng.chance(1, 2) {
                fields.push(Field { name: fname, ty: random_scalar_ty(rng, 3), args: vec![] });
            } else {
                let target = rng.below(n);
                let mut ty = PTy::named(&names[target], rng.chance(1, 2));
                if rng.chance(1, 2) {
                    ty = PTy::list(ty, rng.chance(1, 2));
                }
                let mut args = vec![];
                let na = if force_param_edge { 1 + rng.below(2) } else if rng.chance(1, 2) { rng.below(3) } else { 0 };
                for y in 0..na {
                    let aty = random_scalar_ty(rng, 2);
                    let default = if rng.chance(1, 2) { default_for(rng, &aty) } else { None };
                    args.push(Arg { name: format!("{}{}", ["x", "y", "min", "_p"][rng.below(4)], y), ty: aty, default });
                }
                fields.push(Field { name: fname, ty, args });
            }
        }
        own.push(fields);
    }
    // subtypes (for narrowing edge targets): s is a subtype of t when t ∈ impls[s] or s == t
    let subtypes_of = |t: usize| -> Vec<usize> { (0..n).filter(|s| *s == t || impls[*s].contains(&t)).collect() };
    let mut defs: Vec<Def> = vec![];
    let mut full_fields: Vec<Vec<Field>> = vec![vec![]; n];
    for k in 0..n {
        let mut fields: Vec<Field> = vec![];
        // inherited: every field of every implemented interface.  A field reaching this type along
        // several paths must narrow *every* parent's version: non-null flags are OR-ed, parameter
        // flags AND-ed (contravariant); edge targets are only narrowed in object types (leaves), so
        // all interface versions of a field agree on the target.
        let mut merged: Vec<Field> = vec![];
        for j in impls[k].iter() {
            for pf in &full_fields[*j] {
                match merged.iter_mut().find(|f| f.name == pf.name) {
                    None => merged.push(pf.clone()),
                    Some(f) => {
                        f.ty = combine_flags(&f.ty, &pf.ty, true);
                        for a in f.args.iter_mut() {
                            if let Some(pa) = pf.args.iter().find(|pa| pa.name == a.name) {
                                a.ty = combine_flags(&a.ty, &pa.ty, false);
                            }
                        }
                    }
                }
            }
        }
        for pf in merged {
            let mut f = pf.clone();
            let base_is_scalar = SCALARS.contains(&pf.ty.base());
            if rng.chance(1, 2) {
                f.ty = narrow_nullability(rng, &f.ty);
            }
            if !base_is_scalar && !is_if[k] && rng.chance(1, 2) {
                let tidx = names.iter().position(|x| x == pf.ty.base()).unwrap();
                let subs = subtypes_of(tidx);
                f.ty = with_base(&f.ty, &names[*rng.pick(&subs)]);
            }
            for a in f.args.iter_mut() {
                if rng.chance(1, 2) {
                    a.ty = widen_nullability(rng, &a.ty);
                }
                // defaults are per declaration: drop or regenerate
                a.default = match rng.below(3) {
                    0 => None,
                    _ => default_for(rng, &a.ty),
                };
            }
            if rng.chance(1, 4) {
                f.args.reverse();
            }
            fields.push(f);
        }
        fields.extend(own[k].iter().cloned());
        if rng.chance(1, 3) {
            fields.reverse();
        }
        full_fields[k] = fields.clone();
        let mut implements: Vec<String> = impls[k].iter().map(|j| names[*j].clone()).collect();
        if rng.chance(1, 2) {
            implements.reverse();
        }
        defs.push(Def::Type(TypeDef { name: names[k].clone(), is_interface: is_if[k], implements, fields }));
    }
    // root type: entry points
    let mut root_fields = vec![];
    for k in 0..n {
        if k == 0 || rng.chance(2, 3) {
            let mut ty = PTy::named(&names[k], rng.chance(1, 2));
            if rng.chance(1, 2) {
                ty = PTy::list(ty, rng.chance(1, 2));
            }
            let mut args = vec![];
            if rng.chance(1, 3) {
                let aty = random_scalar_ty(rng, 1);
                let default = if rng.chance(1, 2) { default_for(rng, &aty) } else { None };
                args.push(Arg { name: "min".into(), ty: aty, default });
            }
            root_fields.push(Field { name: format!("{}{}", ["", "All", "get_"][rng.below(3)], names[k]), ty, args });
        }
    }
    defs.push(Def::Type(TypeDef { name: root.clone(), is_interface: false, implements: vec![], fields: root_fields }));
    // shuffle type definitions
    for i in (1..defs.len()).rev() {
        defs.swap(i, rng.below(i + 1));
    }
    let mut doc: Doc = vec![];
    let mut extra: Vec<Def> = vec![];
    if rng.chance(4, 5) {
        for (n, _) in PRELUDE {
            extra.push(Def::Directive(n.to_string()));
        }
    }
    if rng.chance(1, 3) {
        extra.push(Def::Directive("custom".into()));
    }
    if rng.chance(1, 3) {
        extra.push(Def::Scalar("Date".into()));
        if rng.chance(1, 2) {
            // a custom scalar may share its name with a vertex type: different tables
            extra.push(Def::Scalar(names[0].clone()));
        }
    }
    // schema block first (as in the repo's schemas), last, or in the middle
    match rng.below(4) {
        0 => {
            doc.extend(extra);
            doc.extend(defs);
            doc.push(Def::Schema(root));
        }
        1 => {
            doc.extend(defs);
            doc.push(Def::Schema(root));
            doc.extend(extra);
        }
        _ => {
            doc.push(Def::Schema(root));
            doc.extend(extra);
            doc.extend(defs);
        }
    }
    doc
}

// ------------------------------------------------------------------------------------------------
// Independent rule checker (written from the documented rules, not from the Rust code)
// ------------------------------------------------------------------------------------------------

fn ancestors(doc: &Doc, t: &str) -> BTreeSet<String> {
    // transitive closure of `implements` over defined types (cycle-safe)
    let mut out = BTreeSet::new();
    let mut todo: Vec<String> = type_of(doc, t).map(|d| d.implements.clone()).unwrap_or_default();
    while let Some(x) = todo.pop() {
        if out.insert(x.clone()) {
            if let Some(d) = type_of(doc, &x) {
                todo.extend(d.implements.iter().cloned());
            }
        }
    }
    out
}

fn fits(ty: &PTy, v: &FieldValue) -> bool {
    match (ty, v) {
        (_, FieldValue::Null) => !ty.non_null(),
        (PTy::Named(n, _), FieldValue::Int64(_) | FieldValue::Uint64(_)) => n == "Int",
        (PTy::Named(n, _), FieldValue::Float64(_)) => n == "Float",
        (PTy::Named(n, _), FieldValue::String(_)) => n == "String",
        (PTy::Named(n, _), FieldValue::Boolean(_)) => n == "Boolean",
        (PTy::List(inner, _), FieldValue::List(l)) => l.iter().all(|x| fits(inner, x)),
        _ => false,
    }
}

/// parent non-null ⇒ child non-null at every level, same list structure; returns the two base names
fn narrowed_shape<'a>(parent: &'a PTy, child: &'a PTy) -> Option<(&'a str, &'a str)> {
    if parent.non_null() && !child.non_null() {
        return None;
    }
    match (parent, child) {
        (PTy::Named(p, _), PTy::Named(c, _)) => Some((p, c)),
        (PTy::List(p, _), PTy::List(c, _)) => narrowed_shape(p, c),
        _ => None,
    }
}

/// The documented rules that `doc` violates (empty = valid schema).
pub fn rule_violations(doc: &Doc) -> BTreeSet<&'static str> {
    let mut bad = BTreeSet::new();
    let ts = types(doc);
    let blocks: Vec<&String> = doc.iter().filter_map(|d| if let Def::Schema(q) = d { Some(q) } else { None }).collect();
    let root = if blocks.len() == 1 { Some(blocks[0].clone()) } else { None };
    match &root {
        None => {
            bad.insert("one-schema-block");
        }
        Some(q) => match type_of(doc, q) {
            Some(t) if !t.is_interface => {}
            _ => {
                bad.insert("query-type-is-defined-object");
            }
        },
    }
    let mut seen = BTreeSet::new();
    for t in &ts {
        if !seen.insert(&t.name) {
            bad.insert("types-distinct");
        }
        let mut fs = BTreeSet::new();
        for f in &t.fields {
            if !fs.insert(&f.name) {
                bad.insert("fields-distinct");
            }
            let mut ps = BTreeSet::new();
            for a in &f.args {
                if !ps.insert(&a.name) {
                    // a parameter name is declared once per field (GraphQL: argument names of a field
                    // definition are unique; the frontend relies on it — F-C10-5)
                    bad.insert("parameters-distinct");
                }
            }
        }
    }
    let mut dn = BTreeSet::new();
    let mut sn = BTreeSet::new();
    for d in doc {
        match d {
            Def::Directive(n) => {
                if !dn.insert(n) {
                    bad.insert("directives-distinct");
                }
            }
            Def::Scalar(n) => {
                if !sn.insert(n) {
                    bad.insert("scalars-distinct");
                }
                if SCALARS.contains(&n.as_str()) {
                    bad.insert("builtin-not-redefined");
                }
            }
            Def::Type(t) => {
                if SCALARS.contains(&t.name.as_str()) {
                    bad.insert("builtin-not-redefined");
                }
            }
            _ => {}
        }
    }
    let is_vertex = |n: &str| ts.iter().any(|t| t.name == n);
    for t in &ts {
        if t.name.starts_with("__") {
            bad.insert("no-reserved-names");
        }
        let anc = ancestors(doc, &t.name);
        if anc.contains(&t.name) {
            bad.insert("no-implementation-cycles");
        }
        for i in &t.implements {
            match type_of(doc, i) {
                None => {
                    bad.insert("implemented-types-exist");
                }
                Some(d) => {
                    if !d.is_interface {
                        bad.insert("implemented-types-are-interfaces");
                    }
                }
            }
        }
        for a in &anc {
            if !t.implements.contains(a) {
                bad.insert("implements-transitively");
            }
            let Some(d) = type_of(doc, a) else { continue };
            for pf in &d.fields {
                let Some(f) = t.fields.iter().find(|f| f.name == pf.name) else {
                    bad.insert("inherited-fields-present");
                    continue;
                };
                match narrowed_shape(&pf.ty, &f.ty) {
                    None => {
                        bad.insert("inherited-fields-only-narrowed");
                    }
                    Some((p, c)) => {
                        let ok = p == c || (is_vertex(p) && is_vertex(c) && ancestors(doc, c).contains(p));
                        if !ok {
                            bad.insert("inherited-fields-only-narrowed");
                        }
                    }
                }
                let pn: BTreeSet<&String> = pf.args.iter().map(|a| &a.name).collect();
                let cn: BTreeSet<&String> = f.args.iter().map(|a| &a.name).collect();
                if pn != cn {
                    bad.insert("inherited-parameters-same-names");
                }
                for ca in &f.args {
                    for pa in pf.args.iter().filter(|pa| pa.name == ca.name) {
                        // contravariant: the parent's parameter type is a narrowing of the child's
                        match narrowed_shape(&ca.ty, &pa.ty) {
                            Some((c, p)) if c == p => {}
                            _ => {
                                bad.insert("inherited-parameters-only-widened");
                            }
                        }
                    }
                }
            }
        }
        for f in &t.fields {
            if f.name.starts_with("__") {
                bad.insert("no-reserved-names");
            }
            let base = f.ty.base();
            if SCALARS.contains(&base) {
                if !f.args.is_empty() {
                    bad.insert("properties-take-no-parameters");
                }
                if Some(&t.name) == root.as_ref() {
                    bad.insert("root-fields-are-edges");
                }
            } else if is_vertex(base) {
                if Some(base) == root.as_deref() {
                    bad.insert("no-edges-into-root");
                }
                if f.ty.depth() > 1 {
                    bad.insert("edge-types-not-nested-lists");
                }
                for a in &f.args {
                    match &a.default {
                        None => {}
                        Some(DefaultV::Bad) => {
                            bad.insert("defaults-fit");
                        }
                        Some(DefaultV::Val(v)) => {
                            if !fits(&a.ty, v) {
                                bad.insert("defaults-fit");
                            }
                        }
                    }
                }
            } else {
                bad.insert("field-types-known");
            }
        }
        // ambiguous origins: the types among `t` and its ancestors that introduce field `f`
        for f in &t.fields {
            let mut origins = BTreeSet::new();
            let mut cands: Vec<String> = anc.iter().cloned().collect();
            cands.push(t.name.clone());
            for c in cands {
                let Some(d) = type_of(doc, &c) else { continue };
                if !d.fields.iter().any(|x| x.name == f.name) {
                    continue;
                }
                let introduced = !ancestors(doc, &c)
                    .iter()
                    .any(|a| type_of(doc, a).is_some_and(|ad| ad.fields.iter().any(|x| x.name == f.name)));
                if introduced {
                    origins.insert(c);
                }
            }
            if origins.len() > 1 {
                bad.insert("no-ambiguous-field-origins");
            }
        }
    }
    bad
}

/// Former panic documents (F-16 … F-21b): what the early-return errors of `Schema::new` may truthfully say.
/// `Some(reason)` when the rendered error `(Variant args…)` claims something the document does not show.
fn untruthful_early_error(doc: &Doc, variant: &str, args: &[&str]) -> Option<String> {
    let blocks: Vec<&String> = doc.iter().filter_map(|d| if let Def::Schema(q) = d { Some(q) } else { None }).collect();
    let count = |f: &dyn Fn(&Def) -> bool| doc.iter().filter(|d| f(d)).count();
    let bad = |why: &str| Some(format!("{variant} {args:?}: {why}"));
    match (variant, args) {
        ("DuplicateSchemaDefinition", []) if blocks.len() < 2 => bad("fewer than two schema blocks"),
        ("MissingSchemaDefinition", []) if !blocks.is_empty() => bad("there is a schema block"),
        ("UndefinedQueryType", [q]) if !(blocks.len() == 1 && blocks[0] == q && type_of(doc, q).is_none()) => {
            bad("not the undefined query type of the only schema block")
        }
        ("QueryTypeNotAnObject", [q])
            if !(blocks.len() == 1 && blocks[0] == q && type_of(doc, q).is_some_and(|t| t.is_interface)) =>
        {
            bad("not an interface named by the only schema block")
        }
        ("BuiltinScalarRedefinition", [n])
            if !(SCALARS.contains(n)
                && count(&|d| match d {
                    Def::Scalar(x) | Def::Unsupported(_, x) => x == n,
                    Def::Type(t) => t.name == *n,
                    _ => false,
                }) >= 1) =>
        {
            bad("no definition with that built-in name")
        }
        ("DuplicateDirectiveDefinition", [n]) if count(&|d| matches!(d, Def::Directive(x) if x == n)) < 2 => {
            bad("directive not defined twice")
        }
        ("DuplicateScalarDefinition", [n]) if count(&|d| matches!(d, Def::Scalar(x) if x == n)) < 2 => {
            bad("scalar not defined twice")
        }
        ("MissingQueryType", _) => bad("the text parser rejects a schema block without `query:`"),
        ("DuplicateFieldParameterDefinition", [t, f, p])
            if !types(doc).iter().any(|d| {
                d.name == *t && d.fields.iter().any(|x| x.name == *f && x.args.iter().filter(|a| a.name == *p).count() >= 2)
            }) =>
        {
            bad("no such field declaring that parameter twice")
        }
        _ => None,
    }
}

/// When exactly ONE documented rule is violated and it is one of the rules whose violation used to
/// panic, the answer is determined by the documentation of the new variants: the expected answer text.
fn expected_early_error(doc: &Doc, violated: &BTreeSet<&'static str>) -> Option<String> {
    if violated.len() != 1 {
        return None;
    }
    let blocks: Vec<&String> = doc.iter().filter_map(|d| if let Def::Schema(q) = d { Some(q) } else { None }).collect();
    let first_repeated = |names: Vec<&String>| -> Option<String> {
        let mut seen = BTreeSet::new();
        names.into_iter().find(|n| !seen.insert((*n).clone())).cloned()
    };
    let e = match *violated.iter().next().unwrap() {
        "one-schema-block" => {
            if blocks.is_empty() { "(MissingSchemaDefinition)".to_string() } else { "(DuplicateSchemaDefinition)".to_string() }
        }
        "query-type-is-defined-object" => match type_of(doc, blocks[0]) {
            None => format!("(UndefinedQueryType {})", blocks[0]),
            Some(_) => format!("(QueryTypeNotAnObject {})", blocks[0]),
        },
        "directives-distinct" => format!(
            "(DuplicateDirectiveDefinition {})",
            first_repeated(doc.iter().filter_map(|d| if let Def::Directive(n) = d { Some(n) } else { None }).collect())?
        ),
        "scalars-distinct" => format!(
            "(DuplicateScalarDefinition {})",
            first_repeated(doc.iter().filter_map(|d| if let Def::Scalar(n) = d { Some(n) } else { None }).collect())?
        ),
        "builtin-not-redefined" => format!(
            "(BuiltinScalarRedefinition {})",
            doc.iter().find_map(|d| match d {
                Def::Scalar(n) if SCALARS.contains(&n.as_str()) => Some(n),
                Def::Type(t) if SCALARS.contains(&t.name.as_str()) => Some(&t.name),
                _ => None,
            })?
        ),
        "parameters-distinct" => {
            // the first field in document order that repeats a parameter name; its first repeated name
            let (t, f, p) = types(doc).iter().find_map(|t| {
                t.fields.iter().find_map(|f| {
                    first_repeated(f.args.iter().map(|a| &a.name).collect()).map(|p| (t.name.clone(), f.name.clone(), p))
                })
            })?;
            format!("(DuplicateFieldParameterDefinition {t} {f} {p})")
        }
        _ => return None,
    };
    Some(format!("(err {e})"))
}

/// Features outside the documented rules on which the accept ⇔ valid oracle is silent.
/// (Until the repair of F-C10-5 duplicate parameter names were in this class too: Schema::parse accepted
/// them; they violate the rule `parameters-distinct` now.)
fn undocumented(doc: &Doc) -> Option<&'static str> {
    for d in doc {
        if let Def::Unsupported(..) = d {
            return Some("unsupported-definition");
        }
    }
    None
}

// ------------------------------------------------------------------------------------------------
// Malformed stream: mutations of a valid schema
// ------------------------------------------------------------------------------------------------

fn deep(base: &str, levels: usize) -> PTy {
    let mut t = PTy::named(base, false);
    for _ in 0..levels {
        t = PTy::list(t, false);
    }
    t
}

pub const MUTATIONS: [&str; 45] = [
    "missing-interface",
    "implements-object",
    "non-transitive",
    "missing-inherited-field",
    "widen-nullability",
    "change-base",
    "change-depth",
    "edge-to-supertype",
    "drop-parameter",
    "extra-parameter",
    "narrow-parameter",
    "change-parameter-base",
    "unknown-field-type",
    "custom-scalar-field",
    "reserved-type-name",
    "reserved-field-name",
    "edge-into-root",
    "property-with-parameters",
    "ill-typed-default",
    "null-default-non-null",
    "object-default",
    "list-of-list-edge",
    "root-property",
    "self-cycle",
    "two-cycle",
    "three-cycle",
    "cycle-dependent",
    "ambiguous-origin",
    "diamond-origin",
    "dup-schema-block",
    "no-schema-block",
    "query-type-undefined",
    "query-type-interface",
    "redefine-builtin-scalar",
    "redefine-builtin-type",
    "dup-directive",
    "dup-scalar",
    "deep-field-type",
    "deep-parameter-type",
    "enum-default",
    "enum-default-shadowed",
    "dup-type",
    "dup-field",
    "dup-implements",
    "dup-parameter",
];

/// Apply mutation `m`; `false` when the document offers no place for it.
pub fn mutate(doc: &mut Doc, m: &str, rng: &mut Rng) -> bool {
    let root = root_name(doc);
    let n_types = types(doc).len();
    if n_types == 0 {
        return false;
    }
    // (type index among types, field index) of fields satisfying a predicate
    let pick_field = |doc: &Doc, rng: &mut Rng, pred: &dyn Fn(&TypeDef, &Field) -> bool| -> Option<(usize, usize)> {
        let mut c = vec![];
        for (ti, t) in types(doc).iter().enumerate() {
            for (fi, f) in t.fields.iter().enumerate() {
                if pred(t, f) {
                    c.push((ti, fi));
                }
            }
        }
        if c.is_empty() { None } else { Some(*rng.pick(&c)) }
    };
    // inherited fields: (type, field) where some implemented type has the field too
    let snapshot = doc.clone();
    let inherited = |t: &TypeDef, f: &Field| {
        t.implements.iter().any(|i| type_of(&snapshot, i).is_some_and(|d| d.fields.iter().any(|x| x.name == f.name)))
    };
    let is_scalar = |f: &Field| SCALARS.contains(&f.ty.base());
    let non_root = |t: &TypeDef| Some(&t.name) != root.as_ref();
    match m {
        "missing-interface" => {
            let k = rng.below(n_types);
            types_mut(doc)[k].implements.push("Nope".into());
            true
        }
        "implements-object" => {
            let objs: Vec<String> = types(doc).iter().filter(|t| !t.is_interface && non_root(t)).map(|t| t.name.clone()).collect();
            if objs.is_empty() {
                return false;
            }
            let o = rng.pick(&objs).clone();
            let cands: Vec<usize> = types(doc).iter().enumerate().filter(|(_, t)| t.name != o && non_root(t)).map(|x| x.0).collect();
            if cands.is_empty() {
                return false;
            }
            let k = *rng.pick(&cands);
            types_mut(doc)[k].implements.push(o);
            true
        }
        "non-transitive" => {
            // some t implements i, i implements j: drop j from t
            let mut c = vec![];
            for (ti, t) in types(doc).iter().enumerate() {
                for i in &t.implements {
                    if let Some(d) = type_of(doc, i) {
                        for j in &d.implements {
                            if t.implements.contains(j) {
                                c.push((ti, j.clone()));
                            }
                        }
                    }
                }
            }
            if c.is_empty() {
                return false;
            }
            let (ti, j) = rng.pick(&c).clone();
            types_mut(doc)[ti].implements.retain(|x| *x != j);
            true
        }
        "missing-inherited-field" => match pick_field(doc, rng, &|t, f| inherited(t, f)) {
            Some((ti, fi)) => {
                types_mut(doc)[ti].fields.remove(fi);
                true
            }
            None => false,
        },
        "widen-nullability" => {
            // make the parent's version strictly more non-null than the child's at the top level
            match pick_field(doc, rng, &|t, f| inherited(t, f)) {
                Some((ti, fi)) => {
                    let (tname, fname) = {
                        let t = &types(doc)[ti];
                        (t.name.clone(), t.fields[fi].name.clone())
                    };
                    let parents: Vec<String> = type_of(doc, &tname).unwrap().implements.clone();
                    {
                        let f = &mut types_mut(doc)[ti].fields[fi];
                        f.ty = match &f.ty {
                            PTy::Named(n, _) => PTy::Named(n.clone(), false),
                            PTy::List(i, _) => PTy::List(i.clone(), false),
                        };
                    }
                    for t in types_mut(doc) {
                        if parents.contains(&t.name) {
                            for f in t.fields.iter_mut().filter(|f| f.name == fname) {
                                f.ty = match &f.ty {
                                    PTy::Named(n, _) => PTy::Named(n.clone(), true),
                                    PTy::List(i, _) => PTy::List(i.clone(), true),
                                };
                            }
                        }
                    }
                    true
                }
                None => false,
            }
        }
        "change-base" => match pick_field(doc, rng, &|t, f| inherited(t, f) && is_scalar(f)) {
            Some((ti, fi)) => {
                let f = &mut types_mut(doc)[ti].fields[fi];
                let nb = if f.ty.base() == "Int" { "String" } else { "Int" };
                f.ty = with_base(&f.ty, nb);
                true
            }
            None => false,
        },
        "change-depth" => match pick_field(doc, rng, &|t, f| inherited(t, f) && is_scalar(f)) {
            Some((ti, fi)) => {
                let f = &mut types_mut(doc)[ti].fields[fi];
                f.ty = match &f.ty {
                    PTy::List(i, _) if rng.chance(1, 2) => (**i).clone(),
                    other => PTy::list(other.clone(), other.non_null()),
                };
                true
            }
            None => false,
        },
        "edge-to-supertype" => {
            // child edge points to an unrelated / super type of the parent's target
            match pick_field(doc, rng, &|t, f| inherited(t, f) && !is_scalar(f)) {
                Some((ti, fi)) => {
                    let cur = types(doc)[ti].fields[fi].ty.base().to_string();
                    let anc = ancestors(doc, &cur);
                    let others: Vec<String> = types(doc)
                        .iter()
                        .filter(|t| t.name != cur && non_root(t))
                        .map(|t| t.name.clone())
                        .collect();
                    let _ = anc;
                    if others.is_empty() {
                        return false;
                    }
                    let nb = rng.pick(&others).clone();
                    let f = &mut types_mut(doc)[ti].fields[fi];
                    f.ty = with_base(&f.ty, &nb);
                    true
                }
                None => false,
            }
        }
        "drop-parameter" => match pick_field(doc, rng, &|t, f| inherited(t, f) && !f.args.is_empty()) {
            Some((ti, fi)) => {
                let f = &mut types_mut(doc)[ti].fields[fi];
                let k = rng.below(f.args.len());
                f.args.remove(k);
                true
            }
            None => false,
        },
        "extra-parameter" => match pick_field(doc, rng, &|t, f| inherited(t, f) && !is_scalar(f)) {
            Some((ti, fi)) => {
                let f = &mut types_mut(doc)[ti].fields[fi];
                f.args.push(Arg { name: "extra".into(), ty: PTy::named("Int", false), default: None });
                true
            }
            None => false,
        },
        "narrow-parameter" => {
            // child parameter non-null where the parent's is nullable
            match pick_field(doc, rng, &|t, f| inherited(t, f) && !f.args.is_empty()) {
                Some((ti, fi)) => {
                    let (tname, fname, aname) = {
                        let t = &types(doc)[ti];
                        let f = &t.fields[fi];
                        (t.name.clone(), f.name.clone(), f.args[rng.below(f.args.len())].name.clone())
                    };
                    let parents = type_of(doc, &tname).unwrap().implements.clone();
                    for t in types_mut(doc) {
                        let is_child = t.name == tname;
                        if is_child || parents.contains(&t.name) {
                            for f in t.fields.iter_mut().filter(|f| f.name == fname) {
                                for a in f.args.iter_mut().filter(|a| a.name == aname) {
                                    a.ty = match &a.ty {
                                        PTy::Named(n, _) => PTy::Named(n.clone(), is_child),
                                        PTy::List(i, _) => PTy::List(i.clone(), is_child),
                                    };
                                    if is_child {
                                        a.default = None;
                                    }
                                }
                            }
                        }
                    }
                    true
                }
                None => false,
            }
        }
        "change-parameter-base" => match pick_field(doc, rng, &|t, f| inherited(t, f) && !f.args.is_empty()) {
            Some((ti, fi)) => {
                let f = &mut types_mut(doc)[ti].fields[fi];
                let k = rng.below(f.args.len());
                let nb = if f.args[k].ty.base() == "Int" { "String" } else { "Int" };
                f.args[k].ty = with_base(&f.args[k].ty, nb);
                f.args[k].default = None;
                true
            }
            None => false,
        },
        "unknown-field-type" | "custom-scalar-field" => {
            let k = rng.below(n_types);
            let base = if m == "unknown-field-type" {
                "Nope"
            } else {
                doc.push(Def::Scalar("Custom".into()));
                "Custom"
            };
            let ty = if rng.chance(1, 2) { PTy::named(base, rng.chance(1, 2)) } else { PTy::list(PTy::named(base, true), false) };
            types_mut(doc)[k].fields.push(Field { name: "mystery".into(), ty, args: vec![] });
            true
        }
        "reserved-type-name" => {
            doc.push(Def::Type(TypeDef {
                name: "__Hidden".into(),
                is_interface: rng.chance(1, 2),
                implements: vec![],
                fields: vec![Field { name: "x".into(), ty: PTy::named("Int", false), args: vec![] }],
            }));
            true
        }
        "reserved-field-name" => {
            let k = rng.below(n_types);
            let target = types(doc).iter().find(|t| non_root(t)).map(|t| t.name.clone());
            let ty = match (rng.chance(1, 2), target) {
                (true, Some(t)) => PTy::named(&t, false),
                _ => PTy::named("Int", false),
            };
            types_mut(doc)[k].fields.push(Field { name: "__secret".into(), ty, args: vec![] });
            true
        }
        "edge-into-root" => {
            let Some(r) = root.clone() else { return false };
            let k = rng.below(n_types);
            let ty = if rng.chance(1, 2) { PTy::named(&r, rng.chance(1, 2)) } else { PTy::list(PTy::named(&r, true), false) };
            let args = if rng.chance(1, 2) {
                vec![Arg { name: "x".into(), ty: PTy::named("Int", true), default: Some(DefaultV::Val(FieldValue::Null)) }]
            } else {
                vec![]
            };
            types_mut(doc)[k].fields.push(Field { name: "back".into(), ty, args });
            true
        }
        "property-with-parameters" => {
            let cands: Vec<usize> = types(doc).iter().enumerate().filter(|(_, t)| non_root(t)).map(|x| x.0).collect();
            if cands.is_empty() {
                return false;
            }
            let k = *rng.pick(&cands);
            let args = vec![
                Arg { name: "x".into(), ty: PTy::named("Int", false), default: None },
                Arg { name: "y".into(), ty: PTy::named("String", true), default: Some(DefaultV::Val(FieldValue::Int64(3))) },
            ];
            types_mut(doc)[k].fields.push(Field { name: "prop".into(), ty: random_scalar_ty(rng, 2), args });
            true
        }
        "ill-typed-default" | "null-default-non-null" | "object-default" | "enum-default" | "enum-default-shadowed"
        | "deep-parameter-type" => {
            let target = types(doc).iter().find(|t| non_root(t)).map(|t| t.name.clone());
            let Some(target) = target else { return false };
            let k = rng.below(n_types);
            let (ty, default) = match m {
                "ill-typed-default" => match rng.below(5) {
                    0 => (PTy::named("Int", false), DefaultV::Val(FieldValue::String("x".into()))),
                    1 => (PTy::named("Float", false), DefaultV::Val(FieldValue::Int64(1))),
                    2 => (PTy::list(PTy::named("Int", true), false), DefaultV::Val(FieldValue::List(vec![FieldValue::Int64(1), FieldValue::Null].into()))),
                    3 => (PTy::named("ID", false), DefaultV::Val(FieldValue::String("id".into()))),
                    _ => (PTy::named("String", true), DefaultV::Val(FieldValue::List(vec![].into()))),
                },
                "null-default-non-null" => (PTy::named("Int", true), DefaultV::Val(FieldValue::Null)),
                "object-default" => (PTy::named("Int", false), DefaultV::Bad),
                "enum-default" => {
                    // regression stream of F-C19-1 (repaired): the enum constant is inspected by
                    // is_valid_value — it panicked (`unimplemented!`), now an invalid default value
                    if rng.chance(1, 2) {
                        (PTy::named("Int", false), DefaultV::Val(FieldValue::Enum("FOO".into())))
                    } else {
                        (
                            PTy::list(PTy::named("Int", false), false),
                            DefaultV::Val(FieldValue::List(vec![FieldValue::Int64(1), FieldValue::Enum("FOO".into())].into())),
                        )
                    }
                }
                "enum-default-shadowed" => {
                    // the enum constant is never inspected: an earlier element / the shape already fails
                    if rng.chance(1, 2) {
                        (
                            PTy::list(PTy::named("Int", false), false),
                            DefaultV::Val(FieldValue::List(vec![FieldValue::Float64(1.5), FieldValue::Enum("FOO".into())].into())),
                        )
                    } else {
                        (PTy::named("Int", false), DefaultV::Val(FieldValue::List(vec![FieldValue::Enum("FOO".into())].into())))
                    }
                }
                _ => (deep("Int", 31), DefaultV::Val(FieldValue::Null)),
            };
            let with_default = m != "deep-parameter-type" || rng.chance(1, 2);
            types_mut(doc)[k].fields.push(Field {
                name: "withDefault".into(),
                ty: PTy::named(&target, false),
                args: vec![Arg { name: "p".into(), ty, default: if with_default { Some(default) } else { None } }],
            });
            true
        }
        "list-of-list-edge" => {
            let target = types(doc).iter().find(|t| non_root(t)).map(|t| t.name.clone());
            let Some(target) = target else { return false };
            let k = rng.below(n_types);
            let lv = 2 + rng.below(2);
            let mut ty = PTy::named(&target, true);
            for _ in 0..lv {
                ty = PTy::list(ty, rng.chance(1, 2));
            }
            types_mut(doc)[k].fields.push(Field { name: "nested".into(), ty, args: vec![] });
            true
        }
        "root-property" => {
            let Some(r) = root.clone() else { return false };
            for t in types_mut(doc) {
                if t.name == r {
                    t.fields.push(Field { name: "count".into(), ty: random_scalar_ty(rng, 1), args: vec![] });
                    return true;
                }
            }
            false
        }
        "self-cycle" | "two-cycle" | "three-cycle" => {
            let len = match m {
                "self-cycle" => 1,
                "two-cycle" => 2,
                _ => 3,
            };
            let names: Vec<String> = (0..len).map(|k| format!("Cyc{k}")).collect();
            for k in 0..len {
                let mut implements = vec![names[(k + 1) % len].clone()];
                if len == 3 {
                    // keep the transitive-implementation rule satisfied so that only the cycle is wrong
                    implements.push(names[(k + 2) % len].clone());
                }
                doc.push(Def::Type(TypeDef {
                    name: names[k].clone(),
                    is_interface: true,
                    implements,
                    fields: vec![Field { name: "cyc".into(), ty: PTy::named("Int", false), args: vec![] }],
                }));
            }
            true
        }
        "cycle-dependent" => {
            // a type that is not on a cycle but implements a member of one stays unresolved too; with a
            // name sorting before the cycle it is the one the error reports
            let on_cycle = rng.chance(1, 2);
            doc.push(Def::Type(TypeDef {
                name: "Loop".into(),
                is_interface: true,
                implements: vec!["Loop".into()],
                fields: vec![Field { name: "cyc".into(), ty: PTy::named("Int", false), args: vec![] }],
            }));
            doc.push(Def::Type(TypeDef {
                name: if on_cycle { "Zz_dep".into() } else { "AaDep".into() },
                is_interface: rng.chance(1, 2),
                implements: vec!["Loop".into()],
                fields: vec![Field { name: "cyc".into(), ty: PTy::named("Int", false), args: vec![] }],
            }));
            true
        }
        "ambiguous-origin" | "diamond-origin" => {
            // two interfaces with the same field; diamond: both inherit it from a common base (fine)
            let diamond = m == "diamond-origin";
            let f = Field { name: "shared".into(), ty: PTy::named("String", false), args: vec![] };
            if diamond {
                doc.push(Def::Type(TypeDef { name: "DBase".into(), is_interface: true, implements: vec![], fields: vec![f.clone()] }));
            }
            let base_impl: Vec<String> = if diamond { vec!["DBase".into()] } else { vec![] };
            doc.push(Def::Type(TypeDef { name: "DLeft".into(), is_interface: true, implements: base_impl.clone(), fields: vec![f.clone()] }));
            doc.push(Def::Type(TypeDef { name: "DRight".into(), is_interface: true, implements: base_impl.clone(), fields: vec![f.clone()] }));
            let mut implements = vec!["DLeft".to_string(), "DRight".to_string()];
            implements.extend(base_impl);
            doc.push(Def::Type(TypeDef { name: "DBoth".into(), is_interface: rng.chance(1, 2), implements, fields: vec![f] }));
            true
        }
        "dup-schema-block" => {
            let Some(r) = root.clone() else { return false };
            let at = rng.below(doc.len() + 1);
            doc.insert(at, Def::Schema(r));
            true
        }
        "no-schema-block" => {
            doc.retain(|d| !matches!(d, Def::Schema(_)));
            true
        }
        "query-type-undefined" => {
            for d in doc.iter_mut() {
                if let Def::Schema(q) = d {
                    *q = "Missing".into();
                }
            }
            if rng.chance(1, 2) {
                doc.push(Def::Scalar("Missing".into()));
            }
            true
        }
        "query-type-interface" => {
            let Some(r) = root.clone() else { return false };
            for t in types_mut(doc) {
                if t.name == r {
                    t.is_interface = true;
                }
            }
            true
        }
        "redefine-builtin-scalar" => {
            let at = rng.below(doc.len() + 1);
            doc.insert(at, Def::Scalar(rng.pick(&SCALARS).to_string()));
            true
        }
        "redefine-builtin-type" => {
            let at = rng.below(doc.len() + 1);
            doc.insert(
                at,
                Def::Type(TypeDef {
                    name: rng.pick(&SCALARS).to_string(),
                    is_interface: rng.chance(1, 2),
                    implements: vec![],
                    fields: vec![Field { name: "x".into(), ty: PTy::named("Int", false), args: vec![] }],
                }),
            );
            true
        }
        "dup-directive" => {
            let n = doc.iter().find_map(|d| if let Def::Directive(n) = d { Some(n.clone()) } else { None }).unwrap_or("custom".into());
            if !doc.iter().any(|d| matches!(d, Def::Directive(_))) {
                doc.push(Def::Directive(n.clone()));
            }
            let at = rng.below(doc.len() + 1);
            doc.insert(at, Def::Directive(n));
            true
        }
        "dup-scalar" => {
            doc.push(Def::Scalar("Twice".into()));
            let at = rng.below(doc.len() + 1);
            doc.insert(at, Def::Scalar("Twice".into()));
            true
        }
        "deep-field-type" => {
            let k = rng.below(n_types);
            let lv = *rng.pick(&[30usize, 31, 31, 32, 40]);
            types_mut(doc)[k].fields.push(Field { name: "deep".into(), ty: deep("Int", lv), args: vec![] });
            true
        }
        "dup-type" => {
            let k = rng.below(n_types);
            let mut t = types(doc)[k].clone();
            if rng.chance(1, 2) {
                t.is_interface = !t.is_interface;
                t.fields.truncate(1);
            }
            let at = rng.below(doc.len() + 1);
            doc.insert(at, Def::Type(t));
            true
        }
        "dup-field" => match pick_field(doc, rng, &|_, _| true) {
            Some((ti, fi)) => {
                let t = &mut types_mut(doc)[ti];
                let mut f = t.fields[fi].clone();
                if rng.chance(1, 2) {
                    f.ty = PTy::named("Int", true);
                    f.args.clear();
                }
                t.fields.push(f);
                true
            }
            None => false,
        },
        "dup-implements" => {
            let cands: Vec<usize> = types(doc).iter().enumerate().filter(|(_, t)| !t.implements.is_empty()).map(|x| x.0).collect();
            if cands.is_empty() {
                return false;
            }
            let k = *rng.pick(&cands);
            let t = &mut types_mut(doc)[k];
            let i = t.implements[rng.below(t.implements.len())].clone();
            t.implements.push(i);
            true
        }
        "dup-parameter" => match pick_field(doc, rng, &|_, f| !f.args.is_empty()) {
            Some((ti, fi)) => {
                let f = &mut types_mut(doc)[ti].fields[fi];
                let mut a = f.args[rng.below(f.args.len())].clone();
                if rng.chance(1, 2) {
                    a.ty = PTy::named("String", true);
                    a.default = None;
                }
                if rng.chance(1, 2) {
                    f.args.push(a);
                } else {
                    f.args.insert(0, a);
                }
                true
            }
            None => false,
        },
        _ => false,
    }
}

// ------------------------------------------------------------------------------------------------
// Inherited-field type matrix: enumerated (not sampled) parent type × child type of one inherited field
// ------------------------------------------------------------------------------------------------
//
// Fixed hierarchy: `interface Base`, `interface Derived implements Base`,
// `type Leaf implements Derived & Base`, unrelated `type Other`, a root with one edge to each.  One
// field (`theEdge` / `theProp`) is declared with type P in the parent and re-declared with type C in
// the child; everything else in the document is valid, so the inherited-field type rule decides.

const MATRIX_VERTICES: [&str; 4] = ["Base", "Derived", "Leaf", "Other"];

/// Where the matrix field is introduced (with P) and where it is re-declared (with C).
#[derive(Clone, Copy, PartialEq, Debug)]
pub enum MatrixHolder {
    /// introduced in `Derived` (interface), re-declared in `Leaf` (object): one parent/child pair
    IfaceToObject,
    /// introduced in `Base`, re-declared in the interface `Derived`; `Leaf` repeats `Derived`'s version
    /// (pairs Derived/Base and Leaf/Base carry P → C, Leaf/Derived is C → C)
    IfaceToIface,
    /// introduced in `Base`, repeated unchanged by `Derived`, re-declared in `Leaf`
    /// (P → C is checked against both ancestors of `Leaf`)
    ThroughIface,
}

/// every type over `base` with list depth ≤ `max_depth` and every combination of non-null flags
fn all_shapes(base: &str, max_depth: usize) -> Vec<PTy> {
    let mut out = vec![];
    for d in 0..=max_depth {
        for bits in 0..(1u32 << (d + 1)) {
            // bit 0: the named (innermost) level; bit k: the k-th list level around it
            let mut t = PTy::named(base, bits & 1 == 1);
            for lv in 1..=d {
                t = PTy::list(t, (bits >> lv) & 1 == 1);
            }
            out.push(t);
        }
    }
    out
}

/// the relation of the child's named type to the parent's, in the fixed hierarchy (closed form)
fn matrix_relation(parent: &str, child: &str) -> &'static str {
    match (parent, child) {
        (p, c) if p == c => "same",
        ("Base", "Derived") | ("Derived", "Leaf") => "direct-subtype",
        ("Base", "Leaf") => "indirect-subtype",
        ("Derived", "Base") | ("Leaf", "Derived") | ("Leaf", "Base") => "supertype",
        _ => "unrelated",
    }
}

fn flags_outermost_first(t: &PTy) -> Vec<bool> {
    let mut v = vec![];
    let mut cur = t;
    loop {
        v.push(cur.non_null());
        match cur {
            PTy::Named(..) => return v,
            PTy::List(i, _) => cur = i,
        }
    }
}

/// closed-form verdict of the matrix cell (independent of `rule_violations`): the named type is kept or
/// narrowed, the list structure is the same, and no level goes from non-null to nullable
fn matrix_cell_legal(p: &PTy, c: &PTy) -> bool {
    let base_ok = matches!(matrix_relation(p.base(), c.base()), "same" | "direct-subtype" | "indirect-subtype");
    let (pf, cf) = (flags_outermost_first(p), flags_outermost_first(c));
    base_ok && pf.len() == cf.len() && pf.iter().zip(&cf).all(|(p, c)| !*p || *c)
}

pub fn matrix_doc(holder: MatrixHolder, fname: &str, p: &PTy, c: &PTy) -> Doc {
    let keep = |n: &str| Field { name: n.to_string(), ty: PTy::named("String", false), args: vec![] };
    let m = |ty: &PTy| Field { name: fname.to_string(), ty: ty.clone(), args: vec![] };
    let edge = |n: &str, ty: PTy| Field { name: n.to_string(), ty, args: vec![] };
    let (in_base, in_derived, in_leaf): (Option<&PTy>, &PTy, &PTy) = match holder {
        MatrixHolder::IfaceToObject => (None, p, c),
        MatrixHolder::IfaceToIface => (Some(p), c, c),
        MatrixHolder::ThroughIface => (Some(p), p, c),
    };
    let mut base_fields = vec![keep("field")];
    if let Some(ty) = in_base {
        base_fields.push(m(ty));
    }
    let mut doc: Doc = vec![Def::Schema("RootSchemaQuery".into())];
    for (n, _) in PRELUDE {
        doc.push(Def::Directive(n.to_string()));
    }
    doc.push(Def::Type(TypeDef {
        name: "RootSchemaQuery".into(),
        is_interface: false,
        implements: vec![],
        fields: vec![
            edge("Base", PTy::named("Base", false)),
            edge("Derived", PTy::named("Derived", false)),
            edge("Leaf", PTy::list(PTy::named("Leaf", true), false)),
            edge("Other", PTy::list(PTy::named("Other", true), true)),
        ],
    }));
    doc.push(Def::Type(TypeDef { name: "Base".into(), is_interface: true, implements: vec![], fields: base_fields }));
    doc.push(Def::Type(TypeDef {
        name: "Derived".into(),
        is_interface: true,
        implements: vec!["Base".into()],
        fields: vec![keep("field"), m(in_derived)],
    }));
    doc.push(Def::Type(TypeDef {
        name: "Leaf".into(),
        is_interface: false,
        implements: vec!["Derived".into(), "Base".into()],
        fields: vec![keep("field"), m(in_leaf)],
    }));
    doc.push(Def::Type(TypeDef { name: "Other".into(), is_interface: false, implements: vec![], fields: vec![keep("x")] }));
    doc
}

/// The whole matrix as cases tagged `nt:inherit-matrix`.  Edges: every ordered pair of the four vertex
/// types (same / direct / indirect subtype / supertype / unrelated) × every shape of depth ≤ 1 on each
/// side.  Properties: same scalar / different scalar × every shape of depth ≤ `prop_depth` on each side.
fn gen_inherit_matrix(holders: &[MatrixHolder], prop_depth: usize) -> Vec<Case> {
    let mut out = vec![];
    let mut push = |holder: MatrixHolder, kind: &str, fname: &str, p: &PTy, c: &PTy| {
        let doc = matrix_doc(holder, fname, p, c);
        let legal = matrix_cell_legal(p, c);
        // the generator's promise: nothing but the inherited-field type rule can be violated, and the
        // independent rule checker agrees with the closed-form verdict of the cell
        let violated = rule_violations(&doc);
        let expected: BTreeSet<&'static str> = if legal { BTreeSet::new() } else { ["inherited-fields-only-narrowed"].into() };
        assert!(violated == expected && undocumented(&doc).is_none(), "inherit-matrix cell {holder:?} {} -> {}: rules {violated:?}", p.display(), c.display());
        let rel = if kind == "edge" {
            format!("im:rel:{}", matrix_relation(p.base(), c.base()))
        } else {
            format!("im:rel:{}", if p.base() == c.base() { "same-scalar" } else { "different-scalar" })
        };
        let lists = format!("im:lists:{}-to-{}", p.depth(), c.depth());
        let tags = ["inherit-matrix", "nt:inherit-matrix", if legal { "im:legal" } else { "im:illegal" }, &format!("im:{kind}"), &rel, &lists];
        out.push(Case::new(Sexp::call("schema-new", vec![doc_to_sexp(&doc)]), &tags));
    };
    for holder in holders {
        for pb in MATRIX_VERTICES {
            for cb in MATRIX_VERTICES {
                for p in all_shapes(pb, 1) {
                    for c in all_shapes(cb, 1) {
                        push(*holder, "edge", "theEdge", &p, &c);
                    }
                }
            }
        }
        for (pb, cb) in [("Int", "Int"), ("Int", "String"), ("ID", "String"), ("Float", "Int")] {
            for p in all_shapes(pb, prop_depth) {
                for c in all_shapes(cb, prop_depth) {
                    push(*holder, "prop", "theProp", &p, &c);
                }
            }
        }
    }
    out
}

fn has_inheritance(doc: &Doc) -> bool {
    types(doc).iter().any(|t| t.implements.iter().any(|i| type_of(doc, i).is_some_and(|d| !d.fields.is_empty())))
}

pub struct C19;

impl Prop for C19 {
    fn id(&self) -> &'static str {
        "C19"
    }
    fn rule(&self) -> &'static str {
        "requests are (schema-new <doc>): an abstract schema document rendered to SDL text for the real Schema::parse and interpreted directly by the Lean model. Valid stream: generated valid schemas (2-6 vertex types besides the root, interfaces with transitively closed implements incl. chains, properties of every built-in scalar and list shape up to depth 3, edges incl. self-edges and list edges, parameterised edges with/without defaults, inherited fields narrowed in nullability / edge target / widened parameter types, the directive prelude, custom directives, custom scalars, schema block first/middle/last, shuffled definitions). Inherited-field type matrix (tag nt:inherit-matrix; enumerated, not sampled, no randomness): in the fixed hierarchy interface Base, interface Derived implements Base, type Leaf implements Derived & Base, unrelated type Other, one field is declared with type P in the parent and re-declared with type C in the child, the rest of the document being valid so that the inherited-field type rule alone decides; edge fields: P and C over every ordered pair of the four vertex types (same, direct subtype, indirect subtype, supertype, unrelated) x non-list/list on each side incl. mismatches x every non-null flag combination at every level on each side (16 x 6 x 6 cells); property fields: scalar pairs Int/Int, Int/String, ID/String, Float/Int x every shape of list depth <= 1 (quick) or <= 2 (thorough) on each side with every flag combination; each cell for the parent/child placements Derived(interface)->Leaf(object) and Base(interface)->Derived(interface, repeated by Leaf), thorough also Base->Leaf through an unchanged Derived; the generator asserts that the independent rule checker finds exactly {} or {inherited-fields-only-narrowed} and agrees with the closed-form verdict of the cell. Malformed stream: 45 mutations (each documented rule violated, each present or former panic trigger, duplicates of types/fields/implements/parameters) applied singly to several bases and in all ordered pairs. A case is distinct by its request text; it is non-trivial when the document has an interface with fields and an implementer (the inheritance rules are exercised), is a cell of the inherited-field type matrix, or carries a mutation. Oracle on the implementation: no panic; accept iff an independent checker of the documented rules (harness, not derived from the Rust code) finds no violated rule (silent on unsupported definitions only; duplicate parameter names of a field violate the rule parameters-distinct since the repair of F-C10-5); the typed errors that replaced the panics of F-16..F-21b and closed F-C10-5 (DuplicateSchemaDefinition, MissingSchemaDefinition, UndefinedQueryType, QueryTypeNotAnObject, BuiltinScalarRedefinition, DuplicateDirectiveDefinition, DuplicateScalarDefinition, DuplicateFieldParameterDefinition) must be truthful about the document (key untruthful-error:V), and a document violating exactly one of the rules one-schema-block / query-type-is-defined-object / builtin-not-redefined / directives-distinct / scalars-distinct / parameters-distinct must be rejected with exactly the corresponding single error (key wrong-error:rule)."
    }
    fn generate(&self, tier: Tier, rng: &mut Rng) -> Vec<Case> {
        let mut out = vec![];
        // the enumerated inherited-field type matrix consumes no randomness: the sampled streams below
        // are the same with and without it
        out.extend(if tier == Tier::Quick {
            gen_inherit_matrix(&[MatrixHolder::IfaceToObject, MatrixHolder::IfaceToIface], 1)
        } else {
            gen_inherit_matrix(&[MatrixHolder::IfaceToObject, MatrixHolder::IfaceToIface, MatrixHolder::ThroughIface], 2)
        });
        let (n_valid, n_bases, n_pair_bases) = if tier == Tier::Quick { (150, 4, 1) } else { (2500, 30, 6) };
        for _ in 0..n_valid {
            let rich = rng.chance(1, 2);
            let doc = gen_valid(rng, &GenOpts { rich });
            let mut tags = vec!["valid"];
            if has_inheritance(&doc) {
                tags.push("nt:inheritance");
            }
            out.push(Case::new(Sexp::call("schema-new", vec![doc_to_sexp(&doc)]), &tags));
        }
        for _ in 0..n_bases {
            let base = gen_valid(rng, &GenOpts { rich: true });
            for m in MUTATIONS {
                let mut doc = base.clone();
                if mutate(&mut doc, m, rng) {
                    let tag = format!("nt:mut:{m}");
                    out.push(Case::new(Sexp::call("schema-new", vec![doc_to_sexp(&doc)]), &["mutant", &tag]));
                }
            }
        }
        for _ in 0..n_pair_bases {
            let base = gen_valid(rng, &GenOpts { rich: true });
            for m1 in MUTATIONS {
                for m2 in MUTATIONS {
                    let mut doc = base.clone();
                    if mutate(&mut doc, m1, rng) && mutate(&mut doc, m2, rng) {
                        out.push(Case::new(Sexp::call("schema-new", vec![doc_to_sexp(&doc)]), &["mutant-pair", "nt:mut-pair"]));
                    }
                }
            }
        }
        out
    }
    fn eval(&self, request: &Sexp) -> Option<String> {
        let (h, args) = request.as_call()?;
        match (h, args) {
            ("schema-new", [d]) => Some(schema_new_answer(&sexp_to_doc(d)?)),
            _ => None,
        }
    }
    fn post_tags(&self, e: &Evaluated) -> Vec<String> {
        let kind = if e.answer == "ok" {
            "answer:ok"
        } else if e.answer == "panic" {
            "answer:panic"
        } else {
            "answer:err"
        };
        vec![kind.to_string()]
    }
    fn oracle(&self, evaluated: &[Evaluated]) -> Vec<OracleFailure> {
        let mut fails = vec![];
        for e in evaluated {
            let Some((_, args)) = e.request.as_call() else { continue };
            let Some(doc) = args.first().and_then(sexp_to_doc) else { continue };
            if let Some(info) = &e.panic_info {
                if undocumented(&doc) == Some("unsupported-definition") {
                    continue; // `enum`/`union`/`input` are outside the supported constructs
                }
                fails.push(OracleFailure { key: panic_key(info), detail: info.chars().take(300).collect(), requests: vec![e.line.clone()] });
                continue;
            }
            if undocumented(&doc).is_some() {
                continue;
            }
            let violated = rule_violations(&doc);
            let accepted = e.answer == "ok";
            if accepted && !violated.is_empty() {
                fails.push(OracleFailure {
                    key: format!("accepts-invalid:{}", violated.iter().cloned().collect::<Vec<_>>().join("+")),
                    detail: format!("accepted although the documented rules {violated:?} are violated"),
                    requests: vec![e.line.clone()],
                });
            } else if !accepted && violated.is_empty() {
                fails.push(OracleFailure {
                    key: "rejects-valid".into(),
                    detail: format!("rejected with {} although every documented rule holds", e.answer),
                    requests: vec![e.line.clone()],
                });
            }
            // the former panic documents (F-16 … F-21b) are rejected with a typed error that says what is wrong
            if let Some(Sexp::List(items)) = Sexp::parse(&e.answer) {
                for it in items.iter().skip(1) {
                    let Some((variant, args)) = it.as_call() else { continue };
                    let args: Vec<&str> = args.iter().filter_map(|a| a.as_atom()).collect();
                    if let Some(why) = untruthful_early_error(&doc, variant, &args) {
                        fails.push(OracleFailure {
                            key: format!("untruthful-error:{variant}"),
                            detail: why,
                            requests: vec![e.line.clone()],
                        });
                    }
                }
            }
            if let Some(expected) = expected_early_error(&doc, &violated) {
                if e.answer != expected {
                    fails.push(OracleFailure {
                        key: format!("wrong-error:{}", violated.iter().next().unwrap()),
                        detail: format!("only rule {violated:?} is violated: expected {expected}, got {}", e.answer),
                        requests: vec![e.line.clone()],
                    });
                }
            }
        }
        fails
    }
    fn extra_stats(&self, evaluated: &[Evaluated]) -> serde_json::Value {
        let count = |t: &str| evaluated.iter().filter(|e| e.tags.iter().any(|x| x == t)).count();
        serde_json::json!({
            "valid_stream": count("valid"),
            "single_mutants": count("mutant"),
            "mutant_pairs": count("mutant-pair"),
            "inherit_matrix": count("inherit-matrix"),
            "inherit_matrix_legal_cells": count("im:legal"),
            "inherit_matrix_illegal_cells": count("im:illegal"),
            "accepted": count("answer:ok"),
            "rejected": count("answer:err"),
            "panicked": count("answer:panic"),
        })
    }
}


// ------------------------------------------------------------------------------------------------
// C20 — schema introspection
// ------------------------------------------------------------------------------------------------

use trustfall_core::schema::SchemaAdapter;

fn meta_schema() -> &'static Schema {
    static META: std::sync::OnceLock<Schema> = std::sync::OnceLock::new();
    META.get_or_init(|| Schema::parse(SchemaAdapter::schema_text()).expect("meta schema"))
}

const QUERY_IDS: [&str; 12] = [
    "types",
    "implements",
    "implementer",
    "properties",
    "edges",
    "params",
    "entrypoints",
    "entry-params",
    "schema-types",
    "schema-entrypoints",
    "typenames",
    "optional-implements",
];

/// query text and arguments of a query id (`None`: unknown id)
fn query_of(q: &Sexp) -> Option<(String, BTreeMap<Arc<str>, FieldValue>)> {
    let mut args: BTreeMap<Arc<str>, FieldValue> = BTreeMap::new();
    let by_prop = |filter: &str| {
        format!("{{ VertexType {{ name @filter(op: \"{filter}\", value: [\"$n\"]) @output property {{ property: name @output type @output }} }} }}")
    };
    let text = match q {
        Sexp::Atom(a) => match a.as_str() {
            "types" => "{ VertexType { name @output is_interface @output docs @output } }".to_string(),
            "implements" => "{ VertexType { name @output implements { implements: name @output } } }".to_string(),
            "implementer" => "{ VertexType { name @output implementer { implementer: name @output } } }".to_string(),
            "properties" => "{ VertexType { name @output property { property: name @output type @output docs @output } } }".to_string(),
            "edges" => "{ VertexType { name @output edge { edge: name @output to_many @output at_least_one @output target { target: name @output } } } }".to_string(),
            "params" => "{ VertexType { name @output edge { edge: name @output parameter { param: name @output type @output default @output } } } }".to_string(),
            "entrypoints" => "{ Entrypoint { edge: name @output to_many @output at_least_one @output target { target: name @output } } }".to_string(),
            "entry-params" => "{ Entrypoint { edge: name @output parameter { param: name @output type @output default @output } } }".to_string(),
            "schema-types" => "{ Schema { vertex_type { name @output is_interface @output } } }".to_string(),
            "schema-entrypoints" => "{ Schema { entrypoint { edge: name @output } } }".to_string(),
            "typenames" => "{ VertexType { __typename @output name @output property { ptype: __typename @output property: name @output } } }".to_string(),
            "optional-implements" => "{ VertexType { name @output implements @optional { implements: name @output is_interface @output } } }".to_string(),
            _ => return None,
        },
        other => {
            let (h, a) = other.as_call()?;
            match h {
                "by-name" => {
                    args.insert("n".into(), FieldValue::String(a.first()?.as_atom()?.into()));
                    by_prop("=")
                }
                "one-of" => {
                    let names: Vec<FieldValue> = a.iter().map(|x| x.as_atom().map(|s| FieldValue::String(s.into()))).collect::<Option<_>>()?;
                    args.insert("n".into(), FieldValue::List(names.into()));
                    by_prop("one_of")
                }
                _ => return None,
            }
        }
    };
    Some((text, args))
}

fn cell_of(output: &str, v: &FieldValue) -> String {
    match v {
        FieldValue::Null => "n".to_string(),
        FieldValue::Boolean(b) => format!("(b {})", if *b { 1 } else { 0 }),
        FieldValue::String(s) if output == "default" => {
            // the JSON serialisation of the default value: parse it back (text formatting is serde_json's)
            match serde_json::from_str::<serde_json::Value>(s) {
                Ok(j) => format!("(json {})", render_value(&json_to_value(&j))),
                Err(_) => format!("(bad-json {})", tfharness::sexp::hex(s.as_bytes())),
            }
        }
        FieldValue::String(s) => format!("(s {})", tfharness::sexp::hex(s.as_bytes())),
        other => format!("(unexpected {})", render_value(other)),
    }
}

fn json_to_value(j: &serde_json::Value) -> FieldValue {
    match j {
        serde_json::Value::Null => FieldValue::Null,
        serde_json::Value::Bool(b) => FieldValue::Boolean(*b),
        serde_json::Value::Number(n) => {
            if let Some(i) = n.as_i64() {
                FieldValue::Int64(i)
            } else if let Some(u) = n.as_u64() {
                FieldValue::Uint64(u)
            } else {
                FieldValue::Float64(n.as_f64().unwrap())
            }
        }
        serde_json::Value::String(s) => FieldValue::String(s.as_str().into()),
        serde_json::Value::Array(a) => FieldValue::List(a.iter().map(json_to_value).collect::<Vec<_>>().into()),
        serde_json::Value::Object(_) => FieldValue::String("<object>".into()),
    }
}

fn render_rows(mut rows: Vec<String>) -> String {
    rows.sort();
    let mut s = String::from("(rows");
    for r in rows {
        s.push(' ');
        s.push_str(&r);
    }
    s.push(')');
    s
}

fn row_text(cells: &[(String, String)]) -> String {
    let mut v: Vec<String> = cells.iter().map(|(k, c)| format!("({k} {c})")).collect();
    v.sort();
    format!("(row {})", v.join(" "))
}

/// Run one fixed introspection query over the schema built from `doc` on the real engine.
fn introspect_answer(q: &Sexp, doc: &Doc) -> Option<String> {
    let (text, args) = query_of(q)?;
    let schema = match Schema::parse(render_sdl(doc)) {
        Ok(s) => s,
        Err(_) => return Some("invalid".into()),
    };
    let indexed = trustfall_core::frontend::parse(meta_schema(), &text).unwrap_or_else(|e| panic!("introspection query rejected: {e}"));
    let adapter = Arc::new(SchemaAdapter::new(&schema));
    let rows: Vec<String> = trustfall_core::interpreter::execution::interpret_ir(adapter, indexed, Arc::new(args))
        .unwrap_or_else(|e| panic!("introspection arguments rejected: {e}"))
        .map(|row| {
            let cells: Vec<(String, String)> = row.iter().map(|(k, v)| (k.to_string(), cell_of(k, v))).collect();
            row_text(&cells)
        })
        .collect();
    Some(render_rows(rows))
}

// ---- expected rows by a direct walk of the document, following the *documentation* of
// ---- adapter/schema.graphql (not the adapter's code)

fn s_cell(s: &str) -> String {
    format!("(s {})", tfharness::sexp::hex(s.as_bytes()))
}
fn b_cell(b: bool) -> String {
    format!("(b {})", if b { 1 } else { 0 })
}
fn default_cell(a: &Arg) -> String {
    match &a.default {
        Some(DefaultV::Val(v)) => format!("(json {})", render_value(v)),
        Some(DefaultV::Bad) => "(unconvertible)".into(),
        // "Nullable parameters have a default value of `null` … Non-nullable parameters without a
        // default value will have a null value in this field."
        None => if a.ty.non_null() { "n".into() } else { "(json n)".into() },
    }
}

fn expected_rows(q: &Sexp, doc: &Doc) -> Option<Vec<String>> {
    let root = root_name(doc)?;
    let ts = types(doc);
    let listed: Vec<&TypeDef> = ts.iter().copied().filter(|t| t.name != root).collect();
    let root_t = type_of(doc, &root)?;
    let is_vertex = |n: &str| ts.iter().any(|t| t.name == n);
    let kv = |k: &str, c: String| (k.to_string(), c);
    let mut rows = vec![];
    let prop_rows = |t: &TypeDef, with_docs: bool, rows: &mut Vec<String>| {
        for f in t.fields.iter().filter(|f| !is_vertex(f.ty.base())) {
            let mut cells = vec![kv("name", s_cell(&t.name)), kv("property", s_cell(&f.name)), kv("type", s_cell(&f.ty.display()))];
            if with_docs {
                cells.push(kv("docs", "n".into()));
            }
            rows.push(row_text(&cells));
        }
    };
    let edge_cells = |f: &Field| {
        vec![
            kv("edge", s_cell(&f.name)),
            kv("to_many", b_cell(matches!(f.ty, PTy::List(..)))),
            kv("at_least_one", b_cell(f.ty.non_null())),
            kv("target", s_cell(f.ty.base())),
        ]
    };
    let param_rows = |prefix: Vec<(String, String)>, f: &Field, rows: &mut Vec<String>| {
        for a in &f.args {
            let mut cells = prefix.clone();
            cells.extend([kv("edge", s_cell(&f.name)), kv("param", s_cell(&a.name)), kv("type", s_cell(&a.ty.display())), kv("default", default_cell(a))]);
            rows.push(row_text(&cells));
        }
    };
    match q {
        Sexp::Atom(a) => match a.as_str() {
            "types" => {
                for t in &listed {
                    rows.push(row_text(&[kv("name", s_cell(&t.name)), kv("is_interface", b_cell(t.is_interface)), kv("docs", "n".into())]));
                }
            }
            "schema-types" => {
                for t in &listed {
                    rows.push(row_text(&[kv("name", s_cell(&t.name)), kv("is_interface", b_cell(t.is_interface))]));
                }
            }
            "implements" => {
                for t in &listed {
                    for i in &t.implements {
                        rows.push(row_text(&[kv("name", s_cell(&t.name)), kv("implements", s_cell(i))]));
                    }
                }
            }
            "optional-implements" => {
                for t in &listed {
                    if t.implements.is_empty() {
                        rows.push(row_text(&[kv("name", s_cell(&t.name)), kv("implements", "n".into()), kv("is_interface", "n".into())]));
                    }
                    for i in &t.implements {
                        let it = type_of(doc, i)?;
                        rows.push(row_text(&[kv("name", s_cell(&t.name)), kv("implements", s_cell(i)), kv("is_interface", b_cell(it.is_interface))]));
                    }
                }
            }
            "implementer" => {
                // "Subtypes of this vertex type. If this is not an interface type, this edge is
                // guaranteed to be empty."
                for t in listed.iter().filter(|t| t.is_interface) {
                    for x in listed.iter().filter(|x| ancestors(doc, &x.name).contains(&t.name)) {
                        rows.push(row_text(&[kv("name", s_cell(&t.name)), kv("implementer", s_cell(&x.name))]));
                    }
                }
            }
            "properties" => {
                for t in &listed {
                    prop_rows(t, true, &mut rows);
                }
            }
            "typenames" => {
                for t in &listed {
                    for f in t.fields.iter().filter(|f| !is_vertex(f.ty.base())) {
                        rows.push(row_text(&[
                            kv("__typename", s_cell("VertexType")),
                            kv("name", s_cell(&t.name)),
                            kv("ptype", s_cell("Property")),
                            kv("property", s_cell(&f.name)),
                        ]));
                    }
                }
            }
            "edges" => {
                for t in &listed {
                    for f in t.fields.iter().filter(|f| is_vertex(f.ty.base())) {
                        let mut cells = vec![kv("name", s_cell(&t.name))];
                        cells.extend(edge_cells(f));
                        rows.push(row_text(&cells));
                    }
                }
            }
            "params" => {
                for t in &listed {
                    for f in t.fields.iter().filter(|f| is_vertex(f.ty.base())) {
                        param_rows(vec![kv("name", s_cell(&t.name))], f, &mut rows);
                    }
                }
            }
            "entrypoints" => {
                for f in &root_t.fields {
                    rows.push(row_text(&edge_cells(f)));
                }
            }
            "entry-params" => {
                for f in &root_t.fields {
                    param_rows(vec![], f, &mut rows);
                }
            }
            "schema-entrypoints" => {
                for f in &root_t.fields {
                    rows.push(row_text(&[kv("edge", s_cell(&f.name))]));
                }
            }
            _ => return None,
        },
        other => {
            let (h, a) = other.as_call()?;
            let wanted: Vec<&str> = a.iter().filter_map(|x| x.as_atom()).collect();
            if h != "by-name" && h != "one-of" {
                return None;
            }
            for t in listed.iter().filter(|t| wanted.contains(&t.name.as_str())) {
                prop_rows(t, false, &mut rows);
            }
        }
    }
    rows.sort();
    Some(rows)
}

pub struct C20;

impl Prop for C20 {
    fn id(&self) -> &'static str {
        "C20"
    }
    fn rule(&self) -> &'static str {
        "for every generated valid schema (same generator as C19's valid stream: 2-6 vertex types, interface chains, narrowed inherited fields, list/nullable property and edge types, parameterised edges with and without defaults, custom scalars sharing a vertex type's name) the 12 fixed introspection queries (vertex types with is_interface and docs; implements; implementer; properties with displayed type; edges with to_many / at_least_one / target; edge parameters with type and default; entrypoints and their parameters; the same through the Schema vertex; __typename; an @optional implements) plus name-filtered variants ((by-name N) with a listed type, the root type and an undefined name; (one-of …) mixing the three, and one with a name listed twice) are run on the real engine through SchemaAdapter and answered by the Lean model; one (adapter-invariants doc) request per schema runs check_adapter_invariants(meta_schema, SchemaAdapter::new(schema)). Rows are compared as sorted multisets. A case is distinct by its request text and non-trivial when the expected row set is non-empty. Oracle on the implementation: rows equal a direct walk of the generated document that follows the documentation of adapter/schema.graphql; no panic."
    }
    fn generate(&self, tier: Tier, rng: &mut Rng) -> Vec<Case> {
        let n = if tier == Tier::Quick { 40 } else { 400 };
        let mut out = vec![];
        for k in 0..n {
            let doc = gen_valid(rng, &GenOpts { rich: k % 2 == 0 });
            let d = doc_to_sexp(&doc);
            let root = root_name(&doc).unwrap();
            let names: Vec<String> = types(&doc).iter().map(|t| t.name.clone()).filter(|n| *n != root).collect();
            let mut qs: Vec<Sexp> = QUERY_IDS.iter().map(|q| atom(q)).collect();
            let pick = names[rng.below(names.len())].clone();
            qs.push(Sexp::call("by-name", vec![atom(&pick)]));
            qs.push(Sexp::call("by-name", vec![atom(&root)]));
            qs.push(Sexp::call("by-name", vec![atom("Nope")]));
            let mut some: Vec<Sexp> = names.iter().filter(|_| rng.chance(1, 2)).map(|n| atom(n)).collect();
            some.push(atom(&root));
            some.push(atom("Nope"));
            qs.push(Sexp::call("one-of", some));
            // a name listed twice in the `one_of` argument (F-C20-1, fixed: the rows must be reported once)
            let twice = names[rng.below(names.len())].clone();
            qs.push(Sexp::call("one-of", vec![atom(&twice), atom(&names[0]), atom(&twice)]));
            for q in qs {
                let nontrivial = expected_rows(&q, &doc).is_some_and(|r| !r.is_empty());
                let qname = match &q {
                    Sexp::Atom(a) => a.clone(),
                    other => other.as_call().map(|c| c.0.to_string()).unwrap_or_default(),
                };
                let tag = format!("q:{qname}");
                let mut tags = vec![tag.as_str()];
                if nontrivial {
                    tags.push("nt:rows");
                }
                out.push(Case::new(Sexp::call("introspect", vec![q, d.clone()]), &tags));
            }
            out.push(Case::new(Sexp::call("adapter-invariants", vec![d.clone()]), &["invariants", "nt:invariants"]));
        }
        out
    }
    fn eval(&self, request: &Sexp) -> Option<String> {
        let (h, args) = request.as_call()?;
        match (h, args) {
            ("introspect", [q, d]) => introspect_answer(q, &sexp_to_doc(d)?),
            ("adapter-invariants", [d]) => {
                let doc = sexp_to_doc(d)?;
                match Schema::parse(render_sdl(&doc)) {
                    Err(_) => Some("invalid".into()),
                    Ok(schema) => {
                        trustfall_core::interpreter::helpers::check_adapter_invariants(meta_schema(), SchemaAdapter::new(&schema));
                        Some("ok".into())
                    }
                }
            }
            _ => None,
        }
    }
    fn oracle(&self, evaluated: &[Evaluated]) -> Vec<OracleFailure> {
        let mut fails = vec![];
        for e in evaluated {
            let Some((h, args)) = e.request.as_call() else { continue };
            if let Some(info) = &e.panic_info {
                fails.push(OracleFailure { key: panic_key(info), detail: info.chars().take(300).collect(), requests: vec![e.line.clone()] });
                continue;
            }
            if h != "introspect" || args.len() != 2 {
                continue;
            }
            let Some(doc) = sexp_to_doc(&args[1]) else { continue };
            let Some(expected) = expected_rows(&args[0], &doc) else { continue };
            let want = render_rows(expected.clone());
            if e.answer == want {
                continue;
            }
            let qname = match &args[0] {
                Sexp::Atom(a) => a.clone(),
                other => other.as_call().map(|c| c.0.to_string()).unwrap_or_default(),
            };
            // classify the difference for the `implementer` query: only reflexive extra rows?
            let mut class = String::new();
            if qname == "implementer" {
                let got: BTreeSet<String> = match Sexp::parse(&e.answer).as_ref().and_then(|s| s.as_call().map(|c| c.1.to_vec())) {
                    Some(rows) => rows.iter().map(|r| r.to_string()).collect(),
                    None => BTreeSet::new(),
                };
                let exp: BTreeSet<String> = expected.iter().cloned().collect();
                let extra: Vec<&String> = got.difference(&exp).collect();
                let missing = exp.difference(&got).count();
                let reflexive = |r: &str| {
                    let Some(s) = Sexp::parse(r) else { return false };
                    let Some((_, cells)) = s.as_call() else { return false };
                    let vals: Vec<String> = cells.iter().filter_map(|c| c.as_list().and_then(|l| l.get(1)).map(|v| v.to_string())).collect();
                    vals.len() == 2 && vals[0] == vals[1]
                };
                class = if missing == 0 && extra.iter().all(|r| reflexive(r)) { ":reflexive-only".into() } else { ":other".into() };
            }
            if qname == "one-of" {
                // rows reported more than once although the set of rows is right?
                let got: Vec<String> = match Sexp::parse(&e.answer).as_ref().and_then(|s| s.as_call().map(|c| c.1.to_vec())) {
                    Some(rows) => rows.iter().map(|r| r.to_string()).collect(),
                    None => vec![],
                };
                let got_set: BTreeSet<&String> = got.iter().collect();
                let exp_set: BTreeSet<&String> = expected.iter().collect();
                let names: Vec<&str> = args[0].as_call().map(|c| c.1.iter().filter_map(|x| x.as_atom()).collect()).unwrap_or_default();
                let has_dup = names.iter().enumerate().any(|(i, n)| names[..i].contains(n));
                class = if got_set == exp_set && got.len() > expected.len() && has_dup { ":duplicated-rows".into() } else { ":other".into() };
            }
            fails.push(OracleFailure {
                key: format!("introspection-mismatch:{qname}{class}"),
                detail: format!("engine rows {} ; documented rows {}", e.answer.chars().take(600).collect::<String>(), want.chars().take(600).collect::<String>()),
                requests: vec![e.line.clone()],
            });
        }
        fails
    }
    fn extra_stats(&self, evaluated: &[Evaluated]) -> serde_json::Value {
        let schemas = evaluated.iter().filter(|e| e.tags.iter().any(|t| t == "invariants")).count();
        let rows: usize = evaluated.iter().map(|e| e.answer.matches("(row ").count()).sum();
        serde_json::json!({ "schemas": schemas, "queries_run": evaluated.len() - schemas, "rows_compared": rows })
    }
}

fn main() {
    let args: Vec<String> = std::env::args().collect();
    if args.len() >= 2 && args[1] == "probe" {
        // debugging aid: SDL text on stdin → outcome of the real `Schema::parse`
        let mut text = String::new();
        std::io::Read::read_to_string(&mut std::io::stdin(), &mut text).unwrap();
        install_quiet_panic_hook();
        match guarded(|| Schema::parse(&text)) {
            Ok(Ok(_)) => println!("ok"),
            Ok(Err(e)) => {
                let mut v = vec![];
                render_error(&e, &mut v);
                println!("(err {})   -- {e:?}", v.join(" "));
            }
            Err(info) => println!("panic   -- {info}"),
        }
        return;
    }
    if args.len() >= 2 && args[1] == "from-sdl" {
        // debugging aid: SDL text on stdin → the request line `(schema-new <doc>)`
        let mut text = String::new();
        std::io::Read::read_to_string(&mut std::io::stdin(), &mut text).unwrap();
        match doc_of_sdl(&text) {
            Some(d) => println!("{}", Sexp::call("schema-new", vec![doc_to_sexp(&d)])),
            None => eprintln!("cannot convert"),
        }
        return;
    }
    if args.len() >= 2 && args[1] == "sdl" {
        // debugging aid: one request line on stdin → SDL text
        let mut text = String::new();
        std::io::Read::read_to_string(&mut std::io::stdin(), &mut text).unwrap();
        let s = Sexp::parse(text.trim()).expect("sexp");
        let (_, a) = s.as_call().expect("call");
        println!("{}", render_sdl(&sexp_to_doc(a.last().unwrap()).expect("doc")));
        return;
    }
    main_for(vec![Box::new(C19), Box::new(C20)]);
}

#[allow(dead_code)]
fn _unused(_: BTreeMap<u8, u8>) {}
