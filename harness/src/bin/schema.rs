//! Group `schema`: C19 (schema validation) and C20 (schema introspection adapter).
//!
//! Requests carry an *abstract schema document* (the same structure as the Lean model's
//! `TF.SchemaDoc.Doc`): the harness renders it to SDL text for the real `Schema::parse`, the Lean
//! driver interprets it directly.  Encoding:
//!
//! ```text
//! doc   := (doc def…)
//! def   := (schema Q) | (directive n) | (scalar n) | (type n (impl…) (field…))
//!        | (interface n (impl…) (field…)) | (unsupported kind n)
//! field := (n ty (arg…))
//! arg   := (n ty default)          default := - | bad | (d value)
//! ty    := (Base f0 f1 … fk)       fi ∈ {0,1}: non-null flag of level i, outermost first; k = list depth
//! ```
//! Names are plain identifiers `[A-Za-z_][A-Za-z0-9_]*`; values use the protocol's value syntax.
use std::collections::{BTreeMap, BTreeSet};
use std::sync::Arc;

use trustfall_core::ir::FieldValue;
use trustfall_core::schema::error::InvalidSchemaError;
use trustfall_core::schema::Schema;

use tfharness::framework::*;
use tfharness::rng::Rng;
use tfharness::sexp::Sexp;
use tfharness::values::*;

// ------------------------------------------------------------------------------------------------
// Abstract documents
// ------------------------------------------------------------------------------------------------

#[derive(Clone, Debug, PartialEq)]
pub enum PTy {
    Named(String, bool),
    List(Box<PTy>, bool),
}

impl PTy {
    pub fn named(n: &str, non_null: bool) -> PTy {
        PTy::Named(n.to_string(), non_null)
    }
    pub fn list(inner: PTy, non_null: bool) -> PTy {
        PTy::List(Box::new(inner), non_null)
    }
    pub fn base(&self) -> &str {
        match self {
            PTy::Named(n, _) => n,
            PTy::List(i, _) => i.base(),
        }
    }
    pub fn depth(&self) -> usize {
        match self {
            PTy::Named(..) => 0,
            PTy::List(i, _) => 1 + i.depth(),
        }
    }
    pub fn non_null(&self) -> bool {
        match self {
            PTy::Named(_, b) | PTy::List(_, b) => *b,
        }
    }
    pub fn display(&self) -> String {
        match self {
            PTy::Named(n, b) => format!("{n}{}", if *b { "!" } else { "" }),
            PTy::List(i, b) => format!("[{}]{}", i.display(), if *b { "!" } else { "" }),
        }
    }
    pub fn to_sexp(&self) -> Sexp {
        let mut v = vec![Sexp::atom(self.base())];
        let mut cur = self;
        loop {
            v.push(Sexp::atom(if cur.non_null() { "1" } else { "0" }));
            match cur {
                PTy::Named(..) => break,
                PTy::List(i, _) => cur = i,
            }
        }
        Sexp::List(v)
    }
    pub fn from_sexp(s: &Sexp) -> Option<PTy> {
        let l = s.as_list()?;
        let (b, flags) = l.split_first()?;
        let b = b.as_atom()?;
        if flags.is_empty() {
            return None;
        }
        let flags: Vec<bool> = flags.iter().map(|f| f.as_atom().map(|a| a == "1")).collect::<Option<_>>()?;
        let mut ty = PTy::Named(b.to_string(), *flags.last().unwrap());
        for f in flags[..flags.len() - 1].iter().rev() {
            ty = PTy::List(Box::new(ty), *f);
        }
        Some(ty)
    }
}

#[derive(Clone, Debug, PartialEq)]
pub enum DefaultV {
    Val(FieldValue),
    /// a constant that does not convert to a `FieldValue` (contains an object literal)
    Bad,
}

#[derive(Clone, Debug, PartialEq)]
pub struct Arg {
    pub name: String,
    pub ty: PTy,
    pub default: Option<DefaultV>,
}

#[derive(Clone, Debug, PartialEq)]
pub struct Field {
    pub name: String,
    pub ty: PTy,
    pub args: Vec<Arg>,
}

#[derive(Clone, Debug, PartialEq)]
pub struct TypeDef {
    pub name: String,
    pub is_interface: bool,
    pub implements: Vec<String>,
    pub fields: Vec<Field>,
}

#[derive(Clone, Debug, PartialEq)]
pub enum Def {
    Schema(String),
    Directive(String),
    Scalar(String),
    Type(TypeDef),
    /// `enum` / `union` / `input` definitions: outside the supported constructs
    Unsupported(String, String),
}

pub type Doc = Vec<Def>;

fn atom(s: &str) -> Sexp {
    Sexp::atom(s)
}

pub fn doc_to_sexp(doc: &Doc) -> Sexp {
    let mut v = vec![atom("doc")];
    for d in doc {
        v.push(match d {
            Def::Schema(q) => Sexp::call("schema", vec![atom(q)]),
            Def::Directive(n) => Sexp::call("directive", vec![atom(n)]),
            Def::Scalar(n) => Sexp::call("scalar", vec![atom(n)]),
            Def::Unsupported(k, n) => Sexp::call("unsupported", vec![atom(k), atom(n)]),
            Def::Type(t) => Sexp::call(
                if t.is_interface { "interface" } else { "type" },
                vec![
                    atom(&t.name),
                    Sexp::List(t.implements.iter().map(|i| atom(i)).collect()),
                    Sexp::List(
                        t.fields
                            .iter()
                            .map(|f| {
                                Sexp::List(vec![
                                    atom(&f.name),
                                    f.ty.to_sexp(),
                                    Sexp::List(
                                        f.args
                                            .iter()
                                            .map(|a| {
                                                Sexp::List(vec![
                                                    atom(&a.name),
                                                    a.ty.to_sexp(),
                                                    match &a.default {
                                                        None => atom("-"),
                                                        Some(DefaultV::Bad) => atom("bad"),
                                                        Some(DefaultV::Val(v)) => Sexp::call("d", vec![value_to_sexp(v)]),
                                                    },
                                                ])
                                            })
                                            .collect(),
                                    ),
                                ])
                            })
                            .collect(),
                    ),
                ],
            ),
        });
    }
    Sexp::List(v)
}

pub fn sexp_to_doc(s: &Sexp) -> Option<Doc> {
    let (h, defs) = s.as_call()?;
    if h != "doc" {
        return None;
    }
    let mut out = vec![];
    for d in defs {
        let (k, a) = d.as_call()?;
        out.push(match (k, a) {
            ("schema", [q]) => Def::Schema(q.as_atom()?.to_string()),
            ("directive", [n]) => Def::Directive(n.as_atom()?.to_string()),
            ("scalar", [n]) => Def::Scalar(n.as_atom()?.to_string()),
            ("unsupported", [k, n]) => Def::Unsupported(k.as_atom()?.to_string(), n.as_atom()?.to_string()),
            ("type" | "interface", [n, impls, fields]) => {
                let mut t = TypeDef {
                    name: n.as_atom()?.to_string(),
                    is_interface: k == "interface",
                    implements: impls.as_list()?.iter().map(|i| i.as_atom().map(str::to_string)).collect::<Option<_>>()?,
                    fields: vec![],
                };
                for f in fields.as_list()? {
                    let [fname, fty, fargs] = f.as_list()? else { return None };
                    let mut args = vec![];
                    for a in fargs.as_list()? {
                        let [an, aty, adef] = a.as_list()? else { return None };
                        let default = match adef {
                            Sexp::Atom(x) if x == "-" => None,
                            Sexp::Atom(x) if x == "bad" => Some(DefaultV::Bad),
                            other => {
                                let (h, v) = other.as_call()?;
                                if h != "d" || v.len() != 1 {
                                    return None;
                                }
                                Some(DefaultV::Val(sexp_to_value(&v[0])?))
                            }
                        };
                        args.push(Arg { name: an.as_atom()?.to_string(), ty: PTy::from_sexp(aty)?, default });
                    }
                    t.fields.push(Field { name: fname.as_atom()?.to_string(), ty: PTy::from_sexp(fty)?, args });
                }
                Def::Type(t)
            }
            _ => return None,
        });
    }
    Some(out)
}

// ------------------------------------------------------------------------------------------------
// SDL rendering
// ------------------------------------------------------------------------------------------------

const PRELUDE: [(&str, &str); 7] = [
    ("filter", "directive @filter(op: String!, value: [String!]) repeatable on FIELD | INLINE_FRAGMENT"),
    ("tag", "directive @tag(name: String) repeatable on FIELD"),
    ("output", "directive @output(name: String) repeatable on FIELD"),
    ("optional", "directive @optional on FIELD"),
    ("recurse", "directive @recurse(depth: Int!) on FIELD"),
    ("fold", "directive @fold on FIELD"),
    ("transform", "directive @transform(op: String!) repeatable on FIELD"),
];

fn const_text(v: &FieldValue) -> String {
    match v {
        FieldValue::Null => "null".into(),
        FieldValue::Int64(i) => i.to_string(),
        FieldValue::Uint64(u) => u.to_string(),
        FieldValue::Float64(f) => {
            let s = format!("{f:?}");
            // `{:?}` of an integral float keeps the `.0`; exponent forms are valid GraphQL floats
            s
        }
        FieldValue::String(s) => {
            let mut out = String::from("\"");
            for c in s.chars() {
                match c {
                    '"' => out.push_str("\\\""),
                    '\\' => out.push_str("\\\\"),
                    '\n' => out.push_str("\\n"),
                    '\r' => out.push_str("\\r"),
                    '\t' => out.push_str("\\t"),
                    c if (c as u32) < 0x20 => out.push_str(&format!("\\u{:04x}", c as u32)),
                    c => out.push(c),
                }
            }
            out.push('"');
            out
        }
        FieldValue::Boolean(b) => b.to_string(),
        FieldValue::Enum(e) => e.to_string(),
        FieldValue::List(l) => format!("[{}]", l.iter().map(const_text).collect::<Vec<_>>().join(", ")),
        _ => unreachable!(),
    }
}

pub fn render_sdl(doc: &Doc) -> String {
    let mut s = String::new();
    for d in doc {
        match d {
            Def::Schema(q) => s.push_str(&format!("schema {{\n    query: {q}\n}}\n")),
            Def::Directive(n) => match PRELUDE.iter().find(|(k, _)| k == n) {
                Some((_, text)) => {
                    s.push_str(text);
                    s.push('\n');
                }
                None => s.push_str(&format!("directive @{n} on FIELD\n")),
            },
            Def::Scalar(n) => s.push_str(&format!("scalar {n}\n")),
            Def::Unsupported(k, n) => match k.as_str() {
                "enum" => s.push_str(&format!("enum {n} {{ A B }}\n")),
                "union" => s.push_str(&format!("union {n} = X | Y\n")),
                _ => s.push_str(&format!("input {n} {{ a: Int }}\n")),
            },
            Def::Type(t) => {
                s.push_str(if t.is_interface { "interface " } else { "type " });
                s.push_str(&t.name);
                if !t.implements.is_empty() {
                    s.push_str(" implements ");
                    s.push_str(&t.implements.join(" & "));
                }
                if !t.fields.is_empty() {
                    s.push_str(" {\n");
                    for f in &t.fields {
                        s.push_str("    ");
                        s.push_str(&f.name);
                        if !f.args.is_empty() {
                            let args: Vec<String> = f
                                .args
                                .iter()
                                .map(|a| {
                                    let d = match &a.default {
                                        None => String::new(),
                                        Some(DefaultV::Bad) => " = {a: 1}".to_string(),
                                        Some(DefaultV::Val(v)) => format!(" = {}", const_text(v)),
                                    };
                                    format!("{}: {}{}", a.name, a.ty.display(), d)
                                })
                                .collect();
                            s.push_str(&format!("({})", args.join(", ")));
                        }
                        s.push_str(&format!(": {}\n", f.ty.display()));
                    }
                    s.push_str("}");
                }
                s.push('\n');
            }
        }
    }
    s
}

// ------------------------------------------------------------------------------------------------
// Implementation side of C19
// ------------------------------------------------------------------------------------------------

fn names(v: &[String]) -> String {
    format!("({})", v.join(" "))
}

/// One flattened error as `(Variant key…)`; only names and displayed types, never message text.
fn render_error(e: &InvalidSchemaError, out: &mut Vec<String>) {
    use InvalidSchemaError as E;
    match e {
        E::MultipleErrors(v) => {
            for x in &v.0 {
                render_error(x, out);
            }
        }
        E::SchemaParseError(_) => out.push("(SchemaParseError)".into()),
        E::InvalidTypeWideningOfInheritedField(f, t, i, ty, pty) => {
            out.push(format!("(InvalidTypeWideningOfInheritedField {f} {t} {i} {ty} {pty})"))
        }
        E::InvalidTypeNarrowingOfInheritedFieldParameter(f, t, i, p, ty, pty) => {
            out.push(format!("(InvalidTypeNarrowingOfInheritedFieldParameter {f} {t} {i} {p} {ty} {pty})"))
        }
        E::InheritedFieldMissingParameters(f, t, i, ps) => {
            out.push(format!("(InheritedFieldMissingParameters {f} {t} {i} {})", names(ps)))
        }
        E::InheritedFieldUnexpectedParameters(f, t, i, ps) => {
            out.push(format!("(InheritedFieldUnexpectedParameters {f} {t} {i} {})", names(ps)))
        }
        E::InvalidDefaultValueForFieldParameter(t, f, p, ty, _value_text) => {
            out.push(format!("(InvalidDefaultValueForFieldParameter {t} {f} {p} {ty})"))
        }
        E::CircularImplementsRelationships(ts) => out.push(format!("(CircularImplementsRelationships {})", names(ts))),
        E::MissingTransitiveInterfaceImplementation(t, i, j) => {
            out.push(format!("(MissingTransitiveInterfaceImplementation {t} {i} {j})"))
        }
        E::MissingRequiredField(t, i, f, ty) => out.push(format!("(MissingRequiredField {t} {i} {f} {ty})")),
        E::AmbiguousFieldOrigin(t, f, ty, os) => out.push(format!("(AmbiguousFieldOrigin {t} {f} {ty} {})", names(os))),
        E::PropertyFieldWithParameters(t, f, ty, ps) => {
            out.push(format!("(PropertyFieldWithParameters {t} {f} {ty} {})", names(ps)))
        }
        E::InvalidEdgeType(t, f, ty) => out.push(format!("(InvalidEdgeType {t} {f} {ty})")),
        E::UnknownPropertyOrEdgeType(f, ty) => out.push(format!("(UnknownPropertyOrEdgeType {f} {ty})")),
        E::PropertyFieldOnRootQueryType(t, f, ty) => out.push(format!("(PropertyFieldOnRootQueryType {t} {f} {ty})")),
        E::EdgePointsToRootQueryType(t, f, ty) => out.push(format!("(EdgePointsToRootQueryType {t} {f} {ty})")),
        E::ReservedFieldName(t, f) => out.push(format!("(ReservedFieldName {t} {f})")),
        E::ReservedTypeName(t) => out.push(format!("(ReservedTypeName {t})")),
        E::ImplementingNonExistentType(t, i) => out.push(format!("(ImplementingNonExistentType {t} {i})")),
        E::ImplementingNonInterface(t, i) => out.push(format!("(ImplementingNonInterface {t} {i})")),
        E::DuplicateFieldDefinition(t, f) => out.push(format!("(DuplicateFieldDefinition {t} {f})")),
        E::DuplicateTypeOrInterfaceDefinition(t) => out.push(format!("(DuplicateTypeOrInterfaceDefinition {t})")),
        _ => out.push("(UnknownVariant)".into()),
    }
}

/// `Schema::parse` on the rendered text → canonical answer (panics propagate to the framework's guard).
pub fn schema_new_answer(doc: &Doc) -> String {
    let text = render_sdl(doc);
    match Schema::parse(&text) {
        Ok(_) => "ok".to_string(),
        Err(e) => {
            let mut v = vec![];
            render_error(&e, &mut v);
            v.sort();
            format!("(err {})", v.join(" "))
        }
    }
}

pub struct C19;

impl Prop for C19 {
    fn id(&self) -> &'static str {
        "C19"
    }
    fn rule(&self) -> &'static str {
        "TODO"
    }
    fn generate(&self, _tier: Tier, _rng: &mut Rng) -> Vec<Case> {
        vec![]
    }
    fn eval(&self, request: &Sexp) -> Option<String> {
        let (h, args) = request.as_call()?;
        match (h, args) {
            ("schema-new", [d]) => Some(schema_new_answer(&sexp_to_doc(d)?)),
            _ => None,
        }
    }
    fn oracle(&self, _evaluated: &[Evaluated]) -> Vec<OracleFailure> {
        vec![]
    }
}

fn main() {
    let args: Vec<String> = std::env::args().collect();
    if args.len() >= 2 && args[1] == "probe" {
        // debugging aid: SDL text on stdin → outcome of the real `Schema::parse`
        let mut text = String::new();
        std::io::Read::read_to_string(&mut std::io::stdin(), &mut text).unwrap();
        install_quiet_panic_hook();
        match guarded(|| Schema::parse(&text)) {
            Ok(Ok(_)) => println!("ok"),
            Ok(Err(e)) => {
                let mut v = vec![];
                render_error(&e, &mut v);
                println!("(err {})   -- {e:?}", v.join(" "));
            }
            Err(info) => println!("panic   -- {info}"),
        }
        return;
    }
    if args.len() >= 2 && args[1] == "sdl" {
        // debugging aid: one request line on stdin → SDL text
        let mut text = String::new();
        std::io::Read::read_to_string(&mut std::io::stdin(), &mut text).unwrap();
        let s = Sexp::parse(text.trim()).expect("sexp");
        let (_, a) = s.as_call().expect("call");
        println!("{}", render_sdl(&sexp_to_doc(a.last().unwrap()).expect("doc")));
        return;
    }
    main_for(vec![Box::new(C19)]);
}

#[allow(dead_code)]
fn _unused(_: BTreeMap<u8, u8>, _: BTreeSet<u8>, _: Arc<str>) {}
