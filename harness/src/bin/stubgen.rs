//! C26 — generated adapter stubs compile for every valid schema (trustfall_stubgen).
//!
//! Requests
//! * `(mangle snake|variant|escape <hex name>)` → hex of `to_lower_snake_case` /
//!   `upper_case_variant_name` / `escaped_rust_name` (the real private functions through the
//!   `verif` hooks); `panic` when the function panics (empty name for `variant`).
//! * `(stub-check <schema>)` → outcome of `generate_rust_stub(schema_text, tmpdir)`:
//!   `ok` | `(conflict vertex A B)` | `(conflict field T A B)` (the two `ensure_no_*_conflicts`
//!   panics) | `panic:pretty-print` | `panic:unsupported-type` | `panic:<other>` | `refused:<err>`.
//! * `(stub-compile <schema>)` → `compiles` | `compile-error:<first rustc error>` | `not-generated:<stub-check answer>`:
//!   the stub is written into a scratch crate outside /repo and /verif and built with
//!   `cargo test --no-run --offline` against /repo/trustfall. The Lean driver answers this request
//!   with what the *model* predicts (`compiles` exactly when its checks pass and every generated
//!   item name is a usable, collision-free identifier) — rustc itself is not modelled.
//!
//! `<schema>` = `(schema (root (entry Name Type (param Type default|-)…)…)
//!                       (type|interface Name (implements I…) (prop n Type)|(edge n Type (param Type default|-)…) …)…)`
use std::collections::BTreeSet;
use std::path::{Path, PathBuf};
use std::process::Command;

use trustfall_stubgen::generate_rust_stub;
use trustfall_stubgen::verif_util as hooks;

use tfharness::framework::*;
use tfharness::rng::Rng;
use tfharness::sexp::{Sexp, hex, unhex};

pub struct C26;

// ---------------------------------------------------------------------------------------------
// schema description ⇄ s-expression ⇄ SDL
// ---------------------------------------------------------------------------------------------

#[derive(Clone, Debug)]
struct Param {
    name: String,
    ty: String,
    default: Option<String>,
}

#[derive(Clone, Debug)]
enum Field {
    Prop { name: String, ty: String },
    Edge { name: String, ty: String, params: Vec<Param> },
}

impl Field {
    fn name(&self) -> &str {
        match self {
            Field::Prop { name, .. } | Field::Edge { name, .. } => name,
        }
    }
}

#[derive(Clone, Debug)]
struct TypeDef {
    name: String,
    is_interface: bool,
    implements: Vec<String>,
    fields: Vec<Field>,
}

#[derive(Clone, Debug)]
struct Entry {
    name: String,
    ty: String,
    params: Vec<Param>,
}

#[derive(Clone, Debug)]
struct SchemaDesc {
    root: Vec<Entry>,
    types: Vec<TypeDef>,
}

const PRELUDE: &str = "schema {
    query: RootSchemaQuery
}
directive @filter(op: String!, value: [String!]) repeatable on FIELD | INLINE_FRAGMENT
directive @tag(name: String) repeatable on FIELD
directive @output(name: String) repeatable on FIELD
directive @optional on FIELD
directive @recurse(depth: Int!) on FIELD
directive @fold on FIELD
directive @transform(op: String!) repeatable on FIELD
";

fn render_params(params: &[Param]) -> String {
    if params.is_empty() {
        return String::new();
    }
    let ps: Vec<String> = params
        .iter()
        .map(|p| match &p.default {
            Some(d) => format!("{}: {} = {}", p.name, p.ty, d),
            None => format!("{}: {}", p.name, p.ty),
        })
        .collect();
    format!("({})", ps.join(", "))
}

fn render_sdl(s: &SchemaDesc) -> String {
    let mut out = String::from(PRELUDE);
    out.push_str("\ntype RootSchemaQuery {\n");
    for e in &s.root {
        out.push_str(&format!("    {}{}: {}\n", e.name, render_params(&e.params), e.ty));
    }
    out.push_str("}\n");
    for t in &s.types {
        out.push('\n');
        out.push_str(if t.is_interface { "interface " } else { "type " });
        out.push_str(&t.name);
        if !t.implements.is_empty() {
            out.push_str(" implements ");
            out.push_str(&t.implements.join(" & "));
        }
        out.push_str(" {\n");
        for f in &t.fields {
            match f {
                Field::Prop { name, ty } => out.push_str(&format!("    {name}: {ty}\n")),
                Field::Edge { name, ty, params } => {
                    out.push_str(&format!("    {}{}: {}\n", name, render_params(params), ty))
                }
            }
        }
        out.push_str("}\n");
    }
    out
}

fn params_to_sexp(params: &[Param]) -> Vec<Sexp> {
    params
        .iter()
        .map(|p| {
            Sexp::list(vec![
                Sexp::atom(&p.name),
                Sexp::atom(&p.ty),
                Sexp::atom(p.default.clone().unwrap_or_else(|| "-".into())),
            ])
        })
        .collect()
}

fn schema_to_sexp(s: &SchemaDesc) -> Sexp {
    let mut items = vec![];
    let mut root = vec![];
    for e in &s.root {
        let mut v = vec![Sexp::atom(&e.name), Sexp::atom(&e.ty)];
        v.extend(params_to_sexp(&e.params));
        root.push(Sexp::call("entry", v));
    }
    items.push(Sexp::call("root", root));
    for t in &s.types {
        let mut v = vec![
            Sexp::atom(if t.is_interface { "interface" } else { "type" }),
            Sexp::atom(&t.name),
            Sexp::call("implements", t.implements.iter().map(Sexp::atom).collect()),
        ];
        for f in &t.fields {
            match f {
                Field::Prop { name, ty } => v.push(Sexp::call("prop", vec![Sexp::atom(name), Sexp::atom(ty)])),
                Field::Edge { name, ty, params } => {
                    let mut e = vec![Sexp::atom(name), Sexp::atom(ty)];
                    e.extend(params_to_sexp(params));
                    v.push(Sexp::call("edge", e));
                }
            }
        }
        items.push(Sexp::list(v));
    }
    Sexp::call("schema", items)
}

fn sexp_to_params(ps: &[Sexp]) -> Option<Vec<Param>> {
    let mut params = vec![];
    for p in ps {
        let pl = p.as_list()?;
        let d = pl.get(2)?.as_atom()?;
        params.push(Param {
            name: pl.first()?.as_atom()?.to_string(),
            ty: pl.get(1)?.as_atom()?.to_string(),
            default: if d == "-" { None } else { Some(d.to_string()) },
        });
    }
    Some(params)
}

fn sexp_to_schema(s: &Sexp) -> Option<SchemaDesc> {
    let (h, items) = s.as_call()?;
    if h != "schema" {
        return None;
    }
    let (rh, entries) = items.first()?.as_call()?;
    if rh != "root" {
        return None;
    }
    let mut root = vec![];
    for e in entries {
        let (eh, args) = e.as_call()?;
        if eh != "entry" {
            return None;
        }
        root.push(Entry {
            name: args.first()?.as_atom()?.to_string(),
            ty: args.get(1)?.as_atom()?.to_string(),
            params: sexp_to_params(&args[2..])?,
        });
    }
    let mut types = vec![];
    for it in &items[1..] {
        let l = it.as_list()?;
        let kind = l.first()?.as_atom()?;
        let name = l.get(1)?.as_atom()?.to_string();
        let (ih, impls) = l.get(2)?.as_call()?;
        if ih != "implements" {
            return None;
        }
        let implements = impls.iter().map(|x| x.as_atom().map(str::to_string)).collect::<Option<Vec<_>>>()?;
        let mut fields = vec![];
        for f in &l[3..] {
            let (fh, args) = f.as_call()?;
            match fh {
                "prop" => fields.push(Field::Prop {
                    name: args.first()?.as_atom()?.to_string(),
                    ty: args.get(1)?.as_atom()?.to_string(),
                }),
                "edge" => fields.push(Field::Edge {
                    name: args.first()?.as_atom()?.to_string(),
                    ty: args.get(1)?.as_atom()?.to_string(),
                    params: sexp_to_params(&args[2..])?,
                }),
                _ => return None,
            }
        }
        types.push(TypeDef { name, is_interface: kind == "interface", implements, fields });
    }
    Some(SchemaDesc { root, types })
}

// ---------------------------------------------------------------------------------------------
// running the real generator
// ---------------------------------------------------------------------------------------------

fn scratch_root() -> PathBuf {
    PathBuf::from(format!("/tmp/verif-stub-{}", std::process::id()))
}

fn target_dir() -> PathBuf {
    PathBuf::from(format!("/tmp/verif-stub-target-{}", std::process::id()))
}

fn fnv(s: &str) -> u64 {
    let mut h: u64 = 0xcbf29ce484222325;
    for b in s.bytes() {
        h ^= b as u64;
        h = h.wrapping_mul(0x100000001b3);
    }
    h
}

/// Between the quotes of a `'…'`-quoted name in a panic message.
fn quoted(msg: &str) -> Vec<String> {
    msg.split('\'').skip(1).step_by(2).map(str::to_string).collect()
}

/// `generate_rust_stub` on the SDL rendered from the description; canonical outcome text.
fn run_generator(sdl: &str, dir: &Path) -> String {
    let src = dir.join("src");
    match guarded(|| generate_rust_stub(sdl, &src)) {
        Ok(Ok(())) => "ok".to_string(),
        Ok(Err(e)) => format!("refused:{}", format!("{e:#}").replace(char::is_whitespace, "_")),
        Err(info) => {
            if info.contains("cannot generate adapter for a schema containing both") {
                let q = quoted(&info);
                if info.contains("as field names on vertex") && q.len() >= 3 {
                    format!("(conflict field {} {} {})", q[2], q[0], q[1])
                } else if q.len() >= 2 {
                    format!("(conflict vertex {} {})", q[0], q[1])
                } else {
                    format!("panic:{}", panic_key(&info))
                }
            } else if info.contains("not valid Rust") || info.contains("/prettyplease-") {
                // both are raised inside `RustFile::pretty_print_item` while the files are written
                "panic:pretty-print".to_string()
            } else if info.contains("is not yet supported when autogenerating stubs") {
                "panic:unsupported-type".to_string()
            } else {
                format!("panic:{}", panic_key(&info))
            }
        }
    }
}

fn first_rustc_error(stderr: &str) -> String {
    for line in stderr.lines() {
        let l = line.trim_start();
        if l.starts_with("error") && !l.starts_with("error: could not compile") {
            let words: Vec<&str> = l.split_whitespace().take(12).collect();
            return words.join("_");
        }
    }
    "unknown".to_string()
}

/// Build the generated stub inside a scratch crate (shared target dir), like the repo's own
/// `assert_generated_code_compiles`, but offline and with the repo's lockfile.
fn compile_stub(desc: &SchemaDesc) -> String {
    let sdl = render_sdl(desc);
    let dir = scratch_root().join(format!("case-{:016x}", fnv(&sdl)));
    let _ = std::fs::remove_dir_all(&dir);
    std::fs::create_dir_all(dir.join("src")).expect("scratch dir");
    let outcome = run_generator(&sdl, &dir);
    let answer = if outcome != "ok" {
        format!("not-generated:{outcome}")
    } else {
        let cargo_toml = "
[package]
name = \"tests\"
publish = false
version = \"0.1.0\"
edition = \"2021\"
rust-version = \"1.70\"

[dependencies]
trustfall = { path = '/repo/trustfall' }

[workspace]
";
        std::fs::write(dir.join("Cargo.toml"), cargo_toml).expect("Cargo.toml");
        std::fs::write(dir.join("src").join("lib.rs"), "mod adapter;\n").expect("lib.rs");
        std::fs::copy("/repo/Cargo.lock", dir.join("Cargo.lock")).expect("Cargo.lock");
        let output = Command::new("cargo")
            .current_dir(&dir)
            .env("CARGO_TARGET_DIR", target_dir())
            .env("CARGO_NET_OFFLINE", "true")
            .env_remove("RUSTFLAGS")
            .arg("test")
            .arg("--no-run")
            .arg("--offline")
            .output()
            .expect("failed to run cargo");
        if output.status.success() {
            "compiles".to_string()
        } else {
            let stderr = String::from_utf8_lossy(&output.stderr);
            if let Ok(p) = std::env::var("VERIF_STUB_KEEP_LOG") {
                let _ = std::fs::write(p, stderr.as_bytes());
            }
            format!("compile-error:{}", first_rustc_error(&stderr))
        }
    };
    let _ = std::fs::remove_dir_all(&dir);
    answer
}

fn cleanup_scratch() {
    let _ = std::fs::remove_dir_all(scratch_root());
    let _ = std::fs::remove_dir_all(target_dir());
}

// ---------------------------------------------------------------------------------------------
// name corpus
// ---------------------------------------------------------------------------------------------

/// The keyword table of `escaped_rust_name` plus every other strict / reserved / weak keyword of the
/// Rust reference (which the table does not list).
const KEYWORDS: &[&str] = &[
    "as", "break", "const", "continue", "crate", "else", "enum", "extern", "false", "fn", "for", "if", "impl",
    "in", "let", "loop", "match", "mod", "move", "mut", "pub", "ref", "return", "self", "Self", "static",
    "struct", "super", "trait", "true", "type", "unsafe", "use", "where", "while", "async", "await", "dyn",
    "try", "macro_rules", "union", "abstract", "become", "box", "do", "final", "macro", "override", "priv",
    "typeof", "unsized", "virtual", "yield", "gen", "safe", "raw",
];

fn name_corpus(tier: Tier, rng: &mut Rng) -> Vec<String> {
    let mut v: Vec<String> = vec![];
    let base = [
        "a", "A", "_", "__x", "x_", "x__", "_x", "a1", "A1", "a_1", "fooBar", "FooBar", "foo_bar", "Foo_Bar",
        "foo__bar", "FOO_BAR", "FOOBar", "fooBAR", "FooBAR", "fOO", "FOO", "Foo", "foo", "userID", "UserID",
        "user_id", "HTTPRequest", "httpRequest", "Http_Request", "iPhone", "IPhone", "x1Y2", "X1y2", "aB", "Ab",
        "AB", "ab", "a_B", "A_b", "_A", "_a", "_Ab", "__A", "A_", "A__", "number123Middle", "Number123Middle",
        "Type", "Type_", "type_", "Self_", "self_", "Match", "MATCH", "mAtch", "Static", "r", "r_", "contexts",
        "resolve_info", "_resolve_info", "parameters", "edge_name", "vertex", "Vertex", "Adapter", "Trustfall",
        "trustfall", "resolve_neighbors_with", "resolveNeighborsWith", "Std", "Core", "Option", "Vec", "String",
    ];
    v.extend(base.iter().map(|s| s.to_string()));
    for k in KEYWORDS {
        v.push(k.to_string());
        // capitalised / camel / suffixed relatives
        let mut c = k.chars();
        if let Some(f) = c.next() {
            v.push(format!("{}{}", f.to_ascii_uppercase(), c.as_str()));
        }
        v.push(format!("{k}_"));
        v.push(format!("_{k}"));
        v.push(k.to_ascii_uppercase());
    }
    let n = if tier == Tier::Quick { 300 } else { 6000 };
    const ALPHA: &[u8] = b"abcXYZ_019";
    for _ in 0..n {
        let len = 1 + rng.below(7);
        let mut s = String::new();
        for i in 0..len {
            let mut c = ALPHA[rng.below(ALPHA.len())] as char;
            if i == 0 && c.is_ascii_digit() {
                c = '_';
            }
            s.push(c);
        }
        v.push(s);
    }
    let mut seen = BTreeSet::new();
    v.retain(|s| seen.insert(s.clone()));
    v
}

fn is_graphql_name(s: &str) -> bool {
    let mut c = s.chars();
    match c.next() {
        Some(f) if f == '_' || f.is_ascii_alphabetic() => c.all(|x| x == '_' || x.is_ascii_alphanumeric()),
        _ => false,
    }
}

// ---------------------------------------------------------------------------------------------
// schema generators
// ---------------------------------------------------------------------------------------------

const PROP_TYPES: &[&str] = &["String", "Int!", "[Float]", "[String!]!", "Boolean", "ID!", "Float!", "[Int]", "ID"];
const PARAM_TYPES: &[(&str, &str)] = &[
    ("Int!", "5"),
    ("Int", "3"),
    ("String!", "\"abc\""),
    ("String", "null"),
    ("[Int!]!", "[1,2]"),
    ("Boolean!", "true"),
    ("Float!", "1.5"),
    ("[String]", "[null,\"x\"]"),
    ("[[Float!]]!", "[[1.5]]"),
];

/// Names that keep clear of every *known* generator defect (see known_findings.json): no Rust
/// keyword relatives, no two consecutive capitals, no name colliding with the templates' bindings.
const SAFE_TYPE_NAMES: &[&str] = &[
    "Story", "Comment", "user", "web_page", "Item2", "JobPosting", "Ab", "node_", "Repo_Owner", "x", "Q9", "_Hidden",
];
const SAFE_FIELD_NAMES: &[&str] = &[
    "id", "byUser", "by_username", "ownText", "Score", "url", "link_", "_private", "parent2", "topLevel", "Kids",
    "x", "aB", "submitted_", "commit9", "n_1",
];

fn wrap_edge_type(rng: &mut Rng, target: &str) -> String {
    match rng.below(5) {
        0 => target.to_string(),
        1 => format!("{target}!"),
        2 => format!("[{target}!]"),
        3 => format!("[{target}]!"),
        _ => format!("[{target}!]!"),
    }
}

fn gen_params(rng: &mut Rng, names: &[&str]) -> Vec<Param> {
    let n = [0, 0, 1, 1, 2, 3][rng.below(6)];
    let mut used = BTreeSet::new();
    let mut out = vec![];
    for _ in 0..n {
        let name = names[rng.below(names.len())].to_string();
        if !used.insert(name.clone()) {
            continue;
        }
        let (ty, d) = *rng.pick(PARAM_TYPES);
        out.push(Param { name, ty: ty.to_string(), default: if rng.chance(1, 2) { Some(d.to_string()) } else { None } });
    }
    out
}

/// A valid schema over the given name pools: 2-5 vertex types, optional interface with implementers
/// (inherited fields redeclared), properties of built-in scalar types, edges and entry points with
/// parameters.
fn gen_schema(rng: &mut Rng, type_pool: &[&str], field_pool: &[&str], param_pool: &[&str]) -> SchemaDesc {
    let n = 2 + rng.below(4);
    let mut pool: Vec<&str> = type_pool.to_vec();
    for i in (1..pool.len()).rev() {
        pool.swap(i, rng.below(i + 1));
    }
    let names: Vec<&str> = pool.into_iter().take(n).collect();
    let n = names.len();
    let has_iface = rng.chance(2, 3);
    let mut types: Vec<TypeDef> = vec![];
    for (i, name) in names.iter().enumerate() {
        let is_interface = has_iface && i == 0;
        let implements = if has_iface && i > 0 && rng.chance(1, 2) { vec![names[0].to_string()] } else { vec![] };
        let mut fields: Vec<Field> = vec![];
        if !implements.is_empty() {
            fields.extend(types[0].fields.iter().cloned());
        }
        let mut fpool: Vec<&str> = field_pool.to_vec();
        for k in (1..fpool.len()).rev() {
            fpool.swap(k, rng.below(k + 1));
        }
        let mut n_props = rng.below(4);
        let n_edges = rng.below(3);
        if fields.is_empty() && n_props + n_edges == 0 {
            n_props = 1;
        }
        let mut it = fpool.into_iter().filter(|f| !fields.iter().any(|g| g.name() == *f)).collect::<Vec<_>>().into_iter();
        for _ in 0..n_props {
            if let Some(f) = it.next() {
                fields.push(Field::Prop { name: f.to_string(), ty: rng.pick(PROP_TYPES).to_string() });
            }
        }
        for _ in 0..n_edges {
            if let Some(f) = it.next() {
                let target = names[rng.below(n)];
                fields.push(Field::Edge {
                    name: f.to_string(),
                    ty: wrap_edge_type(rng, target),
                    params: gen_params(rng, param_pool),
                });
            }
        }
        types.push(TypeDef { name: name.to_string(), is_interface, implements, fields });
    }
    // entry points: one per type under the type's own name (as schemas usually do), plus a few extra
    let mut root = vec![];
    for t in &types {
        root.push(Entry { name: t.name.clone(), ty: format!("[{}!]!", t.name), params: gen_params(rng, param_pool) });
    }
    let extra = rng.below(3);
    let mut epool: Vec<&str> = field_pool.to_vec();
    for k in (1..epool.len()).rev() {
        epool.swap(k, rng.below(k + 1));
    }
    for f in epool.into_iter().filter(|f| !types.iter().any(|t| t.name == *f)).take(extra) {
        let target = names[rng.below(n)];
        root.push(Entry { name: f.to_string(), ty: wrap_edge_type(rng, target), params: gen_params(rng, param_pool) });
    }
    SchemaDesc { root, types }
}

fn safe_param_names() -> Vec<&'static str> {
    vec!["min", "max", "userName", "Limit", "page_size", "q", "_skip", "n1"]
}

// ---------------------------------------------------------------------------------------------
// the property
// ---------------------------------------------------------------------------------------------

fn hex_name(s: &str) -> Sexp {
    Sexp::atom(hex(s.as_bytes()))
}

impl Prop for C26 {
    fn id(&self) -> &'static str {
        "C26"
    }
    fn rule(&self) -> &'static str {
        "three streams. (1) mangle: every name of a corpus of GraphQL-valid names (camelCase, snake_case, SCREAMING, leading/trailing/double underscores, digits, single letters, every Rust keyword incl. reserved and weak ones with their capitalised/suffixed relatives, names differing only in case or underscores, names of the templates' own bindings, seeded random names over [abcXYZ_019]) through to_lower_snake_case, upper_case_variant_name, escaped_rust_name (non-trivial: the function changes the name). (2) stub-check: generate_rust_stub outcome (ok / conflict refusal / panic) on seeded valid schemas over name pools that include colliding names, keywords and unsupported parameter types (non-trivial: outcome is not ok, or the schema has names the mangling changes). (3) stub-compile: the generated stub is built with `cargo test --no-run --offline` in a scratch crate; schemas drawn from pools that avoid the known generator defects plus one witness schema per known defect (non-trivial: every case)."
    }
    fn generate(&self, tier: Tier, rng: &mut Rng) -> Vec<Case> {
        let mut out = vec![];
        // (1) mangling
        for n in name_corpus(tier, rng) {
            if !is_graphql_name(&n) {
                continue;
            }
            for f in ["snake", "variant", "escape"] {
                let changed = match f {
                    "snake" => hooks::to_lower_snake_case(&n) != n,
                    "variant" => hooks::upper_case_variant_name(&n) != n,
                    _ => hooks::escaped_rust_name(n.clone()) != n,
                };
                let tag = format!("mangle:{f}");
                let mut tags = vec![tag.as_str()];
                if changed {
                    tags.push("nt:name-changed");
                }
                out.push(Case::new(Sexp::call("mangle", vec![Sexp::atom(f), hex_name(&n)]), &tags));
            }
        }
        // (2) generator outcome on schemas with risky names
        let risky_types: Vec<&str> = vec![
            "Story", "story", "STORY", "FooBar", "foo_bar", "fooBar", "Foo_Bar", "Type", "Type_", "type_", "Self",
            "self_", "Match", "Mod", "Do", "Final", "Yield", "fOO", "FOO", "UserID", "user_id", "_", "X_",
            "Trustfall", "Box", "Priv", "Item", "Node",
        ];
        let risky_fields: Vec<&str> = vec![
            "id", "Id", "ID", "byUser", "by_user", "ByUser", "type", "type_", "Type", "match", "self", "Self", "super",
            "crate", "async", "try", "union", "do", "final", "yield", "box", "priv", "macro", "abstract", "gen", "_",
            "resolve_neighbors_with", "name", "url", "fn", "mod", "move", "loop",
        ];
        let risky_params: Vec<&str> = vec![
            "min", "max", "match", "self", "type", "contexts", "resolve_info", "_resolve_info", "parameters", "_", "do",
            "Self", "crate", "super", "try", "union", "gen", "x",
        ];
        let n_check = if tier == Tier::Quick { 120 } else { 1500 };
        for i in 0..n_check {
            let desc = match i % 3 {
                0 => gen_schema(rng, SAFE_TYPE_NAMES, &safe_fields(), &safe_param_names()),
                1 => gen_schema(rng, &risky_types, &safe_fields(), &safe_param_names()),
                _ => gen_schema(rng, &risky_types, &risky_fields, &risky_params),
            };
            let pool = ["safe", "risky-types", "risky-all"][i % 3];
            let tag = format!("pool:{pool}");
            out.push(Case::new(Sexp::call("stub-check", vec![schema_to_sexp(&desc)]), &["stub-check", tag.as_str()]));
        }
        // (3) compile oracle
        let n_compile = if tier == Tier::Quick { 3 } else { 30 };
        for _ in 0..n_compile {
            let desc = gen_schema(rng, SAFE_TYPE_NAMES, &safe_fields(), &safe_param_names());
            out.push(Case::new(
                Sexp::call("stub-compile", vec![schema_to_sexp(&desc)]),
                &["stub-compile", "nt:compile-oracle"],
            ));
        }
        out
    }
    fn eval(&self, request: &Sexp) -> Option<String> {
        let (h, args) = request.as_call()?;
        match (h, args) {
            ("mangle", [f, name]) => {
                let n = String::from_utf8(unhex(name.as_atom()?)?).ok()?;
                let r = match f.as_atom()? {
                    "snake" => guarded(|| hooks::to_lower_snake_case(&n)),
                    "variant" => guarded(|| hooks::upper_case_variant_name(&n)),
                    "escape" => guarded(|| hooks::escaped_rust_name(n.clone())),
                    _ => return None,
                };
                Some(match r {
                    Ok(s) => hex(s.as_bytes()),
                    Err(_) => "panic".to_string(),
                })
            }
            ("stub-check", [s]) => {
                let desc = sexp_to_schema(s)?;
                let sdl = render_sdl(&desc);
                let dir = scratch_root().join(format!("check-{:016x}", fnv(&sdl)));
                let _ = std::fs::remove_dir_all(&dir);
                std::fs::create_dir_all(&dir).ok()?;
                let outcome = run_generator(&sdl, &dir);
                let _ = std::fs::remove_dir_all(&dir);
                Some(outcome)
            }
            ("stub-compile", [s]) => {
                let desc = sexp_to_schema(s)?;
                Some(compile_stub(&desc))
            }
            _ => None,
        }
    }
    fn post_tags(&self, e: &Evaluated) -> Vec<String> {
        let Some((h, _)) = e.request.as_call() else { return vec![] };
        if h == "mangle" {
            return vec![];
        }
        let class = if e.answer.starts_with("(conflict vertex") {
            "conflict-vertex".to_string()
        } else if e.answer.starts_with("(conflict field") {
            "conflict-field".to_string()
        } else {
            e.answer.split(':').take(2).collect::<Vec<_>>().join(":").chars().take(60).collect()
        };
        let mut tags = vec![format!("outcome:{class}")];
        if h == "stub-check" && e.answer != "ok" {
            tags.push("nt:generator-refuses-or-panics".into());
        }
        tags
    }
    fn oracle(&self, evaluated: &[Evaluated]) -> Vec<OracleFailure> {
        let mut fails = vec![];
        for e in evaluated {
            let Some((h, _)) = e.request.as_call() else { continue };
            let mut fail = |key: String, detail: String| {
                fails.push(OracleFailure { key, detail, requests: vec![e.line.clone()] });
            };
            match h {
                // every generated schema is valid and uses built-in scalars only: the generator must
                // produce a stub (a conflict refusal is the documented way out for colliding names)
                "stub-check" => {
                    if e.answer.starts_with("panic:") || e.answer == "panic" {
                        fail(format!("generator-panic:{}", e.answer), e.panic_info.clone().unwrap_or_default());
                    } else if e.answer.starts_with("refused:") {
                        fail("generated-schema-rejected".into(), e.answer.clone());
                    }
                }
                "stub-compile" => {
                    if e.answer.starts_with("compile-error") {
                        fail(format!("stub-does-not-compile:{}", e.answer), e.answer.clone());
                    } else if e.answer.starts_with("not-generated:panic") {
                        fail(format!("generator-panic:{}", &e.answer["not-generated:".len()..]), e.answer.clone());
                    } else if e.answer.starts_with("not-generated:refused") {
                        fail("generated-schema-rejected".into(), e.answer.clone());
                    }
                }
                _ => {}
            }
        }
        cleanup_scratch();
        fails
    }
    fn extra_stats(&self, evaluated: &[Evaluated]) -> serde_json::Value {
        let count = |p: &str| evaluated.iter().filter(|e| e.line.starts_with(p)).count();
        serde_json::json!({
            "mangle_requests": count("(mangle"),
            "stub_check_schemas": count("(stub-check"),
            "stub_compile_schemas": count("(stub-compile"),
            "stubs_compiled_ok": evaluated.iter().filter(|e| e.answer == "compiles").count(),
        })
    }
}

fn safe_fields() -> Vec<&'static str> {
    SAFE_FIELD_NAMES.to_vec()
}

fn main() {
    main_for(vec![Box::new(C26)]);
}
